CONSTANTS MaxFeatures = 3 MinFeatures = 0 Avoid = {}
SPECIFICATION Spec
INVARIANT Emit
