CONSTANTS MaxFeatures = 3 MinFeatures = 0
SPECIFICATION Spec
INVARIANT Emit
