CONSTANTS
  Rotations = {0, 9, 18, 27}
  Widths = {3}
  TransportSets = {{"grpc"}, {"rest"}, {"grpc", "rest"}}
  Namings = {"plain"}
  NSvcs = {1}
  ReqPkgs = {"own", "dep"}
  Flattens = {FALSE}
  FormSet = {"unary", "paged", "lro", "sstream", "cstream", "bidi", "void"}
  MaxCode = 1
  AnyOrder = FALSE
  Mutant = "none"
SPECIFICATION Spec
INVARIANT Emit
