CONSTANTS MaxFeatures = 99 MinFeatures = 0 Avoid = {}
SPECIFICATION TSpec
CONSTRAINT Progress
INVARIANT Inv_WF
POSTCONDITION Accepted
CHECK_DEADLOCK FALSE
