---------------------------- MODULE FeaturesTrace ----------------------------
(***************************************************************************)
(* Validates observed runs of the emitted unit-test suite (C13) against    *)
(* Features.  TRACE_FILE: [ {features: [..], tests: [{rpc, kind, pager}],  *)
(* failures, errors} .. ].  A run is accepted iff the feature set is WF     *)
(* and conventional, nothing failed and the inventory RequiredTests of the  *)
(* specification is contained in the tests that ran.                        *)
(***************************************************************************)
EXTENDS Features, IOUtils, TLCExt
VARIABLES tid
Traces == JsonDeserialize(IOEnv.TRACE_FILE)
N == Len(Traces)
tvars == <<vars, tid>>
Obs == Traces[tid]
TInit == tid = 1 /\ TLCSet(1, 0) /\ TLCSet(2, <<0, 0>>) /\ F = Range(Traces[1].features) /\ stage = "done"
TCheck == /\ tid <= N
          /\ WF(F) /\ Conventional
          /\ SuiteOk({ [rpc |-> t.rpc, kind |-> t.kind, pager |-> t.pager] : t \in Range(Obs.tests) }, Obs.failures, Obs.errors)
          /\ TLCSet(1, tid)
          /\ tid' = tid + 1
          /\ F' = IF tid + 1 <= N THEN Range(Traces[tid + 1].features) ELSE F
          /\ UNCHANGED stage
TSpec == TInit /\ [][TCheck]_tvars
Progress == TLCSet(2, <<tid, 1>>)
Accepted == PrintT(<<"ACCEPTED", TLCGet(1)>>) /\ PrintT(<<"REACHED", TLCGet(2)>>) /\ TLCGet(1) = N
=============================================================================
