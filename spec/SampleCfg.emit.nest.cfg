CONSTANTS
  Mutant = "none"
  Lvals = {"x", "y"}
  LoopVals = {"y"}
  Roots = {"$resp", "x", "y"}
  RootSels = {"none"}
  Attrs1 = {"items", "subs", "tag", "by_name"}
  Sels1 = {"none"}
  Attrs2 = {}
  Len2 = 1
  Kinds = {"print", "loop"}
  LoopForms = {{"collection", "variable", "body"}, {"map", "value", "body"}}
  ReqKeys = {}
  MaxReq = 0
  MaxLen = 3
  MaxDepth = 2
SPECIFICATION SpecEmit
INVARIANT Emit
