\* strict: the batch stops at the first observation that violates a clause of the property
CONSTANTS
  Fns = {"wrap", "rst", "fixws", "embed"}
  Alphabet = {"w3", "w9", "long", "sp", "sps", "tab", "nl", "blank", "li", "star", "plus", "num", "colon", "quote", "tquote", "bslash"}
  MinLen = 0
  MaxLen = 0
  Widths = {}
  Indents = {}
  Offsets = {}
  RstWidths = {}
  RstIndents = {}
  Kinds = {}
  Gaps = {}
  MaxItems = 0
  MaxLvl = 0
  Origins = {}
  Mutant = "none"
SPECIFICATION TSpec
CONSTRAINT Progress
INVARIANT Inv_Post
POSTCONDITION Accepted
CHECK_DEADLOCK FALSE
