CONSTANTS MaxParams = 2 MaxVars = 2 Pool = "small" MaxCalls = 1 OptFields = {} MaxPages = 1 Mutant = "none"
SPECIFICATION Spec
INVARIANT Emit
