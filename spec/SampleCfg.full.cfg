CONSTANTS
  Mutant = "none"
  Lvals = {"x", "class", "$resp"}
  LoopVals = {"y", "x"}
  Roots = {"$resp", "x"}
  RootSels = {"none"}
  Attrs1 = {"items", "title", "by_name", "nope"}
  Sels1 = {"none", "idx"}
  Attrs2 = {"name"}
  Len2 = 1
  Kinds = {"define", "print", "write_file", "invalid", "loop"}
  LoopForms = {{"collection", "variable", "body"}, {"map", "key", "value", "body"}, {"map", "body"}, {"map", "value", "body"}, {"collection", "body"}}
  ReqKeys = {"name/p=x", "parent%project"}
  MaxReq = 1
  MaxLen = 3
  MaxDepth = 2
SPECIFICATION SpecT
INVARIANT Inv_Type
INVARIANT Inv_Verdict
INVARIANT Inv_ReadsDefined
INVARIANT Inv_LexicalScope
INVARIANT Inv_LoopVarLeaves
INVARIANT Inv_NoRedefinition
INVARIANT Inv_Reserved
INVARIANT Inv_Binds
INVARIANT Inv_LoopForm
INVARIANT Inv_FormatArity
INVARIANT Inv_NoInvalid
INVARIANT Inv_ErrSound
INVARIANT Inv_Request
