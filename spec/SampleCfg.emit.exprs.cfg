CONSTANTS
  Mutant = "none"
  Lvals = {"x"}
  LoopVals = {"y"}
  Roots = {"$resp", "x"}
  RootSels = {"none", "idx", "key"}
  Attrs1 = {"items", "title", "by_name", "labels", "first", "color", "tags", "alt_item", "alt_text", "name", "subs", "key", "value", "nope"}
  Sels1 = {"none", "idx", "key", "bad"}
  Attrs2 = {"name", "tag", "subs", "leaf", "value", "nope"}
  Len2 = 2
  Kinds = {"define", "print"}
  LoopForms = {}
  ReqKeys = {}
  MaxReq = 0
  MaxLen = 1
  MaxDepth = 0
SPECIFICATION SpecEmit
INVARIANT Emit
