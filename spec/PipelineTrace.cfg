CONSTANT Scope = "tiny"
SPECIFICATION TSpec
CONSTRAINT Progress
INVARIANT Inv_Unique
INVARIANT Inv_Normalised
INVARIANT TInv_InitPy
INVARIANT TInv_TypesExact
INVARIANT TInv_ServicesExact
INVARIANT Inv_Transports
POSTCONDITION Accepted
CHECK_DEADLOCK FALSE
