CONSTANTS Scope = "sel_small" TableLo = 1 NTable = 6 MaxLen = 0 RunCalls = FALSE Transports = {"grpc"} FreeJitter = FALSE Mutant = "none"
SPECIFICATION Spec
INVARIANT Inv_Resolve
INVARIANT Inv_Loaded
INVARIANT EmitResolve
