-------------------------------- MODULE Lro --------------------------------
(***************************************************************************)
(* Long-running methods (C08).                                             *)
(*                                                                         *)
(* Part (a), generation time - a small pipeline over ONE method `Run` of   *)
(* service `Lr` in package P:                                              *)
(*   LoadTypes   pass 1: the messages of the next file of the request are  *)
(*               registered (no services yet)                              *)
(*   ResolveLro  pass 2: the method is loaded with every message of the    *)
(*               request in scope; its operation_info is resolved          *)
(*               -> "future" (resolved response / metadata full names)     *)
(*               |  "plain"  (no annotation, or the output is not          *)
(*                            google.longrunning.Operation)                *)
(*               |  "TypeError" (annotation present, a type name empty)    *)
(* A case fixes: annotation {absent, present} x output {Operation, other}  *)
(* x for each of response / metadata:  how the name is written {relative,  *)
(* fully-qualified, empty} x where the type is defined {same file, other   *)
(* target file imported by the service file, other target file NOT         *)
(* imported (before / after the service file in the request),              *)
(* google.protobuf.Empty}.  A dependency package D defines decoys with the *)
(* same simple names: relative names resolve against the METHOD's package. *)
(*                                                                         *)
(* Part (b), run time - one action per observable step of the emitted code:*)
(*   Start    exactly one call to the RPC on the channel of the client     *)
(*            instance the caller uses (chan = inst; two instances of the  *)
(*            service, each with its own channel, live in one process)     *)
(*            carrying the caller's argument, whatever the request field   *)
(*            is called (`name`, `operation`, `operation_async`) and       *)
(*            whether it is passed in a request object or flattened        *)
(*   Wrap     the method returns an operation future (sync / async) that   *)
(*            exposes the metadata of the initial reply                    *)
(*   Return   (plain methods) the method returns the raw reply             *)
(*   Poll     the current state is not done: exactly one                   *)
(*            /google.longrunning.Operations/GetOperation on the SAME      *)
(*            channel, carrying the operation name                         *)
(*   Resolve  the current state is done with a response: result() returns  *)
(*            an instance of the annotated response type, value preserved  *)
(*   Fail     the current state is done with an error: result() raises it  *)
(* The server history is  s_1 .. s_{k+1} = NotDone^k . Done(response|error)*)
(* s_1 is the reply to the RPC itself, s_{i+1} the reply to the i-th poll: *)
(* polls = k, in particular ZERO when the initial reply is already done.   *)
(* Every state carries metadata with progress value i.                     *)
(***************************************************************************)
EXTENDS Naturals, Sequences, FiniteSets, TLC, Json

CONSTANTS MaxK,      \* longest not-done prefix
          Values,    \* abstract response payloads (positive integers)
          Codes,     \* google.rpc.Code numbers an operation may fail with
          Scope,     \* "all" | "res" (every resolution case, one history) | "run" (carrier cases, every history)
          Insts,     \* which client instances of the process (1 = created first, 2 = second) start the operation
          Mutant     \* "none" for the real design; anything else is a self-test mutant TLC must reject

VARIABLES c,         \* the case: [ann, out, rsp, mta, fld, form] (never changes)
          h,         \* the history: [k, outcome, value, code]   (never changes)
          mode,      \* "sync" | "asyncio" client                (never changes)
          inst,      \* the client instance (= its channel) the caller uses: 1 | 2   (never changes)
          stage,     \* "load" | "resolve" | "ready" | "failed"
          pos,       \* number of request files loaded in pass 1
          known,     \* full names of the messages registered so far
          genres,    \* "pending" | "future" | "plain" | "TypeError" | "KeyError"
          lro,       \* [resp, meta] resolved full names ("" before / when not an LRO)
          phase,     \* "idle" | "called" | "wrapped" | "settled"
          cur,       \* index of the last operation state the client has seen
          calls,     \* calls seen by the servers: [rpc, chan, name]; chan = the channel (client instance) the call
                     \* went out on, 0 = a channel that belongs to no client instance
          future,    \* "" | "sync" | "async" | "none"
          seenMeta,  \* [type, value] of future.metadata
          result,    \* [type, value] returned by result() / by a plain method
          raised     \* 0 | status code raised by result()
vars == <<c, h, mode, inst, stage, pos, known, genres, lro, phase, cur, calls, future, seenMeta, result, raised>>

P     == "acme.lr.v1"
A     == "acme"             \* a package ENCLOSING the method's package (a dependency, imported by the service file)
D     == "other.dep.v1"
E     == "other.ext.v1"     \* a dependency package whose files the service file does NOT import
OP    == "google.longrunning.Operation"
EMPTY == "google.protobuf.Empty"
Qual(pkg, n) == pkg \o "." \o n
THING == Qual(P, "Thing")
OpName == "operations/op7"
RSP == "RunResponse"
MTA == "RunMetadata"

ExtSites == {"ext_before", "ext_after"}   \* defined in package E, file not imported, listed before / after the service file
Sites == {"same", "imported", "unimp_before", "unimp_after", "empty_pb"} \cup ExtSites
\* encl: a message with the same short name ALSO exists in the enclosing package A (file `anc`, imported by the
\* service file).  It must never capture a relative name: the method's own package wins.
TypeRefs == {r \in [kind : {"rel", "fq", "empty"}, site : Sites, encl : BOOLEAN] :
               /\ (r.site = "empty_pb" => r.kind = "fq")     \* a relative `Empty` would name P.Empty, which does not exist
               /\ (r.site \in ExtSites => r.kind = "fq")     \* another package can only be named fully-qualified
               /\ (r.kind = "empty" => r.site = "same")      \* canonical: the site of an unnamed type is irrelevant
               /\ (r.encl => r.kind = "rel")}                \* bound: the enclosing namesake is varied for relative names
Ref(k, s) == [kind |-> k, site |-> s, encl |-> FALSE]
Canon == Ref("rel", "same")
\* How the caller names the resource: the request field is called `fld` and is passed either inside a request
\* object or as a flattened keyword argument (method_signature = fld).  `operation` / `operation_async` are the
\* names of the api-core modules the emitted clients wrap the reply with: the property does not depend on any of it.
Fields == {"name", "operation", "operation_async"}
Forms == {"request", "flattened"}
Arg == "things/1"
Shape(x, f, g) == [ann |-> x.ann, out |-> x.out, rsp |-> x.rsp, mta |-> x.mta, fld |-> f, form |-> g]
ResCases == {Shape(x, "name", "request") : x \in
               {y \in [ann : BOOLEAN, out : {"op", "other"}, rsp : TypeRefs, mta : TypeRefs] :
                  ~y.ann => (y.rsp = Canon /\ y.mta = Canon)}}
CarrierTypes ==
            { [ann |-> TRUE, out |-> "op", rsp |-> Ref("rel", "unimp_after"), mta |-> Ref("rel", "imported")],
              [ann |-> TRUE, out |-> "op", rsp |-> Ref("fq", "empty_pb"), mta |-> Ref("fq", "same")],
              [ann |-> TRUE, out |-> "op", rsp |-> Ref("fq", "empty_pb"), mta |-> Ref("rel", "same")],
              [ann |-> TRUE, out |-> "op", rsp |-> Ref("fq", "unimp_before"), mta |-> Ref("fq", "empty_pb")],
              [ann |-> TRUE, out |-> "op", rsp |-> [kind |-> "rel", site |-> "same", encl |-> TRUE],
                                           mta |-> [kind |-> "rel", site |-> "unimp_after", encl |-> TRUE]],
              [ann |-> FALSE, out |-> "op", rsp |-> Canon, mta |-> Canon] }
Carriers == {Shape(x, "name", "request") : x \in CarrierTypes}
            \cup {Shape(x, f, g) : x \in {y \in CarrierTypes : y.ann /\ ~y.rsp.encl}, f \in Fields \ {"name"}, g \in Forms}

MinOf(S) == CHOOSE x \in S : \A y \in S : x <= y
Hists == {x \in [k : 0..MaxK, outcome : {"response", "error"}, value : Values, code : Codes] :
            /\ (x.outcome = "response" => x.code = MinOf(Codes))
            /\ (x.outcome = "error" => x.value = MinOf(Values))}
FixedHist == [k |-> 1, outcome |-> "response", value |-> MinOf(Values), code |-> MinOf(Codes)]

-----------------------------------------------------------------------------
(* The request: files in the order the generator receives them.            *)
Order == <<"empty", "dep", "anc", "types_imp", "types_unb", "ext_b", "lr", "types_una", "ext_a">>
Home(r) == CASE r.site = "same"         -> "lr"
             [] r.site = "imported"     -> "types_imp"
             [] r.site = "unimp_before" -> "types_unb"
             [] r.site = "unimp_after"  -> "types_una"
             [] r.site = "empty_pb"     -> "empty"
             [] r.site = "ext_before"   -> "ext_b"
             [] r.site = "ext_after"    -> "ext_a"
Used == {"empty", "dep", "lr", Home(c.rsp), Home(c.mta)} \cup (IF c.rsp.encl \/ c.mta.encl THEN {"anc"} ELSE {})
ReqOrder == SelectSeq(Order, LAMBDA f : f \in Used)
PkgOf(f) == CASE f = "empty" -> "google.protobuf" [] f = "dep" -> D [] f = "anc" -> A [] f \in {"ext_b", "ext_a"} -> E [] OTHER -> P
SimpleMsgs(f) == CASE f = "empty" -> <<"Empty">>
                   [] f = "dep"   -> <<RSP, MTA>>
                   [] f = "anc"   -> (IF c.rsp.encl THEN <<RSP>> ELSE <<>>) \o (IF c.mta.encl THEN <<MTA>> ELSE <<>>)
                   [] OTHER       -> (IF f = "lr" THEN <<"Req", "Thing">> ELSE <<>>)
                                     \o (IF Home(c.rsp) = f THEN <<RSP>> ELSE <<>>)
                                     \o (IF Home(c.mta) = f THEN <<MTA>> ELSE <<>>)
Defs(f) == {Qual(PkgOf(f), SimpleMsgs(f)[i]) : i \in DOMAIN SimpleMsgs(f)}
ImportsOf(f) == IF f = "lr" THEN SelectSeq(ReqOrder, LAMBDA g : g \in {"empty", "dep", "anc", "types_imp"}) ELSE <<>>

\* the text of the annotation
Written(r, simple) == CASE r.kind = "empty" -> ""
                        [] r.kind = "rel"   -> simple
                        [] r.kind = "fq"    -> IF r.site = "empty_pb" THEN EMPTY
                                               ELSE IF r.site \in ExtSites THEN Qual(E, simple) ELSE Qual(P, simple)

\* what the generator does with it (mutants live here, the property below does not use this)
ResolveName(r, simple) ==
    CASE Mutant = "prefix_qualified" -> Qual(P, Written(r, simple))
      [] Mutant = "decoy_package" /\ r.kind = "rel" -> Qual(D, simple)
      [] Mutant = "outermost_first" /\ r.kind = "rel" /\ r.encl -> Qual(A, simple)   \* captured by the enclosing package
      [] r.kind = "rel" -> Qual(P, simple)       \* P is the package of the METHOD
      [] OTHER -> Written(r, simple)

IsLroCandidate == c.out = "op" /\ c.ann
LacksName == c.rsp.kind = "empty" \/ c.mta.kind = "empty"

-----------------------------------------------------------------------------
Init == /\ c \in (IF Scope = "run" THEN Carriers ELSE ResCases)
        /\ h \in (IF Scope = "res" THEN {FixedHist} ELSE Hists)
        /\ mode \in (IF Scope = "res" THEN {"sync"} ELSE {"sync", "asyncio"})
        /\ inst \in Insts
        /\ stage = "load" /\ pos = 0 /\ known = {} /\ genres = "pending" /\ lro = [resp |-> "", meta |-> ""]
        /\ phase = "idle" /\ cur = 0 /\ calls = <<>> /\ future = ""
        /\ seenMeta = [type |-> "", value |-> 0] /\ result = [type |-> "", value |-> 0] /\ raised = 0

rt == <<phase, cur, calls, future, seenMeta, result, raised>>
cs == <<c, h, mode, inst>>

\* pass 1: one file at a time, messages only.  (mutant single_pass: services are loaded as soon as their file is)
LoadTypes == /\ stage = "load" /\ pos < Len(ReqOrder)
             /\ pos' = pos + 1
             /\ known' = known \cup Defs(ReqOrder[pos + 1])
             /\ stage' = IF pos + 1 = Len(ReqOrder) \/ (Mutant = "single_pass" /\ ReqOrder[pos + 1] = "lr")
                         THEN "resolve" ELSE "load"
             /\ UNCHANGED <<cs, genres, lro, rt>>

\* pass 2: the method is loaded with everything registered in scope
ResolveLro ==
    /\ stage = "resolve"
    /\ LET rn == ResolveName(c.rsp, RSP)
           mn == ResolveName(c.mta, MTA)
       IN  IF ~IsLroCandidate
           THEN genres' = "plain" /\ lro' = lro /\ stage' = "ready"
           ELSE IF LacksName /\ Mutant # "accept_empty"
           THEN genres' = "TypeError" /\ lro' = lro /\ stage' = "failed"
           ELSE IF LacksName
           THEN genres' = "plain" /\ lro' = lro /\ stage' = "ready"
           ELSE IF {rn, mn} \subseteq (IF Mutant = "late_dependency_invisible" THEN known \ Defs("ext_a") ELSE known)
           THEN genres' = "future" /\ lro' = [resp |-> rn, meta |-> mn] /\ stage' = "ready"
           ELSE genres' = "KeyError" /\ lro' = lro /\ stage' = "failed"
    /\ UNCHANGED <<cs, pos, known, rt>>

-----------------------------------------------------------------------------
Done(i) == i >= h.k + 1
ValueIn(t, v) == IF t = EMPTY THEN 0 ELSE v            \* an Empty carries nothing
MetaType == IF Mutant = "drop_metadata_type" THEN "" ELSE lro.meta
MetaAt(i) == [type |-> MetaType, value |-> ValueIn(MetaType, i)]
NPolls == Len(calls) - (IF phase = "idle" THEN 0 ELSE 1)

Start == /\ stage = "ready" /\ phase = "idle"
         /\ calls' = <<[rpc |-> "Run", chan |-> inst, name |-> IF Mutant = "lose_argument" THEN "" ELSE Arg]>>
         /\ cur' = 1 /\ phase' = "called"
         /\ UNCHANGED <<cs, stage, pos, known, genres, lro, future, seenMeta, result, raised>>

Wrap == /\ phase = "called" /\ genres = "future"
        /\ future' = IF mode = "asyncio" /\ Mutant # "sync_future" THEN "async" ELSE "sync"
        /\ seenMeta' = MetaAt(cur)
        /\ phase' = "wrapped"
        /\ UNCHANGED <<cs, stage, pos, known, genres, lro, cur, calls, result, raised>>

Return == /\ phase = "called" /\ genres = "plain"
          /\ future' = "none"
          /\ result' = IF c.out = "op" THEN [type |-> OP, value |-> 0] ELSE [type |-> THING, value |-> h.value]
          /\ phase' = "settled"
          /\ UNCHANGED <<cs, stage, pos, known, genres, lro, cur, calls, seenMeta, raised>>

PollGuard == IF Mutant = "poll_when_done" THEN NPolls <= h.k ELSE ~Done(cur)
Poll == /\ phase = "wrapped" /\ PollGuard
        /\ calls' = Append(calls, [rpc  |-> "GetOperation",
                                   chan |-> CASE Mutant = "fresh_channel" -> 0
                                              \* one operations client per PROCESS, built on the first instance's channel
                                              [] Mutant = "shared_operations_client" -> 1
                                              [] OTHER -> inst,
                                   name |-> IF Mutant = "wrong_name" THEN "" ELSE OpName])
        /\ cur' = cur + 1
        /\ seenMeta' = MetaAt(cur + 1)
        /\ UNCHANGED <<cs, stage, pos, known, genres, lro, phase, future, result, raised>>

Resolve == /\ phase = "wrapped" /\ Done(cur) /\ ~(Mutant = "poll_when_done" /\ PollGuard)
           /\ h.outcome = "response" \/ Mutant = "swallow_error"
           /\ result' = IF h.outcome = "response" THEN [type |-> lro.resp, value |-> ValueIn(lro.resp, h.value)] ELSE result
           /\ phase' = "settled"
           /\ UNCHANGED <<cs, stage, pos, known, genres, lro, cur, calls, future, seenMeta, raised>>

Fail == /\ phase = "wrapped" /\ Done(cur) /\ ~(Mutant = "poll_when_done" /\ PollGuard)
        /\ h.outcome = "error" /\ Mutant # "swallow_error"
        /\ raised' = h.code
        /\ phase' = "settled"
        /\ UNCHANGED <<cs, stage, pos, known, genres, lro, cur, calls, future, seenMeta, result>>

Next == LoadTypes \/ ResolveLro \/ Start \/ Wrap \/ Return \/ Poll \/ Resolve \/ Fail
Spec == Init /\ [][Next]_vars /\ WF_vars(Next)

-----------------------------------------------------------------------------
(* The property, clause by clause (written from the text of C08, not from  *)
(* the actions above).                                                     *)
Terminal == stage = "failed" \/ phase = "settled"
Generated == stage \in {"ready", "failed"}
\* "resolved relative to the method's package" / fully-qualified names as written
Annotated(r, simple) == IF r.kind = "rel" THEN Qual(P, simple) ELSE Written(r, simple)
RespT == Annotated(c.rsp, RSP)
MetaT == Annotated(c.mta, MTA)
IsFuture == phase \in {"wrapped", "settled"} /\ genres = "future"

\* "such a method lacking either type name is rejected at generation time" - and nothing else is
Inv_Reject == Generated => ((stage = "failed") <=> (IsLroCandidate /\ LacksName))
Inv_RejectKind == stage = "failed" => genres = "TypeError"
\* "... annotated with operation_info returns an operation future ... types resolved relative to the method's package
\*  even when the defining file is not imported by the service's file"
Inv_Resolved == Generated /\ IsLroCandidate /\ ~LacksName =>
                    genres = "future" /\ lro = [resp |-> RespT, meta |-> MetaT]
\* "an Operation-returning method without the annotation returns the raw Operation" (and other outputs are untouched)
Inv_Plain == /\ Generated /\ ~IsLroCandidate => genres = "plain"
             /\ phase = "settled" /\ genres = "plain" =>
                   /\ future = "none" /\ NPolls = 0 /\ raised = 0
                   /\ result.type = IF c.out = "op" THEN OP ELSE THING
             /\ genres = "plain" => ~(IsLroCandidate /\ ~LacksName)
Inv_FutureKind == IsFuture => future = IF mode = "asyncio" THEN "async" ELSE "sync"
\* exactly one call to the RPC
Inv_OneStart == /\ Cardinality({i \in DOMAIN calls : calls[i].rpc = "Run"}) = IF phase = "idle" THEN 0 ELSE 1
                /\ calls # <<>> => calls[1].rpc = "Run" /\ calls[1].name = Arg    \* ... carrying the caller's argument
\* polls = k, consistent with the history at every step; nothing but GetOperation with the operation's name
Inv_Polls == /\ NPolls <= h.k
             /\ IsFuture => NPolls = cur - 1
             /\ phase = "settled" /\ genres = "future" => NPolls = h.k
             /\ \A i \in DOMAIN calls : i > 1 => calls[i].rpc = "GetOperation" /\ calls[i].name = OpName
\* "polls ... on the same channel": the RPC goes out on the channel of the client instance the caller used, and
\* every poll of the operation goes out on the channel its Start went out on
Inv_SameChannel == /\ calls # <<>> => calls[1].chan = inst
                   /\ \A i \in DOMAIN calls : calls[i].chan = calls[1].chan
\* result is an instance of the annotated response type and equals the packed response
Inv_Result == phase = "settled" /\ genres = "future" /\ h.outcome = "response" =>
                  result = [type |-> RespT, value |-> ValueIn(RespT, h.value)] /\ raised = 0
\* metadata likewise, always that of the most recent state
Inv_Metadata == IsFuture => seenMeta = [type |-> MetaT, value |-> ValueIn(MetaT, cur)]
\* an error history raises
Inv_Error == phase = "settled" /\ genres = "future" /\ h.outcome = "error" =>
                 raised = h.code /\ result = [type |-> "", value |-> 0]
Live == <>Terminal

-----------------------------------------------------------------------------
(* spec -> code: one case per terminal state, inputs + predicted observables *)
FileRec(f) == [id |-> f, pkg |-> PkgOf(f), msgs |-> SimpleMsgs(f), imports |-> ImportsOf(f), target |-> PkgOf(f) = P]
PollCalls == SubSeq(calls, 2, Len(calls))
Emit == Terminal =>
    PrintT(<<"CASE", ToJson(
       [ann |-> c.ann, out |-> c.out, rsp |-> c.rsp, mta |-> c.mta, fld |-> c.fld, form |-> c.form, arg |-> Arg,
        respName |-> Written(c.rsp, RSP), metaName |-> Written(c.mta, MTA),
        outType |-> IF c.out = "op" THEN OP ELSE THING,
        files |-> [i \in 1..Len(ReqOrder) |-> FileRec(ReqOrder[i])],
        mode |-> mode, inst |-> inst, k |-> h.k, outcome |-> h.outcome, value |-> h.value, code |-> h.code,
        opname |-> OpName,
        gen |-> genres, resp |-> lro.resp, meta |-> lro.meta,
        starts |-> Len(calls) - Len(PollCalls),
        polls |-> [i \in 1..Len(PollCalls) |-> PollCalls[i]],
        future |-> future, result |-> result, raised |-> raised, seenMeta |-> seenMeta])>>)
=============================================================================
