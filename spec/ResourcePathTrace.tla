-------------------------- MODULE ResourcePathTrace --------------------------
(***************************************************************************)
(* Batched trace validation for ResourcePath (code -> spec).  TRACE_FILE:  *)
(*   [ {events: [ {ev: "begin",  lead, coll, name}                         *)
(*                {ev: "extend", sep, coll, name} ..                       *)
(*                {ev: "close",  tail, coll, tokens:[{k,s,n}..]}           *)
(*              | {ev: "wild"}                                             *)
(*                {ev: "value", v} ..                                      *)
(*                {ev: "build", built}        observed <name>_path(..)     *)
(*                {ev: "foreign", str}        (optional)                   *)
(*                {ev: "parse", names, vals}  observed parse_<name>_path   *)
(*                {ev: "compare", rebuilt}    observed rebuild from parsed *)
(*                {ev: "again"} value.. build.. (next call, same pattern)   *)
(*              ]} .. ]                                                    *)
(* Texts are sequences of one-character strings (pure splitting by the     *)
(* projection).  Every action is  IsEvent(name) /\ <spec action> /\        *)
(* <logged fields = primed variables>, so every invariant of ResourcePath  *)
(* is evaluated after every recorded step.  An observed parse result is    *)
(* compared only when the string is inside the property's quantifier.      *)
(***************************************************************************)
EXTENDS ResourcePath, IOUtils, TLCExt
VARIABLES tid, l
Traces == JsonDeserialize(IOEnv.TRACE_FILE)
NT == Len(Traces)
tvars == <<vars, tid, l>>
Ev == Traces[tid].events

Tok(t) == [k |-> t.k, s |-> t.s, n |-> t.n]
Toks(ts) == [i \in 1..Len(ts) |-> Tok(ts[i])]
Fresh == /\ stage = "begin" /\ pat = <<>> /\ args = <<>> /\ built = <<>> /\ str = <<>> /\ kind = "" /\ parsed = <<>>
         /\ rebuilt = <<>> /\ nsplits = 0 /\ matches = FALSE /\ common = "" /\ place = NoVis
Reset == /\ stage' = "begin" /\ pat' = <<>> /\ args' = <<>> /\ built' = <<>> /\ str' = <<>> /\ kind' = "" /\ parsed' = <<>>
         /\ rebuilt' = <<>> /\ nsplits' = 0 /\ matches' = FALSE /\ common' = "" /\ place' = NoVis
TInit == tid = 1 /\ l = 1 /\ TLCSet(1, 0) /\ TLCSet(2, <<0, 0>>) /\ Fresh

IsEvent(e) == tid <= NT /\ l <= Len(Ev) /\ Ev[l].ev = e /\ l' = l + 1 /\ tid' = tid
TBegin   == IsEvent("begin") /\ Begin(Ev[l].lead, Ev[l].coll, Ev[l].name)
TExtend  == IsEvent("extend") /\ Extend(Ev[l].sep, Ev[l].coll, Ev[l].name)
TClose   == IsEvent("close") /\ Close(Ev[l].tail, Ev[l].coll) /\ pat' = Toks(Ev[l].tokens)
TWild    == IsEvent("wild") /\ ChooseWild
TValue   == IsEvent("value") /\ ChooseValue(Ev[l].v)
TBuild   == IsEvent("build") /\ DoBuild /\ built' = Ev[l].built
TForeign == IsEvent("foreign") /\ Foreign(Ev[l].str)
\* the observed dict: names = keys in group order, vals = their values; {} is names = vals = <<>>
TParse   == IsEvent("parse") /\ DoParse
            /\ (InQuantifier(pat, str) => /\ parsed' = Ev[l].vals
                                          /\ Ev[l].names = (IF parsed' = Empty THEN <<>> ELSE VarNames(pat)))
TCompare == IsEvent("compare") /\ Compare /\ (InQuantifier(pat, str) => rebuilt' = Ev[l].rebuilt)
TAgain   == IsEvent("again") /\ Again
TNextTrace == /\ tid <= NT /\ l = Len(Ev) + 1 /\ stage = "done"
              /\ TLCSet(1, tid)
              /\ tid' = tid + 1 /\ l' = 1 /\ Reset
TNext == TBegin \/ TExtend \/ TClose \/ TWild \/ TValue \/ TBuild \/ TForeign \/ TParse \/ TCompare \/ TAgain \/ TNextTrace
TSpec == TInit /\ [][TNext]_tvars
Progress == TLCSet(2, <<tid, l>>)          \* CONSTRAINT: remembers how far the batch got (workers 1)
Accepted == PrintT(<<"ACCEPTED", TLCGet(1)>>) /\ PrintT(<<"REACHED", TLCGet(2)>>) /\ TLCGet(1) = NT
=============================================================================
