CONSTANTS Scope = "small" Mutant = "none" DepEnumOffered = FALSE DepMapOffered = FALSE
SPECIFICATION TSpec
CONSTRAINT Progress
INVARIANT Inv_ExactlyOneCall
INVARIANT Inv_PathArity
INVARIANT Inv_Payload
INVARIANT Inv_Reply
INVARIANT Inv_MixedRejected
INVARIANT Inv_OnlyMixedRejected
INVARIANT Inv_AutoPopulate
INVARIANT Inv_NoUuidElsewhere
POSTCONDITION Accepted
CHECK_DEADLOCK FALSE
