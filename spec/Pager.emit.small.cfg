CONSTANTS MaxPages = 4 MaxSize = 2 Mutant = "none"
SPECIFICATION Spec
INVARIANT Emit
