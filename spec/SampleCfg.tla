------------------------------ MODULE SampleCfg ------------------------------
(***************************************************************************)
(* Extension (not a listed property): handwritten sample configurations    *)
(* are validated as a small statement language                             *)
(* (gapic/samplegen/samplegen.py, class Validator).                        *)
(*                                                                         *)
(* The validator is a state machine over the token stream of one sample:   *)
(*   ValidateRequest  validate_and_transform_request  (the "request" block, *)
(*                    one call, every entry folded in order)               *)
(*   Define           _validate_define                                     *)
(*   Format           _validate_format    ("print" and "comment")          *)
(*   WriteFile        _validate_write_file                                 *)
(*   Loop             _validate_loop, the header: keyword form, source,    *)
(*                    iteration variables, new lexical scope               *)
(*   EndLoop          _validate_loop, after the body: the scope is dropped *)
(*   Invalid          validate_response: not exactly one known keyword     *)
(*   Finish           validate_response returns: the sample is accepted    *)
(* (Next takes each of them over the tokens of its statement kind: Take*.) *)
(* State: the chain of lexical scopes (name -> type shape, what the code   *)
(* keeps in var_defs_), the tokens consumed so far (position), the verdict *)
(* ("running", "accepted" or the class of samplegen_utils.types that       *)
(* rejected the sample).  Expressions are  root(.attr)* with an optional    *)
(* [index] or {"key"} per segment (validate_expression); lvalues go        *)
(* through LvalErr (_handle_lvalue).                                       *)
(*                                                                         *)
(* The rules are written from the docstrings / comments / exception names. *)
(* Where the code knowingly does something else the operator is marked     *)
(* DEVIATION and says what the code does.  Where a statement breaks        *)
(* several rules at once the class reported is that of the first check in  *)
(* the order of the implementation (the documentation fixes no order);     *)
(* Inv_ErrSound states the order-free part: the class names a rule the     *)
(* last statement does break.                                              *)
(***************************************************************************)
EXTENDS Naturals, Sequences, FiniteSets, TLC, Json

CONSTANTS Mutant,      \* "none" for the real design; the others are self-test mutants TLC must reject
          Lvals,       \* names statements may bind (may hold reserved words and "$resp")
          LoopVals,    \* names for the `value` variable of map loops
          Roots,       \* root names of expressions
          RootSels,    \* selectors allowed on the root segment
          Attrs1, Sels1, Attrs2,      \* attribute names / selectors of the second and third segment
          Len2,        \* expressions of at most this many segments (no selectors) serve as second format argument / file contents
          Kinds,       \* statement kinds offered
          LoopForms,   \* keyword sets of loop statements offered
          ReqKeys,     \* request entries offered (keys of ReqVocab)
          MaxReq, MaxLen, MaxDepth

VARIABLES phase,       \* "request" | "response"
          req,         \* the request block that was validated (sequence of entries)
          bases,       \* request: base field -> how it is set up (sequence, in order of first use)
          scopes,      \* chain of lexical scopes, innermost last; scopes[1] holds $resp, input parameters, top-level defines
          prog,        \* response statements consumed so far (tokens; "end" closes a loop body)
          obs,         \* obs[1]: after the request block; obs[i+1]: after prog[i]: [verdict, defined]
          verdict
vars == <<phase, req, bases, scopes, prog, obs, verdict>>

ErrorClasses == {"InvalidStatement", "BadLoop", "MismatchedFormatSpecifier", "UndefinedVariableReference",
                 "BadAttributeLookup", "RedefinedVariable", "ReservedVariableName", "BadAssignment",
                 "InvalidRequestSetup", "InvalidEnumVariant", "NonTerminalPrimitiveOrEnum",
                 "ResourceRequestMismatch", "NoSuchResource", "NoSuchResourcePattern"}

-----------------------------------------------------------------------------
(* Type shapes: what the code reads off a wrappers.Field: message / enum / *)
(* primitive, repeated or not; a map field is a repeated map-entry message *)
(* (descriptor.proto), which is how protobuf and the code represent it.    *)
Sc     == [kind |-> "scalar",  msg |-> "", rep |-> FALSE]
RSc    == [kind |-> "scalar",  msg |-> "", rep |-> TRUE]
En     == [kind |-> "enum",    msg |-> "", rep |-> FALSE]
M(m)   == [kind |-> "message", msg |-> m,  rep |-> FALSE]
R(m)   == [kind |-> "message", msg |-> m,  rep |-> TRUE]
MapEntries == {"ByNameEntry", "LabelsEntry"}
Fields == [Resp        |-> [title |-> Sc, items |-> R("Item"), by_name |-> R("ByNameEntry"), labels |-> R("LabelsEntry"),
                            first |-> M("Item"), color |-> En, tags |-> RSc, alt_text |-> Sc, alt_item |-> M("Item")],
           Item        |-> [name |-> Sc, leaf |-> M("Leaf"), subs |-> R("Leaf")],
           Leaf        |-> [tag |-> Sc],
           ByNameEntry |-> [key |-> Sc, value |-> M("Item")],
           LabelsEntry |-> [key |-> Sc, value |-> Sc],
           GetReq      |-> [name |-> Sc, count |-> Sc, view |-> En, item |-> M("Item"), parent |-> Sc, orphan |-> Sc]]
EnumValues == {"COLOR_UNSPECIFIED", "RED", "BLUE"}
\* google.api.resource_reference of the request fields; the resource messages the service knows and their patterns
RefType(base) == CASE base = "parent" -> "Shelf" [] base = "orphan" -> "Ghost" [] OTHER -> ""
Patterns(res) == IF res = "Shelf" THEN {<<"project", "shelf">>, <<"folder", "shelf">>} ELSE {}
ResourceMessages == {"Shelf"}

IsMap(f) == f.kind = "message" /\ f.rep /\ f.msg \in MapEntries
ShapeStr(f) == (IF f.rep THEN "rep:" ELSE "") \o f.kind \o (IF f.msg = "" THEN "" ELSE ":" \o f.msg)

(* Reserved words (RESERVED_WORDS): Python keywords, builtins, and the     *)
(* names the sample templates use themselves.                              *)
Keywords      == {"class", "for"}
Builtins      == {"print", "list"}
TemplateNames == {"response", "client", "f"}
Reserved      == Keywords \cup Builtins \cup TemplateNames

-----------------------------------------------------------------------------
(* validate_expression.  expr: sequence of [name, sel], sel in "none",     *)
(* "idx" ( [0] ), "key" ( {"k"} ), "bad" (not matched by the segment       *)
(* grammar, e.g. [x]).                                                     *)
Ok(f)  == [ok |-> TRUE,  f |-> f,  err |-> ""]
Err(e) == [ok |-> FALSE, f |-> Sc, err |-> e]
BAL == "BadAttributeLookup"

(* DEVIATION D1 (named; "Returns: wrappers.Field: The final field in the   *)
(* chain"): an expression that ends in an indexed / keyed segment has the  *)
(* shape of the collection field itself, not of its element; a variable    *)
(* defined from  $resp.items[0]  is therefore a collection again.          *)
Dev_IndexedTerminalKeepsCollection == TRUE
TerminalShape(f, sel) ==
    IF sel = "none" \/ Dev_IndexedTerminalKeepsCollection THEN f
    ELSE IF sel = "key" THEN Fields[f.msg]["value"] ELSE [f EXCEPT !.rep = FALSE]

RECURSIVE EvalIn(_, _, _)
EvalIn(expr, scope, depth) ==
    LET seg == expr[1]
        terminal == Len(expr) = 1
    IN  IF seg.sel = "bad" THEN Err(BAL)                                  \* badly formed attribute expression
        ELSE IF seg.name \notin DOMAIN scope
             THEN IF depth = 0 THEN (IF Mutant = "undefined_ok" THEN Ok(Sc) ELSE Err("UndefinedVariableReference"))
                               ELSE Err(BAL)                              \* not a field of its parent
        ELSE LET f == scope[seg.name]
                 sel == seg.sel # "none"
             IN  IF sel /\ ~f.rep THEN Err(BAL)                           \* collection lookup on a non-repeated field
                 ELSE IF f.rep /\ ~sel /\ ~terminal THEN Err(BAL)          \* only the final attribute may be an un-indexed collection
                 \* "Can only map message types, not enums": {"key"} needs a map field whose values are messages
                 ELSE IF seg.sel = "key" /\ ~IsMap(f) THEN Err(BAL)
                 ELSE IF seg.sel = "key" /\ Fields[f.msg]["value"].kind # "message" THEN Err(BAL)
                 ELSE IF terminal THEN Ok(TerminalShape(f, seg.sel))
                 ELSE IF f.kind # "message" THEN Err(BAL)                 \* enums and primitives only at the tail
                 ELSE EvalIn(Tail(expr),
                             IF seg.sel = "key" THEN Fields[Fields[f.msg]["value"].msg] ELSE Fields[f.msg], depth + 1)
Eval(expr, vis) == EvalIn(expr, vis, 0)

\* first error of a sequence of expressions, "" if none
FirstErr(args, vis) ==
    LET bad == {i \in 1..Len(args) : ~Eval(args[i], vis).ok}
    IN  IF bad = {} THEN "" ELSE Eval(args[CHOOSE i \in bad : \A j \in bad : i <= j], vis).err

(* _handle_lvalue: reserved words may not be bound, and "even though it's  *)
(* valid python to reassign variables, the samplegen spec prohibits this". *)
LvalErr(n, vis) ==
    IF n \in Reserved /\ Mutant # "no_reserved" THEN "ReservedVariableName"
    ELSE IF n \in DOMAIN vis /\ Mutant # "allow_redefine" THEN "RedefinedVariable"
    ELSE ""

RECURSIVE MergeAll(_)
MergeAll(s) == IF Len(s) = 0 THEN <<>> ELSE s[Len(s)] @@ MergeAll(SubSeq(s, 1, Len(s) - 1))
Visible == MergeAll(scopes)
DefSet(vis) == {[n |-> x, s |-> ShapeStr(vis[x])] : x \in DOMAIN vis}
DefNames(o) == {d.n : d \in o.defined}

-----------------------------------------------------------------------------
(* The request block.  entry: [path, res, val, sp, p]                      *)
(*   path  attribute chain of "field" (<<>>: no "field" key)               *)
(*   res   "" or the resource parameter of a  base%param  field            *)
(*   val   the value ("" : no "value" key)                                 *)
(*   sp    a spurious keyword is present                                   *)
(*   p     "" or the input_parameter                                       *)
RECURSIVE Walk(_, _, _, _)
Walk(path, i, m, val) ==                       \* _normal_request_setup: the attribute chain against the request type
    IF path[i] \notin DOMAIN Fields[m] THEN BAL
    ELSE LET f == Fields[m][path[i]]
         IN  IF f.kind = "message" THEN (IF i = Len(path) THEN "" ELSE Walk(path, i + 1, f.msg, val))
             ELSE IF f.kind = "enum" /\ val \notin EnumValues THEN "InvalidEnumVariant"
             ELSE IF i # Len(path) THEN "NonTerminalPrimitiveOrEnum" ELSE ""

BaseIdx(bs, b) == {i \in 1..Len(bs) : bs[i].base = b}
HasBase(bs, b) == BaseIdx(bs, b) # {}
TheBase(bs, b) == bs[CHOOSE i \in BaseIdx(bs, b) : TRUE]
AddAttr(bs, b, res, top, a) ==
    IF HasBase(bs, b) THEN [i \in 1..Len(bs) |-> IF bs[i].base = b THEN [bs[i] EXCEPT !.attrs = Append(@, a)] ELSE bs[i]]
    ELSE Append(bs, [base |-> b, res |-> res, top |-> top, attrs |-> <<a>>])

\* one entry; st = [bases, vis, err]
ReqEntry(st, e) ==
    LET fail(x) == [st EXCEPT !.err = x]
        perr == IF e.p = "" THEN "" ELSE LvalErr(e.p, st.vis)
        vis2 == IF e.p = "" THEN st.vis ELSE (e.p :> Sc) @@ st.vis
        b == e.path[1]
    IN  IF e.val = "" THEN fail("InvalidRequestSetup")                     \* missing keyword: 'value'
        ELSE IF e.path = <<>> THEN fail("InvalidRequestSetup")             \* missing keyword: 'field'
        ELSE IF e.sp THEN fail("InvalidRequestSetup")                      \* spurious keyword(s)
        ELSE IF perr # "" THEN fail(perr)                                  \* input_parameter is an lvalue
        ELSE IF e.res = ""
             THEN LET w == Walk(e.path, 1, "GetReq", e.val)
                      top == Len(e.path) = 1
                  IN  IF w # "" THEN fail(w)
                      \* "Because of the way top level attrs get rendered, there can't be duplicates": a field that is
                      \* assigned as a whole cannot be set up a second time, whichever entry comes first
                      ELSE IF top /\ HasBase(st.bases, b) /\ Mutant # "dup_field_ok" THEN fail("InvalidRequestSetup")
                      ELSE IF ~top /\ HasBase(st.bases, b) /\ TheBase(st.bases, b).top THEN fail("InvalidRequestSetup")
                      \* attribute manipulation and resource name construction do not mix
                      ELSE IF HasBase(st.bases, b) /\ TheBase(st.bases, b).res THEN fail("ResourceRequestMismatch")
                      ELSE [bases |-> AddAttr(st.bases, b, FALSE, top, IF top THEN "" ELSE e.path[2]), vis |-> vis2, err |-> ""]
             ELSE IF HasBase(st.bases, b) /\ ~TheBase(st.bases, b).res THEN fail("ResourceRequestMismatch")
                  ELSE IF b \notin DOMAIN Fields["GetReq"] THEN fail(BAL)
                  ELSE [bases |-> AddAttr(st.bases, b, TRUE, FALSE, e.res), vis |-> vis2, err |-> ""]

RECURSIVE ReqFold(_, _, _)
ReqFold(st, es, i) == IF i > Len(es) \/ st.err # "" THEN st ELSE ReqFold(ReqEntry(st, es[i]), es, i + 1)

\* TransformedRequest.build, base by base in order of first use: a resource-name base needs a known resource
\* and a pattern whose parameters are exactly the attributes given, in order
BuildErr(bs) ==
    LET bad(i) == bs[i].res /\ (RefType(bs[i].base) \notin ResourceMessages \/ bs[i].attrs \notin Patterns(RefType(bs[i].base)))
        B == {i \in 1..Len(bs) : bad(i)}
    IN  IF B = {} THEN ""
        ELSE LET i == CHOOSE k \in B : \A j \in B : k <= j
             IN  IF RefType(bs[i].base) \notin ResourceMessages THEN "NoSuchResource" ELSE "NoSuchResourcePattern"

\* The response ($resp) variable is special and guaranteed to exist.
RootScope == ("$resp" :> M("Resp"))

ValidateRequest(es) ==
    /\ phase = "request" /\ verdict = "running"
    /\ LET st == ReqFold([bases |-> <<>>, vis |-> RootScope, err |-> ""], es, 1)
           e  == IF st.err # "" THEN st.err ELSE BuildErr(st.bases)
       IN  /\ req' = es /\ bases' = st.bases
           /\ IF e # "" THEN /\ verdict' = e /\ scopes' = scopes /\ obs' = <<[verdict |-> e, defined |-> {}]>>
                        ELSE /\ verdict' = "running" /\ scopes' = <<st.vis>>
                             /\ obs' = <<[verdict |-> "running", defined |-> DefSet(st.vis)]>>
    /\ phase' = "response" /\ UNCHANGED prog

-----------------------------------------------------------------------------
(* The response block.  token: [k, names, src, nfmt, args, kw]             *)
(*   define      names = <<lvalue>>, src = the rvalue expression           *)
(*   print       nfmt = number of %s in the format string, args            *)
(*   comment     same                                                      *)
(*   write_file  kw \subseteq {filename, contents}; nfmt / args: filename; *)
(*               src: contents                                             *)
(*   loop        kw = the keywords of the statement; src = collection/map; *)
(*               names = <<variable or key, value>>                        *)
(*   end         the body of the innermost open loop ends                  *)
(*   unknown / multi / empty   a keyword that is no statement; two         *)
(*               keywords in one statement; none                           *)
Tok(k, names, src, nfmt, args, kw) == [k |-> k, names |-> names, src |-> src, nfmt |-> nfmt, args |-> args, kw |-> kw]

Running == phase = "response" /\ verdict = "running"
Accept(t, sc) == /\ prog' = Append(prog, t) /\ scopes' = sc /\ verdict' = "running"
                 /\ obs' = Append(obs, [verdict |-> "running", defined |-> DefSet(MergeAll(sc))])
                 /\ UNCHANGED <<phase, req, bases>>
Reject(t, e)  == /\ prog' = Append(prog, t) /\ scopes' = scopes /\ verdict' = e
                 /\ obs' = Append(obs, [verdict |-> e, defined |-> {}])
                 /\ UNCHANGED <<phase, req, bases>>
Decide(t, e, sc) == IF e # "" THEN Reject(t, e) ELSE Accept(t, sc)
BindTop(sc, f) == [sc EXCEPT ![Len(sc)] = f @@ @]

\* "define": lexically  identifier = expression ; the rvalue must resolve; the lvalue is new and not reserved
IdentOK(n) == n # "$resp"                        \* `$` is not an identifier character
DefineErr(t, vis) ==
    LET r == Eval(t.src, vis)
    IN  IF ~IdentOK(t.names[1]) THEN "BadAssignment" ELSE IF ~r.ok THEN r.err ELSE LvalErr(t.names[1], vis)
Define(t) ==
    /\ Running /\ t.k = "define"
    /\ LET vis == Visible
           b == t.names[1] :> Eval(t.src, vis).f
       IN  Decide(t, DefineErr(t, vis), IF Mutant = "body_scope_leak" THEN [scopes EXCEPT ![1] = b @@ @] ELSE BindTop(scopes, b))

\* "print" / "comment": as many expressions as format specifiers; each expression resolves
FormatErr(nfmt, args, vis) ==
    IF nfmt # Len(args) /\ Mutant # "fmt_unchecked" THEN "MismatchedFormatSpecifier" ELSE FirstErr(args, vis)
Format(t) ==
    /\ Running /\ t.k \in {"print", "comment"}
    /\ Decide(t, FormatErr(t.nfmt, t.args, Visible), scopes)

\* "write_file": both keys present; the filename is a format; the contents expression resolves
WriteFileErr(t, vis) ==
    LET fe == FormatErr(t.nfmt, t.args, vis)
    IN  IF "filename" \notin t.kw THEN "InvalidStatement"
        ELSE IF fe # "" THEN fe
        ELSE IF "contents" \notin t.kw THEN "InvalidStatement"
        ELSE Eval(t.src, vis).err
WriteFile(t) ==
    /\ Running /\ t.k = "write_file"
    /\ Decide(t, WriteFileErr(t, Visible), scopes)

(* "loop": either a collection loop {collection, variable, body} or a map  *)
(* loop {map, body} with at least one of key / value and nothing else.     *)
(* DEVIATION D2 (named): a map field is a repeated field of entries, so    *)
(* the code lets a collection loop run over a map (the variable is an      *)
(* entry with .key and .value).                                            *)
CollForm == {"collection", "variable", "body"}
MapForm  == {"map", "body"}
LoopErr(t, vis) ==
    LET r == Eval(t.src, vis)
        key == "key" \in t.kw
        val == "value" \in t.kw
        kerr == IF key THEN LvalErr(t.names[1], vis) ELSE ""
        vis2 == IF key THEN (t.names[1] :> Sc) @@ vis ELSE vis
        verr == IF val THEN LvalErr(t.names[2], vis2) ELSE ""
    IN  IF t.kw = CollForm
        THEN IF ~r.ok THEN r.err
             ELSE IF ~r.f.rep THEN "BadLoop"                                 \* a non-repeated field is no collection
             ELSE LvalErr(t.names[1], vis)
        ELSE IF MapForm \subseteq t.kw
        THEN IF t.kw \ (MapForm \cup {"key", "value"}) # {} THEN "BadLoop"  \* unexpected keywords
             ELSE IF ~r.ok THEN r.err
             ELSE IF ~IsMap(r.f) THEN "BadLoop"                              \* a map loop needs a map
             ELSE IF kerr # "" THEN kerr
             ELSE IF verr # "" THEN verr
             ELSE IF ~key /\ ~val /\ Mutant # "map_neither_ok" THEN "BadLoop"   \* at least one of key / value
             ELSE ""
        ELSE "BadLoop"                                                       \* unexpected loop form
Loop(t) ==
    /\ Running /\ t.k = "loop"
    /\ LET vis == Visible
           f == Eval(t.src, vis).f
           entry == Fields[f.msg]
           new == IF t.kw = CollForm THEN (t.names[1] :> [f EXCEPT !.rep = FALSE])     \* the iteration parameter is not repeated
                  ELSE (IF "key" \in t.kw THEN (t.names[1] :> entry["key"]) ELSE <<>>)
                       @@ (IF "value" \in t.kw THEN (t.names[2] :> entry["value"]) ELSE <<>>)
       IN  Decide(t, LoopErr(t, vis), Append(scopes, new))

\* after the body "the previous lexical scope is restored: stricter than python scope rules because the samplegen spec mandates it"
EndLoop(t) ==
    /\ Running /\ t.k = "end" /\ Len(scopes) > 1
    /\ Accept(t, IF Mutant = "dynamic_scope" THEN [SubSeq(scopes, 1, Len(scopes) - 1) EXCEPT ![Len(scopes) - 1] = scopes[Len(scopes)] @@ @]
                 ELSE SubSeq(scopes, 1, Len(scopes) - 1))

\* validate_response: a statement is a dict with exactly one key, and the key is in the dispatch table
Invalid(t) == /\ Running /\ t.k \in {"unknown", "multi", "empty"} /\ Reject(t, "InvalidStatement")

\* one step of the response block for token t (the trace specification feeds recorded tokens through this)
Step(t) == Define(t) \/ Format(t) \/ WriteFile(t) \/ Loop(t) \/ EndLoop(t) \/ Invalid(t)
\* the error class with which token t would be rejected in the current state ("" if it would be accepted)
ErrOf(t) == CASE t.k = "define" -> DefineErr(t, Visible)
              [] t.k \in {"print", "comment"} -> FormatErr(t.nfmt, t.args, Visible)
              [] t.k = "write_file" -> WriteFileErr(t, Visible)
              [] t.k = "loop" -> LoopErr(t, Visible)
              [] t.k = "end" -> ""
              [] OTHER -> "InvalidStatement"

Finish == /\ Running /\ Len(scopes) = 1
          /\ verdict' = "accepted" /\ UNCHANGED <<phase, req, bases, scopes, prog, obs>>

-----------------------------------------------------------------------------
(* The finite vocabulary TLC explores (constants choose the scope).        *)
Seg(n, s) == [name |-> n, sel |-> s]
RootSegs == {Seg(r, s) : r \in Roots, s \in RootSels}
Segs1 == {Seg(a, s) : a \in Attrs1, s \in Sels1}
Segs2 == {Seg(a, "none") : a \in Attrs2}
Exprs == {<<r>> : r \in RootSegs} \cup {<<r, a>> : r \in RootSegs, a \in Segs1}
         \cup {<<r, a, b>> : r \in RootSegs, a \in Segs1, b \in Segs2}
\* second format arguments: a root alone, or root.attr without selector
Exprs2 == {e \in Exprs : Len(e) <= Len2 /\ \A i \in 1..Len(e) : e[i].sel = "none"}
NoExpr == <<>>
FmtArgs == {<<>>} \cup {<<e>> : e \in Exprs} \cup {<<e1, e2>> : e1 \in Exprs2, e2 \in Exprs2}
\* <<number of specifiers, arguments>>: matching, one specifier too many, one argument too many
Fmts == {<<Len(a), a>> : a \in FmtArgs} \cup {<<1, <<>>>>} \cup {<<0, <<e>>>> : e \in Exprs2}
\* (operators with a parameter: TLC builds these sets where they are used, not once for every configuration file)
DefineToks(L) == {Tok("define", <<n>>, e, 0, <<>>, {}) : n \in L, e \in Exprs}
FormatToks(k) == {Tok(k, <<>>, NoExpr, f[1], f[2], {}) : f \in Fmts}
WFmts == {<<0, <<>>>>, <<1, <<>>>>} \cup {<<n, <<e>>>> : n \in 0..1, e \in Exprs2}
WriteToks(K) == {Tok("write_file", <<>>, e, f[1], f[2], kw) : e \in Exprs2, f \in WFmts, kw \in SUBSET K}
LoopToks(forms) == {Tok("loop", <<n1, n2>>, e, 0, <<>>, kw) : n1 \in Lvals \ {"$resp"}, n2 \in LoopVals, e \in Exprs, kw \in forms}
OtherToks == {Tok(k, <<>>, NoExpr, 0, <<>>, {}) : k \in {"unknown", "multi", "empty"}}
EndTok == Tok("end", <<>>, NoExpr, 0, <<>>, {})

RE(path, res, val, sp, p) == [path |-> path, res |-> res, val |-> val, sp |-> sp, p |-> p]
ReqVocab ==
    ("name" :> RE(<<"name">>, "", "x", FALSE, "")) @@ ("name/p=x" :> RE(<<"name">>, "", "x", FALSE, "x"))
    @@ ("count/p=x" :> RE(<<"count">>, "", "3", FALSE, "x")) @@ ("count/p=y" :> RE(<<"count">>, "", "3", FALSE, "y"))
    @@ ("name/p=class" :> RE(<<"name">>, "", "x", FALSE, "class")) @@ ("name/p=print" :> RE(<<"name">>, "", "x", FALSE, "print"))
    @@ ("name/p=items" :> RE(<<"name">>, "", "x", FALSE, "items"))
    @@ ("name/p=$resp" :> RE(<<"name">>, "", "x", FALSE, "$resp"))
    @@ ("view=RED" :> RE(<<"view">>, "", "RED", FALSE, "")) @@ ("view=GREEN" :> RE(<<"view">>, "", "GREEN", FALSE, ""))
    @@ ("view.x" :> RE(<<"view", "x">>, "", "RED", FALSE, "")) @@ ("name.x" :> RE(<<"name", "x">>, "", "x", FALSE, ""))
    @@ ("item.name" :> RE(<<"item", "name">>, "", "x", FALSE, "")) @@ ("item.leaf.tag" :> RE(<<"item", "leaf", "tag">>, "", "x", FALSE, ""))
    @@ ("item" :> RE(<<"item">>, "", "x", FALSE, "")) @@ ("item.nope" :> RE(<<"item", "nope">>, "", "x", FALSE, ""))
    @@ ("nope" :> RE(<<"nope">>, "", "x", FALSE, "")) @@ ("parent" :> RE(<<"parent">>, "", "x", FALSE, ""))
    @@ ("parent%project" :> RE(<<"parent">>, "project", "x", FALSE, "")) @@ ("parent%shelf" :> RE(<<"parent">>, "shelf", "x", FALSE, ""))
    @@ ("parent%folder" :> RE(<<"parent">>, "folder", "x", FALSE, "")) @@ ("parent%shelf/p=y" :> RE(<<"parent">>, "shelf", "x", FALSE, "y"))
    @@ ("orphan%x" :> RE(<<"orphan">>, "x", "x", FALSE, "")) @@ ("item%x" :> RE(<<"item">>, "x", "x", FALSE, ""))
    @@ ("nope%x" :> RE(<<"nope">>, "x", "x", FALSE, ""))
    @@ ("novalue" :> RE(<<"name">>, "", "", FALSE, "")) @@ ("nofield" :> RE(<<>>, "", "x", FALSE, ""))
    @@ ("spurious" :> RE(<<"name">>, "", "x", TRUE, ""))
ReqEntries == {ReqVocab[k] : k \in ReqKeys}
ReqLists == UNION {[1..n -> ReqEntries] : n \in 0..MaxReq}

NStmts == Cardinality({i \in 1..Len(prog) : prog[i].k # "end"})
Depth == Len(scopes) - 1

Init == /\ phase = "request" /\ req = <<>> /\ bases = <<>> /\ scopes = <<RootScope>> /\ prog = <<>> /\ obs = <<>>
        /\ verdict = "running"
\* one disjunct per action, each over the tokens of its statement kind
TakeRequest   == \E es \in ReqLists : ValidateRequest(es)
TakeDefine    == NStmts < MaxLen /\ "define" \in Kinds /\ \E t \in DefineToks(Lvals) : Define(t)
TakeFormat    == NStmts < MaxLen /\ \E k \in Kinds \cap {"print", "comment"} : \E t \in FormatToks(k) : Format(t)
TakeWriteFile == NStmts < MaxLen /\ "write_file" \in Kinds /\ \E t \in WriteToks({"filename", "contents"}) : WriteFile(t)
TakeInvalid   == NStmts < MaxLen /\ "invalid" \in Kinds /\ \E t \in OtherToks : Invalid(t)
TakeLoop      == NStmts < MaxLen /\ Depth < MaxDepth /\ "loop" \in Kinds /\ \E t \in LoopToks(LoopForms) : Loop(t)
TakeEndLoop   == EndLoop(EndTok)
Next == TakeRequest \/ TakeDefine \/ TakeFormat \/ TakeWriteFile \/ TakeInvalid \/ TakeLoop \/ TakeEndLoop \/ Finish
Done == verdict # "running"
(* The same actions driven by random tokens (TLC -simulate over a vocabulary too wide to enumerate the successors  *)
(* of a state): one random token per statement kind is drawn per step and, seven times out of eight, one that is     *)
(* accepted is taken if there is one, so that the sampled configurations are not all rejected at their first       *)
(* statement.  (Rnd mentions a variable so that TLC does not fold the draw into a constant.)                       *)
Rnd(S) == RandomElement(IF verdict = "" THEN {} ELSE S)
\* tokens are assembled from random components (the product sets are far too large to build)
RndDefine == Tok("define", <<Rnd(Lvals)>>, Rnd(Exprs), 0, <<>>, {})
RndFormat(k) == {Tok(k, <<>>, NoExpr, f[1], f[2], {}) : f \in {Rnd(Fmts)}}
RndWrite == {Tok("write_file", <<>>, Rnd(Exprs2), f[1], f[2], Rnd(SUBSET {"filename", "contents"})) : f \in {Rnd(WFmts)}}
RndLoop == Tok("loop", <<Rnd(Lvals \ {"$resp"}), Rnd(LoopVals)>>, Rnd(Exprs), 0, <<>>, Rnd(LoopForms))
RndToks == {RndDefine : i \in 1..6} \cup UNION {RndFormat("print") : i \in 1..3} \cup UNION {RndFormat("comment") : i \in 1..2}
           \cup UNION {RndWrite : i \in 1..2} \cup {Rnd(OtherToks)} \cup {RndLoop : i \in 1..8} \cup {EndTok}
\* request blocks: a random one, none, or one of a few that are accepted
SimReqLists == {<<>>} \cup {<<ReqVocab[k]>> : k \in ReqKeys \cap {"name", "name/p=x", "count/p=y", "item.name"}}
Fits(t) == IF t.k = "end" THEN Depth > 0 ELSE NStmts < MaxLen /\ (t.k = "loop" => Depth < MaxDepth)
NextSim == \/ \E es \in {Rnd(ReqLists), Rnd(SimReqLists), Rnd(SimReqLists)} : ValidateRequest(es)
           \/ /\ Running
              /\ \E T \in {RndToks} : \E pick \in {Rnd(1..8)} :
                    LET F == {t \in T : Fits(t)}
                        G == {t \in F : ErrOf(t) = ""}
                    IN  \E t \in (IF G # {} /\ pick < 8 THEN G ELSE F) : Step(t)
           \/ (Finish /\ \E q \in {Rnd(1..3)} : q = 1 \/ NStmts >= MaxLen)
Terminated == Done /\ UNCHANGED vars
Spec  == Init /\ [][Next]_vars /\ WF_vars(Next)
SpecT == Init /\ [][Next \/ Terminated]_vars /\ WF_vars(Next)        \* with deadlock checking: no state but a final one is stuck

-----------------------------------------------------------------------------
(* The rules, stated over the history (req, prog, obs) independently of    *)
(* the scope chain the actions maintain.                                   *)
Good == verdict \in {"running", "accepted"}
\* tokens whose effect is part of the state (a rejecting token is always the last one)
Taken == IF Good THEN 1..Len(prog) ELSE 1..(Len(prog) - 1)
ObsAfter(i) == obs[i + 1]

\* nesting depth before token i
Level(i) == Cardinality({j \in 1..(i - 1) : prog[j].k = "loop"}) - Cardinality({j \in 1..(i - 1) : prog[j].k = "end"})
Introduces(t) == IF t.k = "define" THEN {t.names[1]}
                 ELSE IF t.k = "loop" THEN (IF t.kw = CollForm THEN {t.names[1]}
                                            ELSE (IF "key" \in t.kw THEN {t.names[1]} ELSE {}) \cup (IF "value" \in t.kw THEN {t.names[2]} ELSE {}))
                 ELSE {}
IntroLevel(j) == IF prog[j].k = "loop" THEN Level(j) + 1 ELSE Level(j)
\* the block in which token j bound its names is still open just before token i
StillOpen(j, i) == \A m \in j..(i - 1) : Level(m + 1) >= IntroLevel(j)
Params == {req[i].p : i \in 1..Len(req)} \ {""}
\* lexical scoping, declaratively: the names visible just before token i
Lexical(i) == {"$resp"} \cup Params \cup {n \in UNION {Introduces(prog[j]) : j \in 1..(i - 1)} :
                                              \E j \in 1..(i - 1) : n \in Introduces(prog[j]) /\ StillOpen(j, i)}
ExprsOf(t) == CASE t.k = "define" -> {t.src}
                [] t.k \in {"print", "comment"} -> {t.args[i] : i \in 1..Len(t.args)}
                [] t.k = "write_file" -> {t.src} \cup {t.args[i] : i \in 1..Len(t.args)}
                [] t.k = "loop" -> {t.src}
                [] OTHER -> {}
\* the loop token that an "end" token at position i closes
Opener(i) == CHOOSE j \in 1..(i - 1) : prog[j].k = "loop" /\ Level(j) + 1 = Level(i) /\ \A m \in (j + 1)..(i - 1) : Level(m + 1) > Level(j)

Inv_Type == /\ verdict \in {"running", "accepted"} \cup ErrorClasses
            /\ phase \in {"request", "response"}
            /\ Len(obs) = (IF phase = "request" THEN 0 ELSE Len(prog) + 1)
            /\ Depth <= MaxDepth /\ Len(scopes) >= 1
\* totality: a finished validation is Accepted or Rejected(err) for a samplegen error class; a rejection is the last step
Inv_Verdict == /\ (Done => verdict = "accepted" \/ verdict \in ErrorClasses)
               /\ (verdict = "accepted" => Depth = 0 /\ \A i \in 1..Len(obs) : obs[i].verdict = "running")
               /\ \A i \in 1..Len(obs) : obs[i].verdict # "running" => i = Len(obs) /\ obs[i].verdict = verdict
\* accepted => every variable read was defined earlier in an enclosing scope
Inv_ReadsDefined == \A i \in Taken : \A e \in ExprsOf(prog[i]) : e[1].name \in Lexical(i)
\* the scope chain is lexical scoping
Inv_LexicalScope == phase = "response" /\ Good => /\ DOMAIN Visible = Lexical(Len(prog) + 1)
                                                  /\ \A i \in Taken : DefNames(ObsAfter(i)) = Lexical(i + 1)
\* a loop variable (and anything defined in the body) is not visible after its loop: the scope is what it was before
Inv_LoopVarLeaves == \A i \in Taken : prog[i].k = "end" =>
                        /\ Introduces(prog[Opener(i)]) \cap DefNames(ObsAfter(i)) = {}
                        /\ ObsAfter(i).defined = ObsAfter(Opener(i) - 1).defined
\* a redefinition is rejected (an accepted binding is new), also for input parameters and $resp
Inv_NoRedefinition == /\ \A i \in Taken : Introduces(prog[i]) \cap DefNames(ObsAfter(i - 1)) = {}
                      /\ \A i \in Taken : prog[i].k = "loop" /\ "key" \in prog[i].kw /\ "value" \in prog[i].kw => prog[i].names[1] # prog[i].names[2]
                      /\ (phase = "response" /\ obs[1].verdict = "running" =>
                            \A i, j \in 1..Len(req) : req[i].p # "" /\ i # j => req[i].p # req[j].p /\ req[i].p # "$resp")
\* reserved words are never bound
Inv_Reserved == /\ \A i \in Taken : Introduces(prog[i]) \cap Reserved = {}
                /\ (phase = "response" /\ obs[1].verdict = "running" => Params \cap Reserved = {})
\* an accepted statement binds exactly its names, in the innermost scope
Inv_Binds == \A i \in Taken : prog[i].k \in {"define", "loop"} => DefNames(ObsAfter(i)) = DefNames(ObsAfter(i - 1)) \cup Introduces(prog[i])
\* an accepted loop has one of the two forms; a map loop binds at least one variable
Inv_LoopForm == \A i \in Taken : prog[i].k = "loop" =>
                    \/ prog[i].kw = CollForm
                    \/ (MapForm \subseteq prog[i].kw /\ prog[i].kw \subseteq MapForm \cup {"key", "value"} /\ Introduces(prog[i]) # {})
\* accepted formats have as many expressions as specifiers; accepted write_file has both keys
Inv_FormatArity == \A i \in Taken : /\ prog[i].k \in {"print", "comment", "write_file"} => prog[i].nfmt = Len(prog[i].args)
                                    /\ prog[i].k = "write_file" => prog[i].kw = {"filename", "contents"}
\* statements that are no statements never pass
Inv_NoInvalid == \A i \in Taken : prog[i].k \notin {"unknown", "multi", "empty"}
\* Rejected(err) names the rule that was broken by the last token
Inv_ErrSound ==
    Done /\ verdict # "accepted" /\ phase = "response" /\ Len(prog) > 0 =>
      LET t == prog[Len(prog)]
          before == DefNames(ObsAfter(Len(prog) - 1))
      IN  /\ verdict = "BadAssignment" => t.k = "define"
          /\ verdict = "BadLoop" => t.k = "loop"
          /\ verdict = "InvalidStatement" => t.k \in {"unknown", "multi", "empty", "write_file"}
          /\ verdict = "MismatchedFormatSpecifier" => t.k \in {"print", "comment", "write_file"} /\ t.nfmt # Len(t.args)
          /\ verdict = "UndefinedVariableReference" => \E e \in ExprsOf(t) : e[1].name \notin before
          /\ verdict = "RedefinedVariable" => Introduces(t) \cap before # {} \/ (t.k = "loop" /\ t.names[1] = t.names[2])
          /\ verdict = "ReservedVariableName" => Introduces(t) \cap Reserved # {}
          /\ verdict \notin {"InvalidRequestSetup", "InvalidEnumVariant", "NonTerminalPrimitiveOrEnum", "ResourceRequestMismatch",
                             "NoSuchResource", "NoSuchResourcePattern"}
\* the request block, once accepted
ReqBasesOf == {req[i].path[1] : i \in 1..Len(req)}
EntriesOf(b) == {i \in 1..Len(req) : req[i].path[1] = b}
Inv_Request ==
    phase = "response" /\ obs[1].verdict = "running" =>
      /\ \A i \in 1..Len(req) : req[i].val # "" /\ req[i].path # <<>> /\ ~req[i].sp
      /\ \A b \in ReqBasesOf :
            \* a field assigned as a whole is set up once
            /\ (\E i \in EntriesOf(b) : req[i].res = "" /\ Len(req[i].path) = 1) => Cardinality(EntriesOf(b)) = 1
            \* no mixing of attribute manipulation and resource name construction
            /\ (\A i \in EntriesOf(b) : req[i].res = "") \/ (\A i \in EntriesOf(b) : req[i].res # "")
            \* resource name parameters match a pattern of a known resource exactly
            /\ (\E i \in EntriesOf(b) : req[i].res # "") =>
                  \E pat \in Patterns(RefType(b)) : /\ Len(pat) = Cardinality(EntriesOf(b))
                                                     /\ \A i \in EntriesOf(b) : pat[Cardinality({j \in EntriesOf(b) : j <= i})] = req[i].res
      /\ Params \cup {"$resp"} \subseteq DOMAIN scopes[1]
Live == <>Done

\* the tables above, for the harness: the concrete API and the name classes are built from them (single source)
Tables == [fields |-> Fields, mapEntries |-> MapEntries, enumValues |-> EnumValues,
           keywords |-> Keywords, builtins |-> Builtins, templateNames |-> TemplateNames,
           refs |-> [b \in DOMAIN Fields["GetReq"] |-> RefType(b)],
           patterns |-> [r \in ResourceMessages |-> Patterns(r)]]
InitEmit == Init /\ PrintT(<<"TABLES", ToJson(Tables)>>)
SpecEmit == InitEmit /\ [][Next]_vars
SpecSim == InitEmit /\ [][NextSim]_vars

\* spec -> code: one case per finished validation with the observables the specification predicts
Case == [req |-> req, prog |-> prog, obs |-> obs, verdict |-> verdict]
Emit == Done => PrintT(<<"CASE", ToJson(Case)>>)
=============================================================================
