-------------------------- MODULE SelectiveTrace --------------------------
(***************************************************************************)
(* Batched trace validation for Selective (code -> spec).  TRACE_FILE:     *)
(*   [ {graph, entries:[{ver,pkg,m}..], mode, ref:{sync:[rpc..],            *)
(*      async:[rpc..]}, events:[..]} .. ]                                  *)
(* one trace per real generator run + import of the emitted library:       *)
(*   validate{ok}                      the generator accepted / rejected   *)
(*   selective{types,rpcs,svcs}        hook: the address allow-list        *)
(*   built{types,public,internal,underscored,svcs,clients}                 *)
(*                                     hook: Proto / Service / Method      *)
(*   types{types}                      classes found in the imported lib   *)
(*   rpcs{public,internal,publicAsync,internalAsync}  client methods       *)
(*   clients{svcs,clients}             service packages, exported clients  *)
(*   usable{bad}                       classes that cannot be instantiated *)
(*                                     and round-tripped                   *)
(*   call{rpc,same}                    one call per kept RPC; same = the   *)
(*                                     observation equals the full library *)
(* `ref` is what the clients of the FULL library of the same graph expose. *)
(* Between `validate` and the first observation the specification performs *)
(* its own traversal (TStep: StepReach / StepUp, no event consumed); every *)
(* observation is then judged by the verdict predicates of Selective.      *)
(***************************************************************************)
EXTENDS Selective, IOUtils, TLCExt
VARIABLES tid, l, seen, called
Traces == JsonDeserialize(IOEnv.TRACE_FILE)
N == Len(Traces)
tvars == <<vars, tid, l, seen, called>>
Ev == Traces[tid].events
S(x) == ToSet(x)

GraphOf(t) == LET j == Traces[t].graph IN
  [family |-> j.family, msgs |-> S(j.msgs), enums |-> S(j.enums), parent |-> S(j.parent), deps |-> S(j.deps),
   fields |-> S(j.fields), res |-> S(j.res), refs |-> S(j.refs), rpcs |-> S(j.rpcs)]
FullSync  == S(Traces[tid].ref.sync)
FullAsync == S(Traces[tid].ref.async)

StartOf(t) == /\ g = GraphOf(t) /\ entries = S(Traces[t].entries) /\ mode = Traces[t].mode
              /\ phase = "validate" /\ reach = {} /\ rank = <<>> /\ up = {} /\ rankUp = <<>> /\ step = 0
ResetFor(t) == /\ g' = GraphOf(t) /\ entries' = S(Traces[t].entries) /\ mode' = Traces[t].mode
               /\ phase' = "validate" /\ reach' = {} /\ rank' = <<>> /\ up' = {} /\ rankUp' = <<>> /\ step' = 0
TInit == /\ tid = 1 /\ l = 1 /\ seen = {} /\ called = {} /\ TLCSet(1, 0) /\ TLCSet(2, <<0, 0>>)
         /\ StartOf(1)

IsEvent(e) == tid <= N /\ l <= Len(Ev) /\ Ev[l].ev = e /\ l' = l + 1 /\ tid' = tid
\* an observation made on the finished library: judged once the traversal of the specification has terminated
Obs(kind) == phase = "closed" /\ kind \notin seen /\ seen' = seen \cup {kind} /\ UNCHANGED <<vars, called>>

TValidate == IsEvent("validate") /\ Validate /\ (Ev[l].ok <=> phase' # "failed") /\ UNCHANGED <<seen, called>>
TStep == tid <= N /\ (StepReach \/ StepUp) /\ UNCHANGED <<tid, l, seen, called>>
TSelective == /\ IsEvent("selective") /\ Obs("selective") /\ Sel = "prune" /\ seen = {}
              /\ TypesOK(S(Ev[l].types)) /\ S(Ev[l].rpcs) = KeptRpcs /\ SvcsOK(S(Ev[l].svcs))
TBuilt == /\ IsEvent("built") /\ Obs("built") /\ (Sel = "prune" <=> "selective" \in seen)
          /\ TypesOK(S(Ev[l].types)) /\ RpcsOK(S(Ev[l].public), S(Ev[l].internal)) /\ S(Ev[l].underscored) = Internal
          /\ SvcsOK(S(Ev[l].svcs)) /\ ClientsOK(S(Ev[l].clients))
TTypes == IsEvent("types") /\ Obs("types") /\ "built" \in seen /\ TypesOK(S(Ev[l].types))
TRpcs == /\ IsEvent("rpcs") /\ Obs("rpcs") /\ "built" \in seen
         /\ S(Ev[l].public) = Public \cap FullSync /\ S(Ev[l].internal) = Internal \cap FullSync
         /\ S(Ev[l].publicAsync) = Public \cap FullAsync /\ S(Ev[l].internalAsync) = Internal \cap FullAsync
TClients == IsEvent("clients") /\ Obs("clients") /\ "built" \in seen /\ SvcsOK(S(Ev[l].svcs)) /\ ClientsOK(S(Ev[l].clients))
TUsable == /\ IsEvent("usable") /\ {"built", "types", "rpcs", "clients"} \subseteq seen
           /\ S(Ev[l].bad) = {} /\ Publish /\ UNCHANGED <<seen, called>>
TCall == /\ IsEvent("call") /\ phase = "done" /\ Ev[l].rpc \in KeptRpcs \ called /\ Ev[l].same
         /\ called' = called \cup {Ev[l].rpc} /\ UNCHANGED <<vars, seen>>
TNextTrace == /\ tid <= N /\ l = Len(Ev) + 1
              /\ \/ phase = "failed"
                 \/ phase = "done" /\ called = KeptRpcs \cap FullSync
              /\ TLCSet(1, tid)
              /\ tid' = tid + 1 /\ l' = 1 /\ seen' = {} /\ called' = {}
              /\ IF tid + 1 <= N THEN ResetFor(tid + 1) ELSE UNCHANGED vars
TNext == TValidate \/ TStep \/ TSelective \/ TBuilt \/ TTypes \/ TRpcs \/ TClients \/ TUsable \/ TCall \/ TNextTrace
TSpec == TInit /\ [][TNext]_tvars
Progress == TLCSet(2, <<tid, l>>)          \* CONSTRAINT: remembers how far the batch got (workers 1)
Accepted == PrintT(<<"ACCEPTED", TLCGet(1)>>) /\ PrintT(<<"REACHED", TLCGet(2)>>) /\ TLCGet(1) = N
=============================================================================
