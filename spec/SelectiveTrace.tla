-------------------------- MODULE SelectiveTrace --------------------------
(***************************************************************************)
(* Batched trace validation for Selective (code -> spec).  TRACE_FILE:     *)
(*   [ {graph, entries:[{ver,pkg,m}..], mode, ref:{sync:[rpc..],            *)
(*      async:[rpc..]}, events:[..]} .. ]                                  *)
(* one trace per real generator run + import of the emitted library:       *)
(*   validate{ok}                      the generator accepted / rejected   *)
(*   selective{listed,types,rpcs,svcs} hook: methods + address allow-list  *)
(*   built{types,public,internal,underscored,svcs,clients,files}           *)
(*                                     hook: Proto / Service / Method      *)
(*   files{files}                      types modules in the response       *)
(*   types{types}                      classes found in the imported lib   *)
(*   rpcs{public,internal,publicAsync,internalAsync}  client methods       *)
(*   clients{svcs,clients}             service packages, exported clients  *)
(*   usable{bad}                       classes that cannot be instantiated *)
(*                                     and round-tripped                   *)
(*   call{rpc,underscored,same}        one call per RPC of the library     *)
(*                                     (internal mode: the unlisted ones   *)
(*                                     through `_name`); same = the        *)
(*                                     observation equals the full library *)
(* `ref` is what the clients of the FULL library of the same graph expose. *)
(* Between `validate` and the first observation the specification performs *)
(* its own traversal (TStep: StepReach / StepUp, no event consumed); every *)
(* observation is then judged by the verdict predicates of Selective.      *)
(***************************************************************************)
EXTENDS Selective, IOUtils, TLCExt
VARIABLES tid, l, seen, called
Traces == JsonDeserialize(IOEnv.TRACE_FILE)
N == Len(Traces)
tvars == <<vars, tid, l, seen, called>>
Ev == Traces[tid].events
S(x) == ToSet(x)

GraphOf(t) == LET j == Traces[t].graph IN
  [family |-> j.family, msgs |-> S(j.msgs), enums |-> S(j.enums), parent |-> S(j.parent), deps |-> S(j.deps),
   fields |-> S(j.fields), res |-> S(j.res), refs |-> S(j.refs), order |-> j.order, rpcs |-> S(j.rpcs), files |-> S(j.files), svcfiles |-> S(j.svcfiles)]
FullSync  == S(Traces[tid].ref.sync)
FullAsync == S(Traces[tid].ref.async)

StartOf(t) == /\ g = GraphOf(t) /\ entries = S(Traces[t].entries) /\ mode = Traces[t].mode
              /\ phase = "validate" /\ reach = {} /\ rank = <<>> /\ up = {} /\ rankUp = <<>> /\ step = 0
ResetFor(t) == /\ g' = GraphOf(t) /\ entries' = S(Traces[t].entries) /\ mode' = Traces[t].mode
               /\ phase' = "validate" /\ reach' = {} /\ rank' = <<>> /\ up' = {} /\ rankUp' = <<>> /\ step' = 0
TInit == /\ tid = 1 /\ l = 1 /\ seen = {} /\ called = {} /\ TLCSet(1, 0) /\ TLCSet(2, <<0, 0>>) /\ TLCSet(3, <<>>) /\ TLCSet(4, <<0, 0>>)
         /\ StartOf(1)

AtEvent(e) == tid <= N /\ l <= Len(Ev) /\ Ev[l].ev = e
Advance == l' = l + 1 /\ tid' = tid
NextTraceState == /\ tid' = tid + 1 /\ l' = 1 /\ seen' = {} /\ called' = {}
                  /\ IF tid + 1 <= N THEN ResetFor(tid + 1) ELSE UNCHANGED vars
\* Verdicts are total in ONE run: an event whose verdict predicate is false is recorded in register 3 as <<tid, l>> and the
\* batch continues with the next trace.  Register 1 keeps the PagerTrace meaning: number of traces accepted before the
\* first rejection (so  TLCGet(1) = N  iff every trace was accepted); harness/tlc.validate_all works unchanged.
Reject == TLCSet(3, Append(TLCGet(3), <<tid, l>>)) /\ NextTraceState
Accept == TLCSet(1, IF TLCGet(3) = <<>> THEN tid ELSE TLCGet(1)) /\ NextTraceState
\* an observation made on the finished library: judged once the traversal of the specification has terminated
Observed(kind) == seen' = seen \cup {kind} /\ UNCHANGED <<vars, called>> /\ Advance

TValidate == /\ AtEvent("validate") /\ phase = "validate"
             /\ IF Ev[l].ok <=> ~Bad THEN Validate /\ Advance /\ UNCHANGED <<seen, called>> ELSE Reject
\* the specification's own traversal; no event is consumed
TStep == tid <= N /\ (StepReach \/ StepUp) /\ UNCHANGED <<tid, l, seen, called>>
TSelective == /\ AtEvent("selective") /\ phase = "closed"
              /\ IF /\ Sel = "prune" /\ seen = {} /\ S(Ev[l].listed) = Listed
                    /\ TypesOK(S(Ev[l].types)) /\ S(Ev[l].rpcs) = KeptRpcs /\ SvcsOK(S(Ev[l].svcs))
                 THEN Observed("selective") ELSE Reject
TBuilt == /\ AtEvent("built") /\ phase = "closed"
          /\ IF /\ "built" \notin seen /\ (Sel = "prune" <=> "selective" \in seen)
                /\ TypesOK(S(Ev[l].types)) /\ RpcsOK(S(Ev[l].public), S(Ev[l].internal)) /\ S(Ev[l].underscored) = Internal
                /\ SvcsOK(S(Ev[l].svcs)) /\ ClientsOK(S(Ev[l].clients)) /\ FilesOK(S(Ev[l].files))
             THEN Observed("built") ELSE Reject
TFiles == /\ AtEvent("files") /\ phase = "closed"
          /\ IF "built" \in seen /\ "files" \notin seen /\ FilesOK(S(Ev[l].files)) THEN Observed("files") ELSE Reject
TTypes == /\ AtEvent("types") /\ phase = "closed"
          /\ IF "built" \in seen /\ "types" \notin seen /\ TypesOK(S(Ev[l].types)) THEN Observed("types") ELSE Reject
TRpcs == /\ AtEvent("rpcs") /\ phase = "closed"
         /\ IF /\ "built" \in seen /\ "rpcs" \notin seen
               /\ S(Ev[l].public) = Public \cap FullSync /\ S(Ev[l].internal) = Internal \cap FullSync
               /\ S(Ev[l].publicAsync) = Public \cap FullAsync /\ S(Ev[l].internalAsync) = Internal \cap FullAsync
            THEN Observed("rpcs") ELSE Reject
TClients == /\ AtEvent("clients") /\ phase = "closed"
            /\ IF "built" \in seen /\ "clients" \notin seen /\ SvcsOK(S(Ev[l].svcs)) /\ ClientsOK(S(Ev[l].clients))
               THEN Observed("clients") ELSE Reject
TUsable == /\ AtEvent("usable") /\ phase = "closed"
           /\ IF {"built", "files", "types", "rpcs", "clients"} \subseteq seen /\ S(Ev[l].bad) = {}
              THEN Publish /\ Advance /\ UNCHANGED <<seen, called>> ELSE Reject
TCall == /\ AtEvent("call") /\ phase \in {"closed", "done"}
         /\ IF phase = "done" /\ Ev[l].rpc \notin called /\ CallOK(Ev[l].rpc, Ev[l].underscored, Ev[l].same)
            THEN called' = called \cup {Ev[l].rpc} /\ UNCHANGED <<vars, seen>> /\ Advance ELSE Reject
TNextTrace == /\ tid <= N /\ l = Len(Ev) + 1 /\ phase \notin {"reach", "up"}
              /\ IF phase = "failed" \/ (phase = "done" /\ called = MustBehave \cap FullSync) THEN Accept ELSE Reject
TNext == TValidate \/ TStep \/ TSelective \/ TBuilt \/ TFiles \/ TTypes \/ TRpcs \/ TClients \/ TUsable \/ TCall \/ TNextTrace
TSpec == TInit /\ [][TNext]_tvars
\* CONSTRAINT (workers 1): register 2 = how far the batch got before the first rejection (PagerTrace meaning),
\* register 4 = how far it got at all
Progress == TLCSet(4, <<tid, l>>) /\ TLCSet(2, IF TLCGet(3) = <<>> THEN <<tid, l>> ELSE TLCGet(2))
Accepted == /\ PrintT(<<"ACCEPTED", TLCGet(1)>>) /\ PrintT(<<"REACHED", TLCGet(2)>>) /\ PrintT(<<"REJECTED", TLCGet(3)>>)
            /\ PrintT(<<"PROGRESS", TLCGet(4)>>)
            /\ TLCGet(1) = N
=============================================================================
