CONSTANTS
  Verbs = {"get", "post", "put", "delete", "patch"}
  Rotate = FALSE
  PathIds = {"none", "name1", "name2", "nameT", "par2", "two", "in2", "in4c", "cls2", "clsS", "int1"}
  Bodies = {"", "*", "inner"}
  MaxExtra = 2
  ReqSetIds = {"none", "scalars", "names", "mixed", "mixed2"}
  PathValIds = {"x1", "i2", "s2", "i3", "s4", "sp", "j2", "c2"}
  VarLeaves = {"name", "parent", "class", "inner.name", "inner.sub_title", "inner.kind", "inner.tags", "kind", "flag", "ids", "opt_n", "opt_s", "label_text", "r_double", "r_float", "r_int64", "r_uint64", "r_int32", "r_fixed64", "r_fixed32", "r_bool", "r_string", "r_bytes", "r_uint32", "r_sfixed32", "r_sfixed64", "r_sint32", "r_sint64"}
  Numerics = {FALSE, TRUE}
  RespTypes = {"A", "B", "P"}
  ReplyIds = {"full", "part", "empty"}
  Calls = 8
  Mutant = "none"
SPECIFICATION Spec
INVARIANT Inv_Instantiates
INVARIANT Inv_FirstWins
INVARIANT Inv_Rejected
INVARIANT Inv_Refused
INVARIANT Inv_OneRequest
INVARIANT Inv_NoLoss
INVARIANT Inv_NoDup
INVARIANT Inv_BodyStar
INVARIANT Inv_BodyField
INVARIANT Inv_BodyAbsent
INVARIANT Inv_QueryExact
INVARIANT Inv_RequiredTravel
INVARIANT Inv_Names
INVARIANT Inv_Alt
INVARIANT Inv_Reply
INVARIANT Emit
