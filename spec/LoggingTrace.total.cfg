CONSTANTS Mutant = "none" Total = TRUE
SPECIFICATION TSpec
CONSTRAINT Progress
INVARIANT Inv_Observational
INVARIANT Inv_Reference
INVARIANT Inv_DisabledSilent
INVARIANT Inv_OneRequestRecord
INVARIANT Inv_RequestRecordBeforeServed
INVARIANT Inv_OneResponseRecord
INVARIANT Inv_ResponseRecordAfterServed
INVARIANT Inv_NoResponseRecordOnError
INVARIANT Inv_ReturnLast
INVARIANT Inv_RequestRecordFaithful
INVARIANT Inv_RecordMdMatchesSent
INVARIANT Inv_ResponseRecordFaithful
POSTCONDITION Accepted
CHECK_DEADLOCK FALSE
