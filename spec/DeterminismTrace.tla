-------------------------- MODULE DeterminismTrace --------------------------
(***************************************************************************)
(* Validates runs of the REAL generator (separate processes, different     *)
(* PYTHONHASHSEED / working directory) against Determinism.                *)
(* TRACE_FILE: [ {runs: R, events: [ {ev:"iterate", run, site, order:[..]} *)
(*                                 | {ev:"respond", run, digest, history} ]} ] *)
(* `order` is the order in which the process iterated a set-typed schema   *)
(* container (elements numbered by their sorted position), reported by the *)
(* env-guarded hooks; `digest` is the index of the response bytes among    *)
(* the distinct responses of this case.  A trace is accepted iff every run *)
(* responded and all responses are the same; the orders only matter for    *)
(* counting how many containers were really iterated in different orders.  *)
(***************************************************************************)
EXTENDS Naturals, Sequences, FiniteSets, TLC, Json, IOUtils, TLCExt
VARIABLES tid, l, orders, digests, responded
Traces == JsonDeserialize(IOEnv.TRACE_FILE)
N == Len(Traces)
vars == <<tid, l, orders, digests, responded>>
Ev == Traces[tid].events
TInit == tid = 1 /\ l = 1 /\ orders = {} /\ digests = {} /\ responded = {} /\ TLCSet(1, 0) /\ TLCSet(2, <<0, 0>>) /\ TLCSet(3, 0)
IsEvent(e) == tid <= N /\ l <= Len(Ev) /\ Ev[l].ev = e /\ l' = l + 1 /\ tid' = tid
TIterate == /\ IsEvent("iterate")
            /\ orders' = orders \cup {<<Ev[l].site, Ev[l].order>>}
            /\ UNCHANGED <<digests, responded>>
TRespond == /\ IsEvent("respond")
            /\ Ev[l].run \notin responded
            /\ Ev[l].history \in {"fresh", "after_other", "after_same"}   \* what the process had generated before this run
            /\ digests' = digests \cup {Ev[l].digest} /\ responded' = responded \cup {Ev[l].run}
            /\ UNCHANGED orders
Deterministic == Cardinality(digests) <= 1
\* sites whose container was seen in at least two different orders across the runs (non-trivial evidence)
Varied == {s \in {o[1] : o \in orders} : Cardinality({o[2] : o \in {x \in orders : x[1] = s}}) >= 2}
TNextTrace == /\ tid <= N /\ l = Len(Ev) + 1
              /\ responded = 1..Traces[tid].runs /\ Deterministic
              /\ TLCSet(1, tid) /\ TLCSet(3, TLCGet(3) + Cardinality(Varied))
              /\ tid' = tid + 1 /\ l' = 1 /\ orders' = {} /\ digests' = {} /\ responded' = {}
TNext == TIterate \/ TRespond \/ TNextTrace
TSpec == TInit /\ [][TNext]_vars
Inv_Deterministic == Deterministic
Progress == TLCSet(2, <<tid, l>>)
Accepted == PrintT(<<"ACCEPTED", TLCGet(1)>>) /\ PrintT(<<"REACHED", TLCGet(2)>>) /\ PrintT(<<"VARIED", TLCGet(3)>>) /\ TLCGet(1) = N
=============================================================================
