SPECIFICATION Spec
INVARIANT Emit
