CONSTANTS
  Verbs = {"get", "post", "put", "delete", "patch"}
  Rotate = FALSE
  PathIds = {"none", "name1", "name2", "nameT", "par2", "two", "in2", "in4c", "cls2", "clsS", "int1"}
  Bodies = {"", "*", "inner"}
  MaxExtra = 3
  ReqSetIds = {"none"}
  PathValIds = {"i2"}
  VarLeaves = {}
  Numerics = {FALSE, TRUE}
  RespTypes = {"A", "B", "P"}
  ReplyIds = {"full"}
  Calls = 1000000
  Mutant = "none"
SPECIFICATION TSpec
CONSTRAINT Progress
INVARIANT Inv_Instantiates
INVARIANT Inv_FirstWins
INVARIANT Inv_Rejected
INVARIANT Inv_Refused
INVARIANT Inv_OneRequest
INVARIANT Inv_NoLoss
INVARIANT Inv_NoDup
INVARIANT Inv_BodyStar
INVARIANT Inv_BodyField
INVARIANT Inv_BodyAbsent
INVARIANT Inv_QueryExact
INVARIANT Inv_RequiredTravel
INVARIANT Inv_Names
INVARIANT Inv_Alt
INVARIANT Inv_Reply
POSTCONDITION Accepted
CHECK_DEADLOCK FALSE
