CONSTANTS MaxParams = 4 MaxVars = 3 Pool = "large" MaxCalls = 8 Mutant = "none"
SPECIFICATION Spec
INVARIANT Emit
