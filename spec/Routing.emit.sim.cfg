CONSTANTS MaxParams = 4 MaxVars = 3 Pool = "large" MaxCalls = 8 OptFields = {"name", "other", "type"} MaxPages = 3 Mutant = "none"
SPECIFICATION Spec
INVARIANT Emit
