CONSTANT Mutant = "none"
SPECIFICATION Spec
INVARIANT Inv_OneRequest
INVARIANT Inv_PreFirst
INVARIANT Inv_HookOrder
INVARIANT Inv_NoPostOnError
INVARIANT Inv_ErrorMapped
INVARIANT Inv_PreHonoured
INVARIANT Inv_PreRequestHonoured
INVARIANT Inv_PostChain
INVARIANT Inv_NoDataOnError
PROPERTY Live
