CONSTANT Mutant = "none"
SPECIFICATION Spec
INVARIANT Inv_OneRequest
INVARIANT Inv_PreFirst
INVARIANT Inv_HookOrder
INVARIANT Inv_NoPostOnError
INVARIANT Inv_ErrorMapped
INVARIANT Inv_PreHonoured
PROPERTY Live
