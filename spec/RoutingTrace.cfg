CONSTANTS MaxParams = 9 MaxVars = 9 Pool = "large" MaxCalls = 1 OptFields = {"name", "other", "type"} MaxPages = 3 Mutant = "none"
SPECIFICATION TSpec
CONSTRAINT Progress
INVARIANT Inv_Explicit
INVARIANT Inv_NoHeaderWhenNothing
INVARIANT Inv_Implicit
INVARIANT Inv_KeysOriginal
INVARIANT Inv_Encoded
INVARIANT Inv_Agree
INVARIANT Inv_Fold
INVARIANT Inv_FoldDecl
INVARIANT Inv_Bounded
POSTCONDITION Accepted
CHECK_DEADLOCK FALSE
