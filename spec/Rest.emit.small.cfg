CONSTANTS
  Verbs = {"post"}
  Rotate = TRUE
  PathIds = {"name2", "par2", "in2"}
  Bodies = {"", "*", "inner"}
  MaxExtra = 1
  ReqSetIds = {"mixed"}
  PathValIds = {"i2", "s2"}
  VarLeaves = {"name", "parent", "inner.name", "inner.kind", "opt_s"}
  Numerics = {FALSE, TRUE}
  RespTypes = {"A", "P"}
  ReplyIds = {"full"}
  Calls = 1
  Mutant = "none"
SPECIFICATION Spec
INVARIANT Emit
