------------------------------ MODULE Endpoint ------------------------------
(***************************************************************************)
(* Extension (DESIGN 5.1), not one of the listed properties: how an        *)
(* emitted client picks its endpoint, universe domain and client           *)
(* certificate source from the environment and the client options.         *)
(* One action per step of the emitted constructor, in its order:           *)
(*   ReadEnv -> PickCert -> PickUniverse -> CheckArgs -> PickEndpoint      *)
(* with Reject(err) possible at ReadEnv, PickUniverse and PickEndpoint.    *)
(* Written from the constructor's documentation (AIP-4114, universe        *)
(* domain design), with the code's evaluation order.                       *)
(***************************************************************************)
EXTENDS Naturals, Sequences, FiniteSets, TLC, Json

CONSTANT Mutant
DefaultUniverse == "googleapis.com"
EnvCert == {"unset", "true", "false", "TRUE", "bogus"}
EnvMtls == {"unset", "auto", "never", "always", "Always", "bogus"}
EnvUniverse == {"unset", "", "other.example", "googleapis.com"}
OptEndpoint == {"none", "custom.example.com"}
OptUniverse == {"none", "", " ", "opt.example", "googleapis.com"}
OptCert == {"none", "provided"}

VARIABLES input, stage, useCert, mtlsMode, universeEnv, cert, universe, endpoint, error
vars == <<input, stage, useCert, mtlsMode, universeEnv, cert, universe, endpoint, error>>

\* construction arguments: how the transport is given, and which credential-like arguments accompany it
TransportArgs == {"none", "name", "instance", "callable"}
CredSets == {{}, {"credentials"}, {"api_key"}, {"scopes"}, {"credentials", "api_key"}, {"credentials_file"}}
Inputs == [envCert : EnvCert, envMtls : EnvMtls, envUniverse : EnvUniverse, optEndpoint : OptEndpoint,
           optUniverse : OptUniverse, optCert : OptCert, defaultCertAvailable : BOOLEAN,
           transport : TransportArgs, creds : CredSets]
Init == /\ input \in Inputs /\ stage = "start" /\ useCert = FALSE /\ mtlsMode = "" /\ universeEnv = "unset"
        /\ cert = "none" /\ universe = "" /\ endpoint = "" /\ error = "none"

Lower(s) == CASE s = "TRUE" -> "true" [] s = "Always" -> "always" [] OTHER -> s
ReadEnv == /\ stage = "start"
           /\ LET c == IF input.envCert = "unset" THEN "false" ELSE Lower(input.envCert)
                  m == IF input.envMtls = "unset" THEN "auto" ELSE Lower(input.envMtls)
              IN IF c \notin {"true", "false"} THEN error' = "ValueError" /\ stage' = "rejected" /\ UNCHANGED <<useCert, mtlsMode, universeEnv>>
                 ELSE IF m \notin {"auto", "never", "always"} THEN error' = "MutualTLSChannelError" /\ stage' = "rejected" /\ UNCHANGED <<useCert, mtlsMode, universeEnv>>
                 ELSE useCert' = (c = "true") /\ mtlsMode' = m /\ universeEnv' = input.envUniverse /\ stage' = "env" /\ UNCHANGED error
           /\ UNCHANGED <<input, cert, universe, endpoint>>

PickCert == /\ stage = "env"
            /\ cert' = IF ~useCert /\ Mutant # "cert_without_flag" THEN "none"
                       ELSE IF input.optCert = "provided" THEN "provided"
                       ELSE IF input.defaultCertAvailable THEN "default" ELSE "none"
            /\ stage' = "cert" /\ UNCHANGED <<input, useCert, mtlsMode, universeEnv, universe, endpoint, error>>

Blank(s) == s \in {"", " "}
PickUniverse == /\ stage = "cert"
                /\ LET u == IF input.optUniverse # "none" /\ Mutant # "env_beats_option" THEN input.optUniverse
                            ELSE IF universeEnv # "unset" THEN universeEnv
                            ELSE IF input.optUniverse # "none" THEN input.optUniverse ELSE DefaultUniverse
                   IN IF Blank(u) THEN error' = "ValueError" /\ stage' = "rejected" /\ UNCHANGED universe
                      ELSE universe' = u /\ stage' = "universe" /\ UNCHANGED error
                /\ UNCHANGED <<input, useCert, mtlsMode, universeEnv, cert, endpoint>>

\* mutual exclusions of the constructor arguments, checked after the universe and before the endpoint
CheckArgs == /\ stage = "universe"
             /\ IF "api_key" \in input.creds /\ "credentials" \in input.creds
                THEN error' = "ValueError" /\ stage' = "rejected"
                ELSE IF input.transport = "instance" /\ (input.creds \cap {"credentials", "credentials_file", "api_key", "scopes"}) # {}
                THEN error' = "ValueError" /\ stage' = "rejected"
                ELSE stage' = "args" /\ UNCHANGED error
             /\ UNCHANGED <<input, useCert, mtlsMode, universeEnv, cert, universe, endpoint>>

WantsMtls == mtlsMode = "always" \/ (mtlsMode = "auto" /\ cert # "none")
PickEndpoint == /\ stage = "args"
                /\ IF input.transport = "instance" THEN endpoint' = "TRANSPORT-HOST" /\ stage' = "done" /\ UNCHANGED error
                   ELSE IF input.optEndpoint # "none" THEN endpoint' = input.optEndpoint /\ stage' = "done" /\ UNCHANGED error
                   ELSE IF WantsMtls THEN
                          IF universe # DefaultUniverse /\ Mutant # "mtls_any_universe"
                          THEN error' = "MutualTLSChannelError" /\ stage' = "rejected" /\ UNCHANGED endpoint
                          ELSE endpoint' = "MTLS" /\ stage' = "done" /\ UNCHANGED error
                   ELSE endpoint' = "TEMPLATE:" \o universe /\ stage' = "done" /\ UNCHANGED error
                /\ UNCHANGED <<input, useCert, mtlsMode, universeEnv, cert, universe>>
Next == ReadEnv \/ PickCert \/ PickUniverse \/ CheckArgs \/ PickEndpoint
Spec == Init /\ [][Next]_vars /\ WF_vars(Next)

Done == stage \in {"done", "rejected"}
\* the documented precedence rules
Inv_OverrideWins == stage = "done" /\ input.optEndpoint # "none" /\ input.transport # "instance" => endpoint = input.optEndpoint
Inv_InstanceHost == stage = "done" /\ input.transport = "instance" => endpoint = "TRANSPORT-HOST"
Inv_InstanceExclusive == stage = "done" /\ input.transport = "instance" => input.creds = {}
Inv_KeyXorCredentials == stage = "done" => ~({"api_key", "credentials"} \subseteq input.creds)
Inv_NoCertUnlessAsked == stage \in {"cert", "universe", "done"} /\ ~useCert => cert = "none"
Inv_ProvidedBeatsDefault == stage \in {"cert", "universe", "done"} /\ useCert /\ input.optCert = "provided" => cert = "provided"
Inv_OptionBeatsEnv == stage \in {"universe", "done"} /\ input.optUniverse # "none" => universe = input.optUniverse
Inv_MtlsOnlyDefaultUniverse == stage = "done" /\ endpoint = "MTLS" => universe = DefaultUniverse
Inv_NeverMeansNever == stage = "done" /\ mtlsMode = "never" => endpoint # "MTLS"
Inv_UniverseNotBlank == stage \in {"universe", "done"} => ~Blank(universe)
Live == <>Done
Case == [input |-> input, expect |-> [error |-> error, endpoint |-> endpoint, universe |-> universe, cert |-> cert]]
Emit == Done => PrintT(<<"CASE", ToJson(Case)>>)
=============================================================================
