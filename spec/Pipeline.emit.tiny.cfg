CONSTANT Scope = "tiny"
SPECIFICATION Spec
INVARIANT Emit
