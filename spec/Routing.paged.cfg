CONSTANTS MaxParams = 1 MaxVars = 1 Pool = "small" MaxCalls = 1 OptFields = {} MaxPages = 2 Mutant = "none"
SPECIFICATION Spec
INVARIANT Inv_Explicit
INVARIANT Inv_NoHeaderWhenNothing
INVARIANT Inv_Implicit
INVARIANT Inv_KeysOriginal
INVARIANT Inv_Encoded
INVARIANT Inv_Agree
INVARIANT Inv_Fold
INVARIANT Inv_FoldDecl
INVARIANT Inv_MatchGen
INVARIANT Inv_Bounded
