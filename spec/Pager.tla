------------------------------- MODULE Pager -------------------------------
(***************************************************************************)
(* The pager returned by a paginated method of the emitted library (C07).  *)
(*                                                                         *)
(* One action per step of the emitted code:                                *)
(*   Invoke     the caller calls  client.list_x(request, retry=, timeout=, *)
(*              metadata=)  (base = every request field but page_token)    *)
(*   FirstCall  the method sends the request once and wraps the reply      *)
(*   YieldItem  __iter__/__aiter__ hands one item to the caller            *)
(*   FetchNext  `pages` re-issues the request with the previous            *)
(*              next_page_token, everything else unchanged                 *)
(*   Stop       the token of the current page is empty: iteration ends     *)
(*                                                                         *)
(* The server is a finite history of pages; page i carries h[i].n items    *)
(* (numbered globally, so loss / duplication / reordering is observable),  *)
(* the token i if h[i].more and the empty token (0) otherwise.  A history   *)
(* may continue after an empty token: the client must not look there.      *)
(* Items of map-typed fields have no order inside a page (ordered=FALSE).  *)
(***************************************************************************)
EXTENDS Naturals, Sequences, FiniteSets, TLC, SequencesExt, FiniteSetsExt, Json

CONSTANTS MaxPages, MaxSize,
          Mutant      \* "none" for the real design; the others are self-test mutants TLC must reject

VARIABLES history, ordered, base, opts, cursor, pending, yielded, reqs, done, exposed
vars == <<history, ordered, base, opts, cursor, pending, yielded, reqs, done, exposed>>

Page == [n : 0..MaxSize, more : BOOLEAN]
Histories == UNION { {h \in [1..k -> Page] : ~h[k].more} : k \in 1..MaxPages }

Sum(f, S) == FoldSet(LAMBDA i, acc : f[i] + acc, 0, S)
Before(h, i) == Sum([k \in 1..Len(h) |-> h[k].n], 1..(i-1))
PageItems(h, i) == [k \in 1..h[i].n |-> Before(h, i) + k]
Token(h, i) == IF h[i].more THEN i ELSE 0
PageOf(h, x) == CHOOSE i \in 1..Len(h) : Before(h, i) < x /\ x <= Before(h, i) + h[i].n
FirstEmpty(h) == CHOOSE i \in 1..Len(h) : ~h[i].more /\ \A j \in 1..(i-1) : h[j].more
Attr(h, i) == i                     \* a non-paging attribute of page i (e.g. `total`)

Bases == {"b1", "b2"}
Opts == {"o1", "o2"}

Init == /\ history \in Histories /\ ordered \in BOOLEAN
        /\ base = "" /\ opts = "" /\ cursor = 0 /\ pending = <<>> /\ yielded = <<>> /\ reqs = <<>>
        /\ done = FALSE /\ exposed = 0

Invoke(b, o) == /\ base = "" /\ cursor = 0
                /\ base' = b /\ opts' = o
                /\ UNCHANGED <<history, ordered, cursor, pending, yielded, reqs, done, exposed>>

FirstCall == /\ base # "" /\ cursor = 0
             /\ cursor' = 1
             /\ reqs' = <<[token |-> 0, others |-> base, opts |-> opts]>>
             /\ pending' = PageItems(history, 1) /\ exposed' = Attr(history, 1)
             /\ UNCHANGED <<history, ordered, base, opts, yielded, done>>

YieldAt(k) == /\ cursor > 0 /\ k \in 1..Len(pending)
              /\ (ordered => k = 1)
              /\ yielded' = Append(yielded, pending[k])
              /\ pending' = RemoveAt(pending, k)
              /\ UNCHANGED <<history, ordered, base, opts, cursor, reqs, done, exposed>>
YieldItem == \E k \in 1..Len(pending) : YieldAt(k)

MoreToFetch == CASE Mutant = "stop_on_empty_page" -> Token(history, cursor) # 0 /\ history[cursor].n # 0
                 [] Mutant = "one_page_too_many"  -> cursor < Len(history)
                 [] OTHER                         -> Token(history, cursor) # 0

NextReq == [token  |-> IF Mutant = "stale_token" THEN Token(history, 1) ELSE Token(history, cursor),
            others |-> IF Mutant = "drop_others" THEN "" ELSE base,
            opts   |-> IF Mutant = "drop_opts" THEN "" ELSE opts]

FetchNext == /\ cursor > 0 /\ pending = <<>> /\ ~done /\ MoreToFetch
             /\ reqs' = Append(reqs, NextReq)
             /\ cursor' = cursor + 1
             /\ pending' = PageItems(history, cursor + 1) /\ exposed' = Attr(history, cursor + 1)
             /\ UNCHANGED <<history, ordered, base, opts, yielded, done>>

Stop == /\ cursor > 0 /\ pending = <<>> /\ ~done /\ ~MoreToFetch
        /\ done' = TRUE
        /\ UNCHANGED <<history, ordered, base, opts, cursor, pending, yielded, reqs, exposed>>

Next == (\E b \in Bases, o \in Opts : Invoke(b, o)) \/ FirstCall \/ YieldItem \/ FetchNext \/ Stop
Spec == Init /\ [][Next]_vars /\ WF_vars(Next)

-----------------------------------------------------------------------------
(* The property, clause by clause.                                         *)
Seen == yielded \o pending
ItemsUpTo(h, i) == Before(h, i + 1)

\* every item of every fetched page exactly once
Inv_Once  == /\ Len(Seen) = Cardinality(Range(Seen))
             /\ Range(Seen) = 1..(IF cursor = 0 THEN 0 ELSE ItemsUpTo(history, cursor))
\* in server order: across pages always, inside a page when the field is a list
Inv_Order == /\ \A i, j \in 1..Len(yielded) : i < j => PageOf(history, yielded[i]) <= PageOf(history, yielded[j])
             /\ (ordered => Seen = [k \in 1..Len(Seen) |-> k])
\* each further page fetched with the previous next_page_token
Inv_Tokens == /\ Len(reqs) = cursor
              /\ \A i \in 1..Len(reqs) : reqs[i].token = IF i = 1 THEN 0 ELSE Token(history, i - 1)
\* all other request fields and call options unchanged
Inv_Unchanged == \A i \in 1..Len(reqs) : reqs[i].others = base /\ reqs[i].opts = opts
\* stops at the first empty token (and not before)
Inv_Stop == done => /\ cursor = FirstEmpty(history)
                    /\ Len(yielded) = ItemsUpTo(history, cursor)
Inv_NoOverrun == cursor > 0 => cursor <= FirstEmpty(history)
\* exposes the most recent page's attributes
Inv_Attr == cursor > 0 => exposed = Attr(history, cursor)
Live == <>done

\* spec -> code: one case per server history with the observables the specification predicts
Emit == (done /\ ordered /\ base = "b1" /\ opts = "o1") =>
          PrintT(<<"CASE", ToJson([history |-> history, yielded |-> yielded,
                                   tokens |-> [i \in 1..Len(reqs) |-> reqs[i].token],
                                   exposed |-> exposed, fetches |-> Len(reqs)])>>)
=============================================================================
