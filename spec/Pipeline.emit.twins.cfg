CONSTANT Scope = "twins"
SPECIFICATION Spec
INVARIANT Emit
