CONSTANTS Scope = "small" Mutant = "none" DepEnumOffered = FALSE DepMapOffered = FALSE
SPECIFICATION Spec
INVARIANT Inv_ExactlyOneCall
INVARIANT Inv_FlatFirstOccurrence
INVARIANT Inv_PathArity
INVARIANT Inv_Payload
INVARIANT Inv_Reply
INVARIANT Inv_MixedRejected
INVARIANT Inv_OnlyMixedRejected
INVARIANT Inv_AutoPopulate
INVARIANT Inv_NoUuidElsewhere
PROPERTY Live
