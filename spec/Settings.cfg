SPECIFICATION Spec
INVARIANT Inv_FailIffViolation
INVARIANT Inv_SingleViolationFails
PROPERTY Live
