---------------------------- MODULE RoutingTrace ----------------------------
(***************************************************************************)
(* Batched trace validation for Routing (code -> spec).  TRACE_FILE holds  *)
(*   [ {rule, req, blank, npages, events: [{ev, path, page, present, text,  *)
(*      pairs}..]} .. ]                                                    *)
(* one trace per (rule, request): the same call made through the emitted   *)
(* sync client, asyncio client and REST client, observed at the loopback   *)
(* servers.  Logged steps:                                                 *)
(*   invoke  the harness calls client.method(request) on `path`            *)
(*   encode  the raw header text seen on the wire, classified character by *)
(*           character (words, EQ AMP SLASH, %c escapes, RAW:c)            *)
(*   send    what the server reads: header present?, parse_qsl pairs       *)
(*   fetch   a paginated method: the pager issues the call for page 2, 3.. *)
(*           (every event carries the page index of the call it belongs to)*)
(*   refuse  the REST transport raised before any HTTP request was made    *)
(* The steps inside the emitted client (BuildParam / BuildVar / Finish)    *)
(* are not observable from outside and are taken silently, so every        *)
(* invariant of Routing is evaluated after every step of the fold too.     *)
(***************************************************************************)
EXTENDS Routing, IOUtils, TLCExt
VARIABLES tid, l
Traces == JsonDeserialize(IOEnv.TRACE_FILE)
N == Len(Traces)
tvars == <<vars, tid, l>>
Ev == Traces[tid].events

(* JSON has no sets: rule.opt and blank arrive as arrays *)
RuleOf(t) == [Traces[t].rule EXCEPT !.opt = ToSet(@)]
ResetFor(t) == /\ rule' = RuleOf(t) /\ req' = Traces[t].req /\ blank' = ToSet(Traces[t].blank)
               /\ npages' = Traces[t].npages /\ page' = 1
               /\ pc' = "idle" /\ want' = 0 /\ cur' = NoCur /\ todo' = {} /\ calls' = 1 /\ pidx' = 1
               /\ i' = 0 /\ hdr' = {} /\ present' = FALSE /\ text' = <<>> /\ sent' = NoneSent
TInit == /\ tid = 1 /\ l = 1 /\ TLCSet(1, 0) /\ TLCSet(2, <<0, 0>>)
         /\ rule = RuleOf(1) /\ req = Traces[1].req /\ blank = ToSet(Traces[1].blank)
         /\ npages = Traces[1].npages /\ page = 1
         /\ pc = "idle" /\ want = 0 /\ cur = NoCur /\ todo = {} /\ calls = 1 /\ pidx = 1
         /\ i = 0 /\ hdr = {} /\ present = FALSE /\ text = <<>> /\ sent = NoneSent

IsEvent(e) == tid <= N /\ l <= Len(Ev) /\ Ev[l].ev = e /\ l' = l + 1 /\ tid' = tid
OnPath == pidx <= 3 /\ Ev[l].path = Path
Logged(ps) == {<<ps[j][1], ps[j][2]>> : j \in 1..Len(ps)}
TInvoke == IsEvent("invoke") /\ OnPath /\ Invoke /\ Ev[l].page = 1
TFetch  == IsEvent("fetch") /\ OnPath /\ NextPage /\ Ev[l].page = page'      \* the pager's call for page 2, 3, ..
TEncode == IsEvent("encode") /\ OnPath /\ Ev[l].page = page /\ EncodeAs(Ev[l].text)
TSend   == IsEvent("send") /\ OnPath /\ Ev[l].page = page /\ Send
           /\ sent'[Ev[l].path].present = Ev[l].present
           /\ sent'[Ev[l].path].pairs = Logged(Ev[l].pairs)
           /\ Len(Ev[l].pairs) = Cardinality(sent'[Ev[l].path].pairs)
TRefuse == IsEvent("refuse") /\ OnPath /\ Refuse
TSilent == /\ tid <= N /\ UNCHANGED <<tid, l>>
           /\ (BuildParam \/ BuildVar \/ Finish)
TNextTrace == /\ tid <= N /\ l = Len(Ev) + 1 /\ pc = "done"
              /\ TLCSet(1, tid)
              /\ tid' = tid + 1 /\ l' = 1
              /\ IF tid + 1 <= N THEN ResetFor(tid + 1) ELSE UNCHANGED vars
TNext == TInvoke \/ TFetch \/ TEncode \/ TSend \/ TRefuse \/ TSilent \/ TNextTrace
TSpec == TInit /\ [][TNext]_tvars
Progress == TLCSet(2, <<tid, l>>)          \* CONSTRAINT: remembers how far the batch got (workers 1)
Accepted == PrintT(<<"ACCEPTED", TLCGet(1)>>) /\ PrintT(<<"REACHED", TLCGet(2)>>) /\ TLCGet(1) = N
=============================================================================
