------------------------------ MODULE NamesTrace ------------------------------
(* Validates observations {word, position, surface, wire} made on the emitted library against Names. *)
EXTENDS Names, IOUtils, TLCExt
VARIABLES tid
Traces == JsonDeserialize(IOEnv.TRACE_FILE)
N == Len(Traces)
tvars == <<vars, tid>>
TInit == /\ tid = 1 /\ TLCSet(1, 0) /\ TLCSet(2, <<0, 0>>)
         /\ word = Traces[1].word /\ pos = Traces[1].position /\ surface = "" /\ wire = "" /\ stage = "declared"
TObserve == /\ tid <= N /\ <<word, pos>> \in Cases
            /\ Disambiguate
            /\ surface' = Traces[tid].surface /\ wire' = Traces[tid].wire
            /\ UNCHANGED tid
TNextTrace == /\ tid <= N /\ stage = "named" /\ TLCSet(1, tid) /\ tid' = tid + 1
              /\ IF tid + 1 <= N THEN word' = Traces[tid + 1].word /\ pos' = Traces[tid + 1].position /\ surface' = "" /\ wire' = "" /\ stage' = "declared"
                 ELSE UNCHANGED vars
TSpec == TInit /\ [][TObserve \/ TNextTrace]_tvars
Progress == TLCSet(2, <<tid, 1>>)
Accepted == PrintT(<<"ACCEPTED", TLCGet(1)>>) /\ PrintT(<<"REACHED", TLCGet(2)>>) /\ TLCGet(1) = N
=============================================================================
