CONSTANTS Scope = "trace" OneByOne = FALSE Mutant = "none" Pick = {}
SPECIFICATION TSpec
CONSTRAINT Progress
INVARIANT Inv_Fail
INVARIANT Inv_Seeds
INVARIANT Inv_ClosedDown
INVARIANT Inv_ClosedUp
INVARIANT Inv_Least
INVARIANT Inv_Interval
INVARIANT Inv_Rpcs
INVARIANT Inv_Svcs
INVARIANT Inv_Internal
INVARIANT Inv_InternalStillWorks
INVARIANT Inv_Behave
INVARIANT Inv_Files
POSTCONDITION Accepted
CHECK_DEADLOCK FALSE
