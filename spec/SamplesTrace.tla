---------------------------- MODULE SamplesTrace ----------------------------
(***************************************************************************)
(* Batched trace validation for Samples (code -> spec).  TRACE_FILE holds  *)
(*   [ {id, type, api:{ts,naming,nsvc,reqpkg,flatten,rot,width},            *)
(*      events:[{ev, ...}]} .. ]                                            *)
(* type "inventory": the `Sample` hook events of one generator run          *)
(*      Spec{service,rpc,transport,tag,file}* Done                          *)
(* type "sample":  one emitted sample                                       *)
(*      Spec   the hook event of this sample                                *)
(*      File   line kinds and interned line texts of the emitted file, the   *)
(*             tags on its START/END lines, compile / import observations   *)
(*      Meta   its entry in snippet_metadata_*.json                          *)
(*      Client what `inspect` says about the client method the entry names  *)
(*      Doc    the code block of that method's docstring                     *)
(*      (Run, Call*, Return | Raise)+  executions against the loopback      *)
(*             server (every sample is run several times)                   *)
(* Every action is  IsEvent(name) /\ <action of Samples> /\ <logged fields  *)
(* compared with the primed variables>.  Because several recorded           *)
(* departures are already known, a logged field that differs does not      *)
(* block the batch: the step is taken with the values of the               *)
(* specification and the departure is CLASSIFIED here (variable `dev`) and *)
(* printed as  <<"DEVIATION", json>>  when the trace ends, so verdicts are *)
(* total in one run.  A trace is accepted iff it is walked to its end with *)
(* dev = {}.  An event no action can take still stops the batch            *)
(* (ACCEPTED / REACHED registers as in PagerTrace).                        *)
(***************************************************************************)
EXTENDS Samples, IOUtils, TLCExt
VARIABLES tid, l, dev
Traces == JsonDeserialize(IOEnv.TRACE_FILE)
N == Len(Traces)
tvars == <<vars, tid, l, dev>>
Ev == Traces[tid].events
E == Ev[l]
TType == Traces[tid].type
SetOf(sq) == {sq[i] : i \in 1..Len(sq)}

ApiOf(t) == LET a == Traces[t].api IN
            [ts |-> SetOf(a.ts), naming |-> a.naming, nsvc |-> a.nsvc, reqpkg |-> a.reqpkg, flatten |-> a.flatten,
             rot |-> a.rot, width |-> a.width]
FullInventory(a) == {SpecRec(a, x[1], x[2], x[3]) : x \in Wanted(a)}
\* a sample trace starts after the inventory was built (checked by the inventory trace of the same run)
SpecsFor(t) == IF Traces[t].type = "inventory" THEN {} ELSE FullInventory(ApiOf(t))

ResetFor(t) == /\ api' = ApiOf(t) /\ stage' = "specs" /\ specs' = SpecsFor(t) /\ focus' = NoFocus /\ lines' = <<>>
               /\ segs' = [FULL |-> NoSeg] /\ index' = {} /\ embed' = <<>> /\ phase' = "idle" /\ req' = {} /\ seen' = <<>>
TInit == /\ tid = 1 /\ l = 1 /\ dev = {} /\ TLCSet(1, 0) /\ TLCSet(2, <<0, 0>>)
         /\ api = ApiOf(1) /\ stage = "specs" /\ specs = SpecsFor(1) /\ focus = NoFocus /\ lines = <<>>
         /\ segs = [FULL |-> NoSeg] /\ index = {} /\ embed = <<>> /\ phase = "idle" /\ req = {} /\ seen = <<>>

IsEvent(e) == tid <= N /\ l <= Len(Ev) /\ E.ev = e /\ l' = l + 1 /\ tid' = tid
Note(D) == dev' = dev \cup D
If(c, x) == IF c THEN {} ELSE {x}

RpcIdOf(name) == IF \E r \in AllRpcIds : RpcName(r) = name THEN CHOOSE r \in AllRpcIds : RpcName(r) = name ELSE "?"
KindOfTransport(t) == IF t = "grpc-async" THEN "async" ELSE "sync"

-----------------------------------------------------------------------------
(* inventory traces                                                        *)
EarlierTags == {Ev[j].tag : j \in {j \in 1..(l - 1) : Ev[j].ev = "Spec"}}
TGen == /\ IsEvent("Spec") /\ TType = "inventory" /\ stage = "specs"
        /\ LET s == E.service  r == RpcIdOf(E.rpc)  k == KindOfTransport(E.transport) IN
           IF <<s, r, k>> \in Pending
           THEN /\ GenSampleSpec(s, r, k)
                /\ Note(If(E.tag = TagOf(api, s, r, k), "inventory:tag-form")
                        \cup If(E.transport = TransportOf(api, k), "inventory:transport")
                        \cup If(E.tag \notin EarlierTags, "inventory:duplicate-tag"))
           ELSE /\ UNCHANGED vars
                /\ Note({IF <<s, r, k>> \in Wanted(api) THEN "inventory:duplicate:" \o k
                         ELSE IF r = "?" \/ s \notin Services(api) THEN "inventory:unknown-rpc"
                         ELSE "inventory:unexpected:" \o k}
                        \cup If(E.tag \notin EarlierTags, "inventory:duplicate-tag"))
TGenDone == /\ IsEvent("Done") /\ TType = "inventory" /\ stage = "specs"
            /\ stage' = "inventoried" /\ UNCHANGED <<api, specs, focus, lines, segs, index, embed, phase, req, seen>>
            /\ Note({"inventory:missing:" \o x[3] : x \in Pending})

-----------------------------------------------------------------------------
(* sample traces                                                           *)
Abort == /\ stage' = "aborted" /\ UNCHANGED <<api, specs, focus, lines, segs, index, embed, phase, req, seen>>
TSkip == /\ tid <= N /\ l <= Len(Ev) /\ stage = "aborted" /\ l' = l + 1 /\ tid' = tid /\ UNCHANGED <<vars, dev>>

TSpec == /\ IsEvent("Spec") /\ TType = "sample" /\ stage = "specs"
         /\ LET s == E.service  r == RpcIdOf(E.rpc)  k == KindOfTransport(E.transport) IN
            IF <<s, r, k>> \in Wanted(api)
            THEN /\ PickFocus /\ focus' = SpecRec(api, s, r, k)
                 /\ Note(If(E.tag = focus'.tag, "inventory:tag-form") \cup If(E.file = FileOf(api, s, r, k), "file:name"))
            ELSE Abort /\ Note({"inventory:unexpected:" \o k})

TFile == /\ IsEvent("File") /\ stage = "render"
         /\ Note(If(E.compiles, "compile:syntax-error")
                 \cup If(E.compiles => E.functions = 1, "file:sample-function-count")
                 \cup If(WellFormed(E.kinds) /\ Len(E.kinds) = Len(E.texts), "file:malformed")
                 \cup If(E.startTags = <<focus.tag>> /\ E.endTags = <<focus.tag>>, "file:tag-mismatch")
                 \cup If(E.unresolved = <<>>, "request:unresolved-import")
                 \cup {"request:nonpublic-name:" \o E.nonpublic[i] : i \in 1..Len(E.nonpublic)})
         /\ IF E.compiles /\ WellFormed(E.kinds) /\ Len(E.kinds) = Len(E.texts)
            THEN /\ lines' = E.kinds /\ stage' = "parse"
                 /\ UNCHANGED <<api, specs, focus, segs, index, embed, phase, req, seen>>
            ELSE Abort

\* classification of a logged segment against the one the specification computes from the actual lines
SegClass(got, exp, full) ==
  IF got = exp THEN "ok"
  ELSE IF got.s # 0 /\ got.e = 0 THEN "no-end"
  ELSE IF got.s = 0 /\ got.e # 0 THEN "no-start"
  ELSE IF got = NoSeg THEN "missing"
  ELSE IF got.s = exp.s /\ got.e = full.e + 1 THEN "end-past-full"
  ELSE IF got.e > full.e \/ got.s < full.s THEN "outside-full"
  ELSE IF got.s > got.e THEN "start-after-end"
  ELSE "off"
\* a logged segment agrees with the computed one if it is equal, or (typed sections) starts on the same marker line and
\* ends between the last non-blank line of the section and its computed end (trailing blank lines are optional), or
\* (SHORT, "may not include imports") is any non-empty range inside FULL
LastNonBlankIn(ls, a, b) == Max({i \in a..b : ls[i] # "blank"})
Agrees(ls, n, got, exp, full) ==
  \/ got = exp
  \/ n = "SHORT" /\ full.s <= got.s /\ got.s <= got.e /\ got.e <= full.e
  \/ n \notin {"FULL", "SHORT"} /\ exp # NoSeg /\ got.s = exp.s /\ got.e <= exp.e /\ got.e >= LastNonBlankIn(ls, exp.s, exp.e)
SegDevs(ls, logged, S) ==
  LET names == <<"FULL", "SHORT">> \o SegNames
      exp(n) == CASE n = "FULL" -> S.FULL [] n = "SHORT" -> S.SHORT [] n = "CLIENT_INITIALIZATION" -> S.CLIENT_INITIALIZATION
                  [] n = "REQUEST_INITIALIZATION" -> S.REQUEST_INITIALIZATION [] n = "REQUEST_EXECUTION" -> S.REQUEST_EXECUTION
                  [] n = "RESPONSE_HANDLING" -> S.RESPONSE_HANDLING
      got(n) == LET m == {i \in 1..Len(logged) : logged[i].type = n} IN
                IF m = {} THEN NoSeg ELSE [s |-> logged[One(m)].s, e |-> logged[One(m)].e]
  IN {"segments:" \o names[i] \o ":" \o SegClass(got(names[i]), exp(names[i]), S.FULL)
        : i \in {i \in 1..Len(names) : ~Agrees(ls, names[i], got(names[i]), exp(names[i]), S.FULL)}}
      \cup {"segments:duplicate-type" : i \in {i \in 1..Len(logged) : \E j \in 1..Len(logged) : j # i /\ logged[j].type = logged[i].type}}

TMeta == /\ IsEvent("Meta") /\ stage = "parse"
         /\ segs' = Segments(lines) /\ index' = index \cup {[Entry EXCEPT !.segs = segs']} /\ stage' = "embed"
         /\ UNCHANGED <<api, specs, focus, lines, embed, phase, req, seen>>
         /\ IF ~E.present THEN Note({"meta:entry-missing"})
            ELSE Note(SegDevs(lines, E.segments, segs')
                      \cup If(E.count = 1, "meta:entry-count")
                      \cup If(E.file = E.actualFile, "meta:file")
                      \cup If(E.tag = focus.tag, "meta:region-tag")
                      \cup If(E.client = ClientName(focus.svc, focus.kind), "meta:client-name")
                      \cup If(E.method = Snake(focus.rpc), "meta:method-name")
                      \cup If(E.rpc = RpcName(focus.rpc) /\ E.service = focus.svc, "meta:rpc-name")
                      \cup If(E.async = (focus.kind = "async"), "meta:async-flag")
                      \cup If(E.params = Params(api, focus.rpc), "meta:params")
                      \cup If(E.result = ResultShape(FormOf(focus.rpc)), "meta:result-shape"))

TClient == /\ IsEvent("Client") /\ stage = "embed" /\ embed = <<>> /\ phase = "idle"
           /\ UNCHANGED vars
           /\ IF ~E.present THEN Note({})
              ELSE IF ~E.classExists THEN Note({"meta:client-class-missing"})
              ELSE IF ~E.methodExists THEN Note({"meta:client-method-missing"})
              ELSE Note(If(E.params = Params(api, focus.rpc), "meta:params-vs-client")
                        \cup If(E.params = E.metaParams, "meta:params-vs-client")
                        \cup If(E.result = ResultShape(FormOf(focus.rpc)), "meta:result-vs-client")
                        \cup If(E.resultSame, "meta:result-type-vs-client")
                        \cup If(E.clientFullResolves, "meta:client-fullname")
                        \cup If(E.methodFullResolves, "meta:method-fullname")
                        \cup If(E.coroutine = (focus.kind = "async") \/ FormOf(focus.rpc) \in {"sstream", "bidi"}, "meta:async-vs-client"))

TDoc == /\ IsEvent("Doc") /\ stage = "embed"
        /\ embed' = Embed(Traces[tid].texts, lines, 0) /\ stage' = "run"
        /\ UNCHANGED <<api, specs, focus, lines, segs, index, phase, req, seen>>
        /\ IF ~E.present THEN Note({"doc:snippet-missing"})
           ELSE Note(If(NonBlank(E.texts, 0) = embed', "doc:differs"))

TRun == /\ IsEvent("Run") /\ RunSample /\ UNCHANGED dev
\* every sample is executed several times (a call that only sometimes reaches the server is a race, not a delivery):
\* a further Run starts from the state RunSample starts from
TRunAgain == /\ IsEvent("Run") /\ stage = "done" /\ phase \in {"returned", "unserved", "raised-observed"}
             /\ stage' = "run" /\ phase' = "built" /\ req' = BuildRequest(FKinds) /\ seen' = <<>>
             /\ UNCHANGED <<api, specs, focus, lines, segs, index, embed, dev>>

TCall == /\ IsEvent("Call") /\ stage = "run" /\ phase \in {"built", "called"}
         /\ seen' = Append(seen, [svc |-> E.service, rpc |-> RpcIdOf(E.rpc), pop |-> SetOf(E.populated)])
         /\ phase' = "called"
         /\ UNCHANGED <<api, stage, specs, focus, lines, segs, index, embed, req, dev>>

OnPath == {i \in 1..Len(seen) : seen[i].svc = focus.svc /\ seen[i].rpc = focus.rpc}
TReturn == /\ IsEvent("Return") /\ stage = "run" /\ phase \in {"built", "called"}
           /\ IF Served # {}
              THEN Return /\ UNCHANGED dev
              ELSE /\ phase' = "unserved" /\ stage' = "done"
                   /\ UNCHANGED <<api, specs, focus, lines, segs, index, embed, req, seen>>
                   /\ IF OnPath = {} THEN Note({"exec:no-call-observed"})
                      ELSE Note(UNION {{"request:required-unpopulated:" \o p : p \in MissingRequired(seen[i].pop, FKinds)}
                                       \cup {"request:oneof-members-set:" \o k : k \in BadOneofs(seen[i].pop, FKinds)} : i \in OnPath})

\* where an exception left the sample: the typed section that contains the line
SectionOfLine(n) == IF n = 0 THEN "LOAD"
                    ELSE IF \E j \in 1..4 : Present(lines, j) /\ Section(lines, j).s <= n /\ n <= Section(lines, j).e
                         THEN SegNames[CHOOSE j \in 1..4 : Present(lines, j) /\ Section(lines, j).s <= n /\ n <= Section(lines, j).e]
                    ELSE IF Full(lines).s <= n /\ n <= Full(lines).e THEN "PREAMBLE" ELSE "OUTSIDE"
TRaise == /\ IsEvent("Raise") /\ stage = "run" /\ phase \in {"idle", "built", "called"}
          /\ phase' = "raised-observed" /\ stage' = "done"
          /\ UNCHANGED <<api, specs, focus, lines, segs, index, embed, req, seen>>
          /\ LET sec == SectionOfLine(E.line) IN
             Note({IF sec \in {"REQUEST_INITIALIZATION", "PREAMBLE", "LOAD"} THEN "request:raised:" \o sec \o ":" \o E.type
                   ELSE "exec:raised:" \o sec \o ":" \o E.type})

TNextTrace == /\ tid <= N /\ l = Len(Ev) + 1 /\ stage \in {"done", "aborted", "inventoried"}
              /\ TLCSet(1, tid)
              /\ dev # {} => PrintT(<<"DEVIATION", ToJson([id |-> Traces[tid].id, dev |-> dev])>>)
              /\ tid' = tid + 1 /\ l' = 1 /\ dev' = {}
              /\ IF tid + 1 <= N THEN ResetFor(tid + 1) ELSE UNCHANGED vars
TNext == TGen \/ TGenDone \/ TSkip \/ TSpec \/ TFile \/ TMeta \/ TClient \/ TDoc \/ TRun \/ TRunAgain \/ TCall \/ TReturn \/ TRaise
         \/ TNextTrace
TSpecification == TInit /\ [][TNext]_tvars
Progress == TLCSet(2, <<tid, l>>)          \* CONSTRAINT: remembers how far the batch got (workers 1)
Accepted == PrintT(<<"ACCEPTED", TLCGet(1)>>) /\ PrintT(<<"REACHED", TLCGet(2)>>) /\ TLCGet(1) = N
=============================================================================
