CONSTANTS Scope = "small" OneByOne = FALSE Mutant = "none" Pick = {}
SPECIFICATION Spec
INVARIANT Emit
