CONSTANTS Scope = "small" OneByOne = FALSE Mutant = "none"
SPECIFICATION Spec
INVARIANT Emit
