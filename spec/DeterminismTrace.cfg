SPECIFICATION TSpec
CONSTRAINT Progress
INVARIANT Inv_Deterministic
POSTCONDITION Accepted
CHECK_DEADLOCK FALSE
