--------------------------- MODULE SampleCfgTrace ---------------------------
(***************************************************************************)
(* Batched trace validation for SampleCfg (code -> spec).  TRACE_FILE holds *)
(*   [ {events: [ {ev, req, tok, verdict, defined} .. ]} .. ]              *)
(* recorded from the real gapic.samplegen.samplegen.Validator:             *)
(*   ev = "request"  validate_and_transform_request(req) returned / raised *)
(*   ev = "stmt"     one statement of a response block was validated       *)
(*                   (tok.k = "loop": the header was taken and the body is *)
(*                   about to be validated; tok.k = "end": the loop        *)
(*                   statement returned)                                   *)
(*   ev = "finish"   validate_response of the whole block returned         *)
(* verdict is "running", "accepted" or the class name of the exception;    *)
(* defined is what var_defs_ held at that moment (name, type shape).       *)
(* Every action is  IsEvent(name) /\ <spec action> /\ <logged fields =     *)
(* primed variables>,  so each invariant of SampleCfg is evaluated after   *)
(* every recorded step of the real code.                                   *)
(***************************************************************************)
EXTENDS SampleCfg, IOUtils, TLCExt
VARIABLES tid, l
Traces == JsonDeserialize(IOEnv.TRACE_FILE)
N == Len(Traces)
tvars == <<vars, tid, l>>
Ev == Traces[tid].events

ToSet(s) == {s[i] : i \in 1..Len(s)}
TokOf(t) == [k |-> t.k, names |-> t.names, src |-> t.src, nfmt |-> t.nfmt, args |-> t.args, kw |-> ToSet(t.kw)]
Fresh == /\ phase' = "request" /\ req' = <<>> /\ bases' = <<>> /\ scopes' = <<RootScope>> /\ prog' = <<>> /\ obs' = <<>>
         /\ verdict' = "running"
TInit == /\ tid = 1 /\ l = 1 /\ TLCSet(1, 0) /\ TLCSet(2, <<0, 0>>) /\ Init

IsEvent(e) == tid <= N /\ l <= Len(Ev) /\ Ev[l].ev = e /\ l' = l + 1 /\ tid' = tid
\* what the code reported at this step is what the specification's step produced
Matches(e) == /\ verdict' = e.verdict
              /\ (verdict' \in {"running", "accepted"} => DefSet(MergeAll(scopes')) = ToSet(e.defined))
TRequest == IsEvent("request") /\ ValidateRequest(Ev[l].req) /\ Matches(Ev[l])
TStmt    == IsEvent("stmt") /\ Step(TokOf(Ev[l].tok)) /\ Matches(Ev[l])
TFinish  == IsEvent("finish") /\ Finish /\ Matches(Ev[l])
TNextTrace == /\ tid <= N /\ l = Len(Ev) + 1 /\ Done
              /\ TLCSet(1, tid)
              /\ tid' = tid + 1 /\ l' = 1
              /\ IF tid + 1 <= N THEN Fresh ELSE UNCHANGED vars
TNext == TRequest \/ TStmt \/ TFinish \/ TNextTrace
TSpec == TInit /\ [][TNext]_tvars
Progress == TLCSet(2, <<tid, l>>)          \* CONSTRAINT: remembers how far the batch got (workers 1)
Accepted == PrintT(<<"ACCEPTED", TLCGet(1)>>) /\ PrintT(<<"REACHED", TLCGet(2)>>) /\ TLCGet(1) = N
=============================================================================
