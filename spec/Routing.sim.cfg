CONSTANTS MaxParams = 4 MaxVars = 3 Pool = "large" MaxCalls = 8 OptFields = {"name", "other", "type"} MaxPages = 3 Mutant = "none"
SPECIFICATION Spec
INVARIANT Inv_Explicit
INVARIANT Inv_NoHeaderWhenNothing
INVARIANT Inv_Implicit
INVARIANT Inv_KeysOriginal
INVARIANT Inv_Encoded
INVARIANT Inv_Agree
INVARIANT Inv_Fold
INVARIANT Inv_FoldDecl
INVARIANT Inv_MatchGen
INVARIANT Inv_Bounded
