CONSTANTS
  Rotations = {0}
  Widths = {1}
  TransportSets = {{"grpc"}, {"rest"}, {"grpc", "rest"}}
  Namings = {"plain", "kw", "nons", "host", "svchost"}
  NSvcs = {1, 2}
  ReqPkgs = {"own"}
  Flattens = {FALSE, TRUE}
  FormSet = {"unary", "paged", "lro", "sstream", "cstream", "bidi", "void"}
  MaxCode = 1
  AnyOrder = FALSE
  Mutant = "none"
SPECIFICATION Spec
INVARIANT Emit
