------------------------------ MODULE Settings ------------------------------
(***************************************************************************)
(* AIP-4235 validation of publishing.method_settings at generation time    *)
(* (C18, first clause).  A settings list is a sequence of entries          *)
(* [selector, fields]; generation must fail iff some entry violates one of *)
(* the rules, or a selector occurs twice.  Written from the property text: *)
(* the method exists, is unary, and every listed field is a top-level,     *)
(* non-required string annotated with format UUID4.                        *)
(***************************************************************************)
EXTENDS Naturals, Sequences, FiniteSets, TLC, Json, SequencesExt

\* methods of the carrier service (harness/callrun.py)
MethodKind == [ CreateThing |-> "unary", GetThing |-> "unary", WatchThings |-> "server_streaming",
                UploadThings |-> "client_streaming", ChatThings |-> "bidi", Nope |-> "unknown",
                CheckDep |-> "unary" ]       \* CheckDep: its request message lives in an imported (dependency) package
Selectors == DOMAIN MethodKind
\* candidate field names of the request message and what is wrong with each (ok = satisfies every rule)
FieldKind == [ request_id |-> "ok", opt_request_id |-> "ok", missing_field |-> "not_found", count |-> "not_string",
               req_id_required |-> "required", plain_str |-> "not_uuid4" ]
\* the same names on the dependency-package request of CheckDep (it has request_id [UUID4], count, name and little else)
DepFieldKind == [ request_id |-> "ok", opt_request_id |-> "not_found", missing_field |-> "not_found", count |-> "not_string",
                  req_id_required |-> "not_found", plain_str |-> "not_found" ]
KindOf(sel, f) == IF sel = "CheckDep" THEN DepFieldKind[f] ELSE FieldKind[f]
\* a nested path names no top-level field
NestedField == "inner.name"
FieldNames == DOMAIN FieldKind \cup {NestedField}

\* layout: where the services live - in the API package itself ("root") or, every one of them, in a proto sub-package of it
\* ("sub": pkg.v1.services.Things; the Google Ads layout), or the service of the settings in the API package and ANOTHER service in
\* a sub-package ("mixed": pkg.v1.Things + pkg.v1.admin.Admin).  The rules do not mention it: the outcome must not depend on it.
VARIABLES settings, stage, outcome, layout
vars == <<settings, stage, outcome, layout>>

FieldSets == {{}} \cup {{f} : f \in FieldNames} \cup {{"request_id", f} : f \in FieldNames \ {"request_id"}}
\* an entry may also carry long_running tuning (lro); a TUNING-ONLY entry has it and no auto-populated field - it is an entry of
\* the list like any other: its selector counts for the duplicate rule
Entries == [selector : Selectors, fields : FieldSets, lro : {FALSE}]
Tuning(s) == [selector |-> s, fields |-> {}, lro |-> TRUE]
Auto(s)   == [selector |-> s, fields |-> {"request_id"}, lro |-> FALSE]
Bare(s)   == [selector |-> s, fields |-> {}, lro |-> FALSE]
UnarySels == {s \in Selectors : MethodKind[s] = "unary"}
DistinctPairs == {q \in UnarySels \X UnarySels : q[1] # q[2]}
TuningLists == {<<Tuning(s)>> : s \in UnarySels}
                 \cup {<<Tuning(s), Auto(s)>> : s \in UnarySels} \cup {<<Auto(s), Tuning(s)>> : s \in UnarySels}
                 \cup {<<Tuning(p[1]), Bare(p[2]), Auto(p[1])>> : p \in DistinctPairs}
                 \cup {<<Tuning(p[1]), Auto(p[2])>> : p \in DistinctPairs}
\* lists of three entries: valid unary entries only, so that the ONLY possible violation is a duplicate selector -
\* adjacent (positions 1,2 / 2,3) or not adjacent (positions 1,3)
Plain == {e \in Entries : MethodKind[e.selector] = "unary" /\ e.fields \in {{}, {"request_id"}}}
Init == /\ settings \in {<<>>} \cup {<<e>> : e \in Entries}
                      \cup {<<e1, e2>> : e1 \in {e \in Entries : e.fields \subseteq {"request_id"}}, e2 \in {e \in Entries : Cardinality(e.fields) <= 1}}
                      \cup {<<e1, e2, e3>> : e1 \in Plain, e2 \in Plain, e3 \in Plain}
                      \cup TuningLists
        /\ stage = "loaded" /\ outcome = "pending"
        /\ layout \in IF Len(settings) = 2 THEN {"root"} ELSE {"root", "sub", "mixed"}

FieldOk(sel, f) == f # NestedField /\ KindOf(sel, f) = "ok"
EntryOk(e) == MethodKind[e.selector] = "unary" /\ \A f \in e.fields : FieldOk(e.selector, f)
\* an entry without auto-populated fields still has to name an existing method? The property speaks of entries
\* "in auto_populated_fields"; entries with no fields are only subject to the duplicate and existence rules.
EntryValid(e) == IF e.fields = {} THEN MethodKind[e.selector] # "unknown" ELSE EntryOk(e)
NoDuplicates(s) == \A i, j \in 1..Len(s) : i # j => s[i].selector # s[j].selector
Valid(s) == NoDuplicates(s) /\ \A i \in 1..Len(s) : EntryValid(s[i])

Validate == /\ stage = "loaded"
            /\ outcome' = IF Valid(settings) THEN "generated" ELSE "MethodSettingsError"
            /\ stage' = "done" /\ UNCHANGED <<settings, layout>>
Next == Validate
Spec == Init /\ [][Next]_vars /\ WF_vars(Next)

Inv_FailIffViolation == stage = "done" => (outcome = "generated" <=> Valid(settings))
Inv_SingleViolationFails == stage = "done" /\ Len(settings) = 1 /\ settings[1].fields # {} /\ ~EntryOk(settings[1]) => outcome # "generated"
Live == <>(stage = "done")
Case == [settings |-> [i \in 1..Len(settings) |-> [selector |-> settings[i].selector, fields |-> SetToSeq(settings[i].fields), lro |-> settings[i].lro]],
         layout |-> layout, expect |-> outcome]
Emit == stage = "done" => PrintT(<<"CASE", ToJson(Case)>>)
=============================================================================
