---------------------------- MODULE Determinism ----------------------------
(***************************************************************************)
(* C10 as self-composition: K runs of the rendering part of the pipeline   *)
(* on the SAME request.  The only thing that differs between runs is the   *)
(* schedule: the iteration order of every set-typed container of the       *)
(* schema (PYTHONHASHSEED permutes them because MessageType/Address hash   *)
(* tuples of strings).  Each consumption SITE applies the ordering         *)
(* discipline the code applies there; the response of a run is the         *)
(* concatenation of what the sites emit.  Property: all runs produce the   *)
(* same response.                                                          *)
(*                                                                         *)
(* Sites and disciplines were read off the templates / schema code:        *)
(*   resource_helpers   service.resource_messages | sort(resource_type,    *)
(*                      resource_type_full_path)            -> total sort  *)
(*   retry_codes        retryable_exceptions | sort(__name__) -> total     *)
(*   extops_imports     get_extended_operations_services in a sort_lines   *)
(*                      filter block                     -> sorted lines   *)
(*   extops_properties  ... | sort(attribute="name")        -> total sort  *)
(*   ref_type_imports   python imports under sort_lines  -> sorted lines   *)
(*   python_modules     tuple(sorted(set))                  -> total sort  *)
(*   names_membership   Proto.names / Service.names: membership tests only *)
(*   query_membership   Method.query_params: membership tests only         *)
(*   snippet_index      snippets sorted by region tag       -> total sort  *)
(*   metadata_json      services/methods sorted by name     -> total sort  *)
(*   required_defaults  REST table of required query fields: the request's *)
(*                      required fields in declaration order, filtered by  *)
(*                      membership in the query-parameter SET -> total     *)
(*   common_resources   wrappers of file-level resource definitions: built *)
(*                      from the request alone                 -> total    *)
(* PURITY: a run may happen in a process that generated something before   *)
(* (another request with the same names, or the same request): `hist`.     *)
(* No site may read anything a previous generation left behind.            *)
(* `Table` can be replaced by a mutant table (a site without its sort, or  *)
(* a sort whose key has ties) which TLC must reject.                       *)
(***************************************************************************)
EXTENDS Naturals, Sequences, FiniteSets, TLC, SequencesExt, FiniteSetsExt

CONSTANTS K,          \* number of runs compared
          MaxElems,   \* container size bound
          Mutant      \* "none" | "unsorted_site" | "tie_key" | "set_order_defaults" | "process_memo"

Sites == <<"resource_helpers", "retry_codes", "extops_imports", "extops_properties", "ref_type_imports", "python_modules",
           "names_membership", "query_membership", "snippet_index", "metadata_json", "required_defaults", "common_resources">>
Histories == {"fresh", "after_other", "after_same"}
Discipline(s) ==
  CASE s \in {"names_membership", "query_membership"} -> "membership"
    [] s \in {"extops_imports", "ref_type_imports"} -> "sort_lines"
    [] s = "resource_helpers" /\ Mutant = "tie_key" -> "sort_key"       \* the pre-fix behaviour: sort by the short type name only
    [] s = "retry_codes" /\ Mutant = "unsorted_site" -> "none"
    [] s = "required_defaults" /\ Mutant = "set_order_defaults" -> "none"    \* iterate the set instead of the declared fields
    [] OTHER -> "sort_total"

\* an element has an identity (total order) and a coarser sort key that may tie
Elem == [id : 1..MaxElems, key : 1..2]
Containers == {C \in SUBSET Elem : \A a, b \in C : a.id = b.id => a = b}
Perms(C) == {p \in [1..Cardinality(C) -> C] : \A i, j \in 1..Cardinality(C) : i # j => p[i] # p[j]}

\* what the site emits for one iteration order
Ids(p) == [i \in 1..Len(p) |-> p[i].id]
SortedIds(C) == SetToSortSeq({e.id : e \in C}, <)
StableByKey(p) == SelectSeq(p, LAMBDA e : e.key = 1) \o SelectSeq(p, LAMBDA e : e.key = 2)
Render(s, C, p, h) ==
  CASE Mutant = "process_memo" /\ s = "common_resources" /\ h = "after_other" -> <<0>>   \* what the earlier generation memoised
    [] Discipline(s) = "membership" -> <<>>
    [] Discipline(s) = "sort_lines" -> SortedIds(C)
    [] Discipline(s) = "sort_total" -> SortedIds(C)
    [] Discipline(s) = "sort_key"   -> Ids(StableByKey(p))
    [] OTHER                        -> Ids(p)

VARIABLES site, container, out, done
vars == <<site, container, out, done>>

\* The response is the concatenation of what the sites emit and the containers of different sites are independent
\* inputs, so two runs agree on the response iff they agree at every site: each (site, container) is explored on its own.
Init == /\ site \in 1..Len(Sites) /\ container \in Containers /\ out = [r \in 1..K |-> <<>>] /\ done = FALSE
\* one step = every run consumes the site's container under its own schedule (iteration order)
Consume == /\ ~done
           /\ \E ps \in [1..K -> Perms(container)], hs \in [1..K -> Histories] :
                out' = [r \in 1..K |-> Render(Sites[site], container, ps[r], hs[r])]
           /\ done' = TRUE /\ UNCHANGED <<site, container>>
Next == Consume
Spec == Init /\ [][Next]_vars /\ WF_vars(Next)

Inv_Deterministic == \A r1, r2 \in 1..K : out[r1] = out[r2]
Live == <>done
=============================================================================
