------------------------------ MODULE Logging ------------------------------
(***************************************************************************)
(* Extension (spec growth, no listed property): client-side debug logging  *)
(* of the emitted transports is OBSERVATIONAL.                             *)
(*                                                                         *)
(* Code modelled (templates under services/%service/):                     *)
(*   transports/grpc.py.j2          _LoggingClientInterceptor              *)
(*   transports/grpc_asyncio.py.j2  _LoggingClientAIOInterceptor           *)
(*   _shared_macros.j2              unary_request_interceptor_common,      *)
(*                                  rest_call_method_common                *)
(*   transports/rest.py.j2          the _LOGGER.debug blocks of __call__   *)
(*   google.api_core.client_logging (initialize_logging / setup_logging)   *)
(*                                                                         *)
(* logging is on  <=>  CLIENT_LOGGING_SUPPORTED (client_logging can be     *)
(* imported) /\ _LOGGER.isEnabledFor(DEBUG), _LOGGER being                 *)
(* logging.getLogger(<package>.services.<service>.transports.<transport>). *)
(* Two ways to get there: "level" = the application sets the level of the  *)
(* package logger; "env" = GOOGLE_SDK_PYTHON_LOGGING_SCOPE=<package> read  *)
(* once by client_logging.initialize_logging() in the client constructor.  *)
(*                                                                         *)
(* The life of ONE call, run once per logging mode on the same input       *)
(* (self-composition over the mode):                                       *)
(*   Enter -> LogRequest (iff logging) -> Continue (the real call)         *)
(*         -> LogResponse (iff logging and ResponseLogged) -> Return       *)
(* hist[m] is what an outside observer sees of run m, in order: the log    *)
(* records, the request arriving at the server, what the caller gets.      *)
(***************************************************************************)
EXTENDS Naturals, Sequences, FiniteSets, TLC, Json

CONSTANT Mutant

Transports == {"grpc", "grpc_asyncio", "rest"}
Kinds      == {"unary", "void", "dep"}      \* proto-plus -> proto-plus | proto-plus -> Empty | dependency-package pb2 -> pb2
Statuses   == {"OK", "NOT_FOUND", "PERMISSION_DENIED"}
Modes      == {"off", "level", "env"}
Enabled(m) == m # "off"

\* metadata given by the caller: sequence of <<key, value token>>.  Values under a "-bin" key are bytes: "c1" is UTF-8
\* text, "raw" is not valid UTF-8.  "-bin" keys are a gRPC notion: not offered to the REST transport.
MdNames == {"none", "one", "two", "dup", "bin_text", "bin_raw"}
MdOf(n) == CASE n = "none"     -> <<>>
             [] n = "one"      -> << <<"x-verif-a", "a1">> >>
             [] n = "two"      -> << <<"x-verif-a", "a1">>, <<"x-verif-b", "b1">> >>
             [] n = "dup"      -> << <<"x-verif-a", "a1">>, <<"x-verif-a", "a2">> >>
             [] n = "bin_text" -> << <<"x-verif-c-bin", "c1">> >>
             [] n = "bin_raw"  -> << <<"x-verif-c-bin", "raw">> >>
MdFor(t) == IF t = "rest" THEN {"none", "one", "two", "dup"} ELSE MdNames

PairSet(s)  == {s[i] : i \in DOMAIN s}
\* a dict built from the pairs: of several values under one key the last survives
LastWins(s) == {s[i] : i \in {j \in DOMAIN s : \A k \in DOMAIN s : k > j => s[k][1] # s[j][1]}}
Keys(ps)    == {p[1] : p \in ps}
\* what the transport puts on the wire (independent of logging): gRPC sends every pair; the REST transport sends
\* headers = dict(metadata)
SentMd(t, s) == IF t = "rest" THEN LastWins(s) ELSE PairSet(s)

Method(k) == CASE k = "unary" -> "GetThing" [] k = "void" -> "DeleteThing" [] k = "dep" -> "CheckDep"
\* rpcName of a record: gRPC = client_call_details.method, i.e. the RPC path "/<package>.<Service>/<Method>";
\* REST = the method's name (rest.py.j2: "rpcName": "{{ method.name }}")
RpcName(t, k) == (IF t = "rest" THEN "name:" ELSE "path:") \o Method(k)

VARIABLES transport, kind, status, md, reqv, replyv,   \* the input (fixed during a behaviour)
          phase, hist, calls                            \* per logging mode
inputs == <<transport, kind, status, md, reqv, replyv>>
vars   == <<transport, kind, status, md, reqv, replyv, phase, hist, calls>>

Entry(ev, payload, rpc, mdset, logger) == [ev |-> ev, payload |-> payload, rpc |-> rpc, md |-> mdset, logger |-> logger]
ReqTok(v) == IF v = 1 THEN "q1" ELSE "q2"
ReplyTok  == IF kind = "void" THEN "empty" ELSE IF replyv = 1 THEN "r1" ELSE "r2"
\* what the caller gets: the reply (None for a void method) or the error status
Result    == IF status # "OK" THEN status ELSE IF kind = "void" THEN "none" ELSE ReplyTok

\* the code's rule for the response record (named, because it is not "always"):
\*  NoResponseRecordOnError - gRPC: the interceptor asks the finished call for result() / awaits it BEFORE building the
\*      record, which re-raises the RpcError out of the interceptor; REST: from_http_response is raised before the block.
\*  RestVoidHasNoResponseBlock - rest.py.j2 emits the response block inside {% if not method.void %}.
NoResponseRecordOnError    == status # "OK"
RestVoidHasNoResponseBlock == transport = "rest" /\ kind = "void"
ResponseLogged == ~NoResponseRecordOnError /\ ~RestVoidHasNoResponseBlock

Logs(m)       == Enabled(m) \/ Mutant = "log_when_disabled"
RespLogged(m) == Logs(m) /\ (ResponseLogged \/ (Mutant = "response_on_error" /\ status # "OK"))

ReqRecord == Entry("logreq", IF Mutant = "payload_other_request" THEN ReqTok(3 - reqv) ELSE ReqTok(reqv),
                   RpcName(transport, kind), LastWins(MdOf(md)), transport)
RespRecord == Entry("logresp", IF Mutant = "resp_payload_request" THEN ReqTok(reqv) ELSE ReplyTok,
                    RpcName(transport, kind), {}, transport)
Served(m) == Entry("served", ReqTok(reqv), "-",
                   SentMd(transport, IF Mutant = "alters_metadata" /\ Logs(m) THEN Append(MdOf(md), <<"x-verif-logged", "1">>) ELSE MdOf(md)), "-")
Returned  == Entry("return", Result, "-", {}, "-")

Init == /\ transport \in Transports /\ kind \in Kinds /\ status \in Statuses
        /\ md \in MdFor(transport) /\ reqv \in {1, 2}
        /\ replyv \in (IF status = "OK" /\ kind # "void" THEN {1, 2} ELSE {0})
        /\ phase = [m \in Modes |-> "start"] /\ hist = [m \in Modes |-> <<>>] /\ calls = [m \in Modes |-> 0]

Step(m, to, more, ncalls) == /\ phase' = [phase EXCEPT ![m] = to]
                             /\ hist' = [hist EXCEPT ![m] = @ \o more]
                             /\ calls' = [calls EXCEPT ![m] = @ + ncalls]
                             /\ UNCHANGED inputs

\* the transport's logging wrapper is entered with the request and the metadata of the call
Enter(m) == phase[m] = "start" /\ Step(m, "entered", <<>>, 0)
LogRequest(m) == /\ Logs(m) /\ phase[m] = "entered"
                 /\ Step(m, "reqlogged", CASE Mutant = "log_after_send" -> <<>>
                                           [] Mutant = "double_record" -> <<ReqRecord, ReqRecord>>
                                           [] OTHER -> <<ReqRecord>>, 0)
\* the real call: one call on the channel / one HTTP request; the server receives the request
Continue(m) == /\ phase[m] = (IF Logs(m) THEN "reqlogged" ELSE "entered")
               /\ Step(m, "called", <<Served(m)>> \o (IF Mutant = "log_after_send" /\ Logs(m) THEN <<ReqRecord>> ELSE <<>>),
                       IF Mutant = "extra_call" /\ Logs(m) THEN 2 ELSE 1)
LogResponse(m) == /\ RespLogged(m) /\ phase[m] = "called"
                  /\ Step(m, "resplogged", <<RespRecord>>, 0)
Return(m) == /\ phase[m] = (IF RespLogged(m) THEN "resplogged" ELSE "called")
             /\ Step(m, "done", <<Returned>>, 0)

Next == \E m \in Modes : Enter(m) \/ LogRequest(m) \/ Continue(m) \/ LogResponse(m) \/ Return(m)
Spec == Init /\ [][Next]_vars /\ WF_vars(Next)

Done(m) == phase[m] = "done"
AllDone == \A m \in Modes : Done(m)
Idx(m, e) == {i \in DOMAIN hist[m] : hist[m][i].ev = e}
Count(m, e) == Cardinality(Idx(m, e))
Outer(e) == e.ev \in {"served", "return"}
\* everything an observer who cannot see the log gets from run m
Obs(m) == <<SelectSeq(hist[m], Outer), calls[m]>>

\* (1) observational: the request the server receives, the reply / error the caller gets and the number of calls on
\*     the channel do not depend on the logging mode ...
Inv_Observational == \A m1, m2 \in Modes : Done(m1) /\ Done(m2) => Obs(m1) = Obs(m2)
\*     ... and are those of the call itself: one call, the caller's request and metadata, the server's answer
Inv_Reference == \A m \in Modes : Done(m) =>
                    Obs(m) = << <<Entry("served", ReqTok(reqv), "-", SentMd(transport, MdOf(md)), "-"), Entry("return", Result, "-", {}, "-")>>, 1 >>
\* (2) record counts and positions
Inv_DisabledSilent == \A m \in Modes : ~Enabled(m) => Count(m, "logreq") = 0 /\ Count(m, "logresp") = 0
Inv_OneRequestRecord == \A m \in Modes : Enabled(m) =>
                           /\ Count(m, "logreq") <= 1
                           /\ (phase[m] \in {"reqlogged", "called", "resplogged", "done"} => Count(m, "logreq") = 1)
Inv_RequestRecordBeforeServed == \A m \in Modes : Enabled(m) => \A i \in Idx(m, "served") : \E j \in Idx(m, "logreq") : j < i
Inv_OneResponseRecord == \A m \in Modes : Enabled(m) =>
                            /\ Count(m, "logresp") <= 1
                            /\ (Done(m) => Count(m, "logresp") = (IF ResponseLogged THEN 1 ELSE 0))
Inv_ResponseRecordAfterServed == \A m \in Modes : \A i \in Idx(m, "logresp") :
                                    (\E j \in Idx(m, "served") : j < i) /\ (\A j \in Idx(m, "return") : i < j)
Inv_NoResponseRecordOnError == \A m \in Modes : status # "OK" => Count(m, "logresp") = 0
Inv_ReturnLast == \A m \in Modes : \A i \in Idx(m, "return") : i = Len(hist[m]) /\ Done(m)
\* (3) the request record is faithful: payload = the caller's request, rpcName, logger, metadata = the metadata of the
\*     call as a dict of strings; against what was sent: the same keys, and every recorded value was sent under its key
Inv_RequestRecordFaithful == \A m \in Modes : \A i \in Idx(m, "logreq") :
                                /\ hist[m][i].payload = ReqTok(reqv) /\ hist[m][i].rpc = RpcName(transport, kind)
                                /\ hist[m][i].logger = transport /\ hist[m][i].md = LastWins(MdOf(md))
Inv_RecordMdMatchesSent == \A m \in Modes : \A i \in Idx(m, "logreq") : \A j \in Idx(m, "served") :
                              hist[m][i].md \subseteq hist[m][j].md /\ Keys(hist[m][i].md) = Keys(hist[m][j].md)
\* (4) the response record is faithful: payload = what the server sent (= what the caller gets, for a non-void method)
Inv_ResponseRecordFaithful == \A m \in Modes : \A i \in Idx(m, "logresp") :
                                 /\ hist[m][i].payload = ReplyTok /\ hist[m][i].rpc = RpcName(transport, kind) /\ hist[m][i].logger = transport
                                 /\ (Done(m) /\ kind # "void" => hist[m][i].payload = hist[m][Len(hist[m])].payload)
\* action properties: what was observed is never rewritten; logging steps make no call; the input is not touched
AP_AppendOnly == [][\A m \in Modes : Len(hist'[m]) >= Len(hist[m]) /\ SubSeq(hist'[m], 1, Len(hist[m])) = hist[m]]_vars
AP_LoggingMakesNoCall == [][\A m \in Modes : (LogRequest(m) \/ LogResponse(m)) => calls'[m] = calls[m]]_vars
AP_InputFixed == [][UNCHANGED inputs]_vars
Live == <>AllDone

Case == [transport |-> transport, kind |-> kind, status |-> status, md |-> md, reqv |-> reqv, replyv |-> replyv,
         expect |-> [m \in Modes |-> [events |-> hist[m], calls |-> calls[m]]]]
Emit == AllDone => PrintT(<<"CASE", ToJson(Case)>>)
=============================================================================
