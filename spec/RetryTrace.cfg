CONSTANTS Scope = "table" TableLo = 1 NTable = 7 MaxLen = 9 RunCalls = TRUE Transports = {"grpc", "grpc_asyncio", "rest"} FreeJitter = TRUE Mutant = "none"
SPECIFICATION TSpec
CONSTRAINT Progress
INVARIANT Inv_Resolve
INVARIANT Inv_Loaded
INVARIANT Inv_OnlyRetryable
INVARIANT Inv_Surface
INVARIANT Inv_Bound
INVARIANT Inv_DefaultBackoff
INVARIANT Inv_RpcTimeout
INVARIANT Inv_DefaultTimeout
INVARIANT Inv_Deadline
INVARIANT Inv_DefaultDeadline
INVARIANT Inv_Unnamed
INVARIANT Inv_NoPolicy
INVARIANT Inv_Override
INVARIANT Inv_Counts
INVARIANT Inv_RestDomain
POSTCONDITION Accepted
CHECK_DEADLOCK FALSE
