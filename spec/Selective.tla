----------------------------- MODULE Selective -----------------------------
(***************************************************************************)
(* Selective GAPIC generation (C16).                                       *)
(*                                                                         *)
(* State: an abstract type graph of the TARGET package                     *)
(*   messages / enums (nested ones carry a parent pointer), field edges    *)
(*   (possibly into a dependency package), resource definitions and        *)
(*   resource-reference edges, RPCs grouped in services with their         *)
(*   input / output, LRO response / metadata types and, for extended       *)
(*   operations, the polling service,                                      *)
(* the `selective_gapic_generation` entries of the service YAML (settings  *)
(* version x listed method) and the `generate_omitted_as_internal` flag.   *)
(*                                                                         *)
(* The state machine IS the traversal: one action per closure step.        *)
(*   Validate    reject unknown / other-version methods                    *)
(*   StepReach   Reach := Reach u needed-by(Reach)      (property's list)  *)
(*   StepUp      ReachUp := ReachUp u needed-by(ReachUp) u parents         *)
(*   Publish     the observable surface that the property predicts         *)
(*                                                                         *)
(* The clauses of the property are the declarative edge relations E_* and  *)
(* the invariants at the end of the module; the step actions are checked   *)
(* against them (closedness, leastness by derivation ranks and by an       *)
(* independent recursive definition, monotonicity in M).                   *)
(*                                                                         *)
(* Names: target types by their name relative to the proto package         *)
(* ("Outer.Inner"), dependency types fully qualified, RPCs "Svc.Rpc".      *)
(***************************************************************************)
EXTENDS Naturals, Sequences, FiniteSets, TLC, Json, SequencesExt, FiniteSetsExt

CONSTANTS Scope,       \* "tiny" | "small" | "full" | "all" | "pick" | "ext" | "pfx" | "bad": slice of the input space enumerated by Init
                       \* ("all" = the whole product of the slot tables, 16200 graphs: only sampled, through "pick")
          OneByOne,  \* TRUE: one node per closure step in any order (confluence); FALSE: one layer per step
          Pick,        \* Scope = "pick": set of graph indices into the whole slot product (otherwise unused)
          Mutant       \* "none" for the real design; other values are self-test mutants TLC must reject

VARIABLES g, entries, mode, phase, reach, rank, up, rankUp, step
vars == <<g, entries, mode, phase, reach, rank, up, rankUp, step>>

TargetVer == "v1"
OpT   == "google.longrunning.Operation"
Empty == "google.protobuf.Empty"
DepT  == "other.dep.v1.Dep"

-----------------------------------------------------------------------------
(* The graph and the relations the property lists                          *)
RpcName(r) == r.s \o "." \o r.n
RpcNames(G) == {RpcName(r) : r \in G.rpcs}
Types(G) == G.msgs \cup G.enums
Svcs(G) == {r.s : r \in G.rpcs}
Nodes(G) == RpcNames(G) \cup Types(G) \cup G.deps
SvcOf(G, n) == (CHOOSE r \in G.rpcs : RpcName(r) = n).s
PollOf(G, s) == {RpcName(r) : r \in {q \in G.rpcs : q.s = s /\ q.kind = "poll"}}

E_io(G, x, y)     == \E r \in G.rpcs : RpcName(r) = x /\ y \in {r.inp, r.out}
E_lroResp(G, x, y) == \E r \in G.rpcs : RpcName(r) = x /\ r.kind = "lro" /\ y = r.resp
E_lroMeta(G, x, y) == \E r \in G.rpcs : RpcName(r) = x /\ r.kind = "lro" /\ y = r.meta
E_poll(G, x, y)   == \E r \in G.rpcs : RpcName(r) = x /\ r.opsvc # "" /\ y \in PollOf(G, r.opsvc)
E_field(G, x, y)  == \E f \in G.fields : f.m = x /\ f.t = y
E_nested(G, x, y) == \E e \in G.parent : e.p = x /\ e.c = y
E_ref(G, x, y)    == y # "" /\ \E f \in G.refs : f.m = x /\ \E d \in G.res : d.r = f.r /\ d.m = y
E_parent(G, x, y) == \E e \in G.parent : e.c = x /\ e.p = y

\* "reachable from them through fields, nested types, LRO response/metadata types and resource references"
\* (+ the extended-operation polling method the listed RPCs need)
Down(G, x, y) == \/ E_io(G, x, y) \/ E_lroResp(G, x, y) \/ E_lroMeta(G, x, y) \/ E_poll(G, x, y)
                 \/ E_field(G, x, y) \/ E_nested(G, x, y) \/ E_ref(G, x, y)
\* a nested class cannot exist without its enclosing message
UpRel(G, x, y) == Down(G, x, y) \/ E_parent(G, x, y)

Rel(G, u, x, y) == IF u THEN UpRel(G, x, y) ELSE Down(G, x, y)

\* the same list once more, set-valued (what one node needs), and the closure as a recursive definition:
\* an independent formulation that the step actions are compared with (Inv_Decl)
O_io(G, x)     == UNION {{r.inp, r.out} : r \in {q \in G.rpcs : RpcName(q) = x}}
O_lro(G, x)    == UNION {{r.resp, r.meta} : r \in {q \in G.rpcs : RpcName(q) = x /\ q.kind = "lro"}}
O_poll(G, x)   == UNION {PollOf(G, r.opsvc) : r \in {q \in G.rpcs : RpcName(q) = x /\ q.opsvc # ""}}
O_field(G, x)  == {f.t : f \in {h \in G.fields : h.m = x}}
O_nested(G, x) == {e.c : e \in {h \in G.parent : h.p = x}}
O_ref(G, x)    == {d.m : d \in {k \in G.res : k.m # "" /\ \E f \in G.refs : f.m = x /\ f.r = k.r}}
O_parent(G, x) == {e.p : e \in {h \in G.parent : h.c = x}}
Out(G, u, x) == O_io(G, x) \cup O_lro(G, x) \cup O_poll(G, x) \cup O_field(G, x) \cup O_nested(G, x) \cup O_ref(G, x)
                \cup (IF u THEN O_parent(G, x) ELSE {})
RECURSIVE Close(_, _, _)
Close(G, u, S) == LET T == S \cup UNION {Out(G, u, x) : x \in S} IN IF T = S THEN S ELSE Close(G, u, T)

\* proto files of the target package: every top-level type lives in exactly one file ("enums" <- "common" <- "sel" is the only
\* import direction; all services are declared in "sel"); a nested type lives where its outermost enclosing message lives
RECURSIVE TopOf(_, _)
TopOf(G, t) == IF \E e \in G.parent : e.c = t THEN TopOf(G, (CHOOSE e \in G.parent : e.c = t).p) ELSE t
Tops(G) == {t \in Types(G) : ~\E e \in G.parent : e.c = t}
FileOf(G, t) == (CHOOSE r \in G.files : r.t = TopOf(G, t)).f
Files(G) == {r.f : r \in G.files}
SvcFileOf(G, sv) == (CHOOSE r \in G.svcfiles : r.s = sv).f      \* services are declared in "sel" or in "svc2" (imports all others)
FileRank(f) == CASE f = "enums" -> 0 [] f = "common" -> 1 [] f = "sel" -> 2 [] OTHER -> 3

\* well-formed graphs ("descriptor sets protoc would accept", as far as this abstraction can say)
WF(G) == /\ G.msgs \cap G.enums = {} /\ Types(G) \cap G.deps = {} /\ RpcNames(G) \cap (Types(G) \cup G.deps) = {}
         /\ \A e \in G.parent : e.c \in Types(G) /\ e.p \in G.msgs
         /\ \A f \in G.fields : f.m \in G.msgs /\ f.t \in Types(G) \cup G.deps
         /\ \A f \in G.refs : f.m \in G.msgs \cup G.deps /\ \E d \in G.res : d.r = f.r
         /\ \A d \in G.res : d.m = "" \/ d.m \in G.msgs
         /\ \A r \in G.rpcs : /\ r.inp \in G.msgs \cup G.deps /\ r.out \in G.msgs \cup G.deps
                              /\ (r.kind = "lro" => r.out = OpT /\ r.resp \in G.msgs /\ r.meta \in G.msgs)
                              /\ (r.opsvc # "" => PollOf(G, r.opsvc) # {})
         /\ \A r1, r2 \in G.rpcs : RpcName(r1) = RpcName(r2) => r1 = r2
         /\ {G.order[i] : i \in 1..Len(G.order)} = Svcs(G) /\ Len(G.order) = Cardinality(Svcs(G))
         /\ {r.t : r \in G.files} = Tops(G) /\ Cardinality(G.files) = Cardinality(Tops(G))
         /\ \A f \in G.fields : f.t \in Types(G) => FileRank(FileOf(G, f.m)) >= FileRank(FileOf(G, f.t))     \* no import cycle
         /\ {r.s : r \in G.svcfiles} = Svcs(G) /\ Cardinality(G.svcfiles) = Cardinality(Svcs(G))
         /\ \A r \in G.rpcs : \A t \in {r.inp, r.out} : t \in Types(G) => FileRank(SvcFileOf(G, r.s)) >= FileRank(FileOf(G, t))

-----------------------------------------------------------------------------
(* The input space: a parametric family of graphs.  Every slot is one      *)
(* field / annotation whose target TLC chooses.                            *)
Fld(m, t, via) == [m |-> m, t |-> t, via |-> via]
Par(c, p) == [c |-> c, p |-> p]
R(s, n, i, o, k, resp, meta, ops) == [s |-> s, n |-> n, inp |-> i, out |-> o, kind |-> k, resp |-> resp, meta |-> meta, opsvc |-> ops]
Opt(m, t, via) == IF t = "none" THEN {} ELSE {Fld(m, t, via)}

CommonMsgs == {"ReqA", "A", "ReqL", "RespL", "B", "C", "Outer", "Outer.Inner", "Outer.Inner.Deep", "Res", "Unused", "Unused.Sub"}
CommonEnums == {"Kind", "Kind2", "Outer.Kind"}
CommonParent == {Par("Outer.Inner", "Outer"), Par("Outer.Inner.Deep", "Outer.Inner"), Par("Outer.Kind", "Outer"), Par("Unused.Sub", "Unused")}
CommonFields(s) ==
  {Fld("ReqA", "A", "one"), Fld("RespL", "B", "rep"), Fld("Outer", "C", "one"), Fld("Outer.Inner", "Outer.Inner.Deep", "one"),
   Fld("Unused", "Unused.Sub", "one")}
  \cup Opt("A", s.a1, IF s.a1 = "A" THEN "rep" ELSE "one") \cup Opt("A", s.a2, "one")
  \cup Opt("B", s.b, IF s.b = "C" THEN "map" ELSE "one") \cup Opt("C", s.c, IF s.c = "B" THEN "rep" ELSE "one")
  \cup Opt("Res", s.res, "one")
\* "ResDup": the resource type is declared twice (legal, unusual): by its message and again by a file-level
\* resource_definition (which lives in sel.proto, like the one of ex.com/Ghost); a reference still resolves to the message
CommonRes == {[r |-> "ex.com/Res", m |-> "Res"], [r |-> "ex.com/Ghost", m |-> ""]}
ResOf(s) == CommonRes \cup (IF s.ref = "ResDup" THEN {[r |-> "ex.com/Res", m |-> ""]} ELSE {})
RefOf(s) == CASE s.ref \in {"Res", "ResDup"} -> {[m |-> "ReqL", r |-> "ex.com/Res", how |-> "type"]}
              [] s.ref = "ResChild" -> {[m |-> "ReqL", r |-> "ex.com/Res", how |-> "child"]}
              [] s.ref = "Ghost"    -> {[m |-> "ReqL", r |-> "ex.com/Ghost", how |-> "type"]}
              [] OTHER              -> {}

StdGraph(s) ==
  [family |-> "std",
   msgs   |-> CommonMsgs \cup {"ReqO", "Meta"},
   enums  |-> CommonEnums,
   parent |-> CommonParent,
   deps   |-> {OpT, Empty, DepT},
   fields |-> CommonFields(s) \cup {Fld("Meta", "Kind2", "one")},
   res    |-> ResOf(s),
   refs   |-> RefOf(s),
   order  |-> <<"S1", "S2">>,
   rpcs   |-> {R("S1", "GetA", "ReqA", "A", "unary", "", "", ""),
               R("S1", "RunLro", "ReqO", OpT, "lro", s.lro, "Meta", ""),
               R("S1", "ListB", "ReqL", "RespL", "paged", "", "", ""),
               R("S2", "Other", "ReqA", "B", "unary", "", "", ""),
               R("S2", "DropRes", "Res", Empty, "void", "", "", "")}]

\* extended operations: S2.Insert returns the package's own Operation message and names the polling service Ops, which has
\* the polling method Get and one more, ordinary RPC (Delete).  `order` is the declaration order of the services in the
\* proto file (the operation service before or after the service that starts the operation).
ExtGraph(s, ord) ==
  [family |-> "ext",
   msgs   |-> CommonMsgs \cup {"InsReq", "GetOpReq", "DelOpReq", "Operation"},
   enums  |-> CommonEnums \cup {"Operation.Status"},
   parent |-> CommonParent \cup {Par("Operation.Status", "Operation")},
   deps   |-> {Empty, DepT},
   fields |-> CommonFields(s) \cup {Fld("InsReq", "Res", "one"), Fld("Operation", "Operation.Status", "one")},
   res    |-> ResOf(s),
   refs   |-> RefOf(s),
   order  |-> ord,
   rpcs   |-> {R("S1", "GetA", "ReqA", "A", "unary", "", "", ""),
               R("S1", "ListB", "ReqL", "RespL", "paged", "", "", ""),
               R("S2", "Other", "ReqA", "B", "unary", "", "", ""),
               R("S2", "Insert", "InsReq", "Operation", "extop", "", "", "Ops"),
               R("Ops", "Get", "GetOpReq", "Operation", "poll", "", "", ""),
               R("Ops", "Delete", "DelOpReq", Empty, "void", "", "", "")}]
ExtOrders == {<<"S1", "S2", "Ops">>, <<"Ops", "S1", "S2">>}

\* two services whose full names are character-prefixes of one another, both declaring an RPC `Get` (with different
\* request / response types) and one more RPC each; both declaration orders
\* `dreq`: the request of SvAdmin.Get lives in the DEPENDENCY package and carries a resource_reference to the resource message
\* Res of the target package (a dependency type is never emitted, but what it refers to in the target package is needed)
DepReqT == "other.dep.v1.DepReq"
PfxGraph(s, ord, dreq) ==
  [family |-> "pfx",
   msgs   |-> CommonMsgs \cup {"AdmReq", "AdmResp"},
   enums  |-> CommonEnums,
   parent |-> CommonParent,
   deps   |-> {Empty, DepT} \cup (IF dreq THEN {DepReqT} ELSE {}),
   fields |-> CommonFields(s) \cup {Fld("AdmResp", "C", "one")},
   res    |-> ResOf(s),
   refs   |-> RefOf(s) \cup (IF dreq THEN {[m |-> DepReqT, r |-> "ex.com/Res", how |-> "type"]} ELSE {}),
   order  |-> ord,
   rpcs   |-> {R("Sv", "Get", "ReqA", "A", "unary", "", "", ""),
               R("Sv", "ListB", "ReqL", "RespL", "paged", "", "", ""),
               R("SvAdmin", "Get", IF dreq THEN DepReqT ELSE "AdmReq", "AdmResp", "unary", "", "", ""),
               R("SvAdmin", "DropRes", "Res", Empty, "void", "", "", "")}]
\* variants: declaration order of the two services x resource declared once / twice x both services in sel.proto or SvAdmin
\* in a file of its own (svc2.proto)
PfxVariants == {[ord |-> <<"Sv", "SvAdmin">>, ref |-> "Res",    adm |-> "sel",  dreq |-> FALSE],
                [ord |-> <<"SvAdmin", "Sv">>, ref |-> "ResDup", adm |-> "sel",  dreq |-> FALSE],
                [ord |-> <<"Sv", "SvAdmin">>, ref |-> "ResDup", adm |-> "svc2", dreq |-> FALSE],
                [ord |-> <<"SvAdmin", "Sv">>, ref |-> "Res",    adm |-> "svc2", dreq |-> FALSE],
                [ord |-> <<"Sv", "SvAdmin">>, ref |-> "Res",    adm |-> "sel",  dreq |-> TRUE]}
AllInSel(G) == {[s |-> x, f |-> "sel"] : x \in {r.s : r \in G.rpcs}}

\* placement of the top-level types in files.  enums.proto holds the enum Kind2 (variant "enum+msg": also the message Unused,
\* which no RPC reaches, so that the file has something to prune); common.proto holds the largest subset of {B, C, Res} that
\* does not refer back to sel.proto; everything else, and every service, is in sel.proto.
EnumsFile(ef) == {"Kind2"} \cup (IF ef = "enum+msg" THEN {"Unused"} ELSE {})
ClosedFile(G, S, E) == \A f \in G.fields : TopOf(G, f.m) \in S => (f.t \in G.deps \/ TopOf(G, f.t) \in S \cup E)
CommonFile(G, E) == UNION {S \in SUBSET ({"B", "C", "Res"} \cap Types(G)) : ClosedFile(G, S, E)}
Placed(G, ef, sf) ==
  LET E == EnumsFile(ef)  C == CommonFile(G, E) IN
  [family |-> G.family, msgs |-> G.msgs, enums |-> G.enums, parent |-> G.parent, deps |-> G.deps, fields |-> G.fields,
   res |-> G.res, refs |-> G.refs, order |-> G.order, rpcs |-> G.rpcs, svcfiles |-> sf,
   files |-> {[f |-> "enums", t |-> x] : x \in E} \cup {[f |-> "common", t |-> x] : x \in C}
             \cup {[f |-> "sel", t |-> x] : x \in Tops(G) \ (E \cup C)}]

A1 == {"none", "B", "Outer", "Outer.Inner", "A"}          \* plain sharing / whole nest / nested message only (F5) / self recursion
A2 == {"none", "Kind", "Outer.Kind"}                      \* top-level enum / nested enum only (F5)
BB == {"none", "C", "A", "Outer.Inner.Deep"}              \* chain (map field) / cycle A->B->A / deeply nested message only
CC == {"none", "B", DepT}                                 \* cycle B->C->B / dependency package
RF == {"none", "Res", "ResChild", "Ghost", "ResDup"}      \* resource reference: type / child_type / not resolvable to a message / declared twice
LR == {"B", "Outer.Inner", "Meta"}                        \* LRO response type
RS == {"none", "C", "Kind2"}                              \* what the resource message needs

EF == {"enum", "enum+msg"}                                \* what else lives in the proto file of the enum Kind2
Slots(a1, a2, b, c, ref, lro, res, ef) == [a1 : a1, a2 : a2, b : b, c : c, ref : ref, lro : lro, res : res, ef : ef]
SlotSpace ==
  CASE Scope = "small" -> Slots({"B", "Outer", "Outer.Inner"}, {"none", "Outer.Kind"}, {"none", "A"}, {"none"}, {"none", "Res"}, {"B"}, {"none"}, {"enum"})
    [] Scope = "full"  -> Slots({"B", "Outer", "Outer.Inner", "A"}, {"Kind", "Outer.Kind"}, {"C", "Outer.Inner.Deep"}, {"B", DepT}, {"ResChild", "Ghost"},
                                {"Outer.Inner", "Meta"}, {"C", "Kind2"}, {"enum+msg"})
    [] Scope = "all"   -> Slots(A1, A2, BB, CC, RF, LR, RS, EF)
    [] Scope = "ext"   -> Slots({"none", "B"}, {"Kind"}, {"C"}, {"none"}, {"Res"}, {"B"}, {"Kind2"}, {"enum+msg"})
    [] Scope = "pfx"   -> Slots({"B"}, {"Kind"}, {"C"}, {"none"}, {"Res"}, {"B"}, {"Kind2"}, {"enum"})
    [] Scope = "tiny"  -> Slots({"B", "Outer.Inner"}, {"Kind"}, {"C"}, {"B"}, {"Res"}, {"Outer.Inner"}, {"Kind2"}, {"enum+msg"})
    [] OTHER           -> Slots({"B"}, {"Kind"}, {"C"}, {"none"}, {"Res"}, {"B"}, {"none"}, {"enum"})
\* Scope = "pick": the graphs of the whole product ("all") whose index is in Pick (the harness draws the indices from --seed)
A1s == <<"none", "B", "Outer", "Outer.Inner", "A">>
A2s == <<"none", "Kind", "Outer.Kind">>
BBs == <<"none", "C", "A", "Outer.Inner.Deep">>
CCs == <<"none", "B", DepT>>
RFs == <<"none", "Res", "ResChild", "Ghost", "ResDup">>
LRs == <<"B", "Outer.Inner", "Meta">>
RSs == <<"none", "C", "Kind2">>
EFs == <<"enum", "enum+msg">>
FullSize == 5 * 3 * 4 * 3 * 5 * 3 * 3 * 2
PickSlots(i) == [a1 |-> A1s[(i % 5) + 1], a2 |-> A2s[((i \div 5) % 3) + 1], b |-> BBs[((i \div 15) % 4) + 1],
                 c |-> CCs[((i \div 60) % 3) + 1], ref |-> RFs[((i \div 180) % 5) + 1], lro |-> LRs[((i \div 900) % 3) + 1],
                 res |-> RSs[((i \div 2700) % 3) + 1], ef |-> EFs[((i \div 8100) % 2) + 1]]
Std(s) == LET G == StdGraph(s) IN Placed(G, s.ef, AllInSel(G))
Graphs == CASE Scope = "ext"  -> {LET G == ExtGraph(s, o) IN Placed(G, s.ef, AllInSel(G)) : s \in SlotSpace, o \in ExtOrders}
            [] Scope = "pfx"  -> {LET G == PfxGraph([s EXCEPT !.ref = v.ref], v.ord, v.dreq) IN
                                  Placed(G, s.ef, {[s |-> "Sv", f |-> "sel"], [s |-> "SvAdmin", f |-> v.adm]}) : s \in SlotSpace, v \in PfxVariants}
            [] Scope = "pick" -> {Std(PickSlots(i % FullSize)) : i \in Pick}
            [] OTHER          -> {Std(s) : s \in SlotSpace}

\* settings: the service YAML holds a LIST of library_settings entries (blocks), each for one version and listing methods.
\* One record per listed method: [blk: position of its block in the list, ver: version of the block, pkg: version prefix
\* of the method, m: "Svc.Rpc"]
Entry(b, v, p, m) == [blk |-> b, ver |-> v, pkg |-> p, m |-> m]
Good(S) == {Entry(1, TargetVer, TargetVer, m) : m \in S}
GoodAt(b, S) == {Entry(b, TargetVer, TargetVer, m) : m \in S}
BadInOwnBlock == {Entry(1, TargetVer, TargetVer, "S1.Nope"),    \* unknown RPC of a known service
                  Entry(1, TargetVer, TargetVer, "S9.GetA"),    \* unknown service
                  Entry(1, TargetVer, "v2", "S1.GetA")}         \* method carrying another version prefix
\* a block for another version: listing this version's method, or a method of that version (not part of the request)
OtherBlock(b) == {Entry(b, "v2", TargetVer, "S1.GetA"), Entry(b, "v2", "v2", "S1.GetA")}
BadSubsets == {{}, {"S1.GetA"}, {"S1.ListB", "S2.Other"}}
BadChoices ==
  {Good(S) \cup {x} : S \in BadSubsets, x \in BadInOwnBlock}
  \cup {Good(S) \cup {x} : S \in BadSubsets, x \in OtherBlock(2)}                       \* own block first, then the other version's
  \cup {GoodAt(2, S) \cup {x} : S \in BadSubsets \ {{}}, x \in OtherBlock(1)}            \* the other version's block first
  \cup {Good({"S1.GetA"}) \cup GoodAt(2, {m}) : m \in {"S1.GetA", "S1.ListB"}}           \* two blocks for the same version
EntryChoices(G) ==
  IF Scope = "bad"
  THEN BadChoices
  ELSE IF OneByOne     \* confluence run: every interleaving of single-node steps, for at most two listed RPCs
  THEN {Good(S) : S \in {T \in SUBSET RpcNames(G) : Cardinality(T) <= 2}}
  ELSE {Good(S) : S \in SUBSET RpcNames(G)}

Init == /\ g \in Graphs
        /\ entries \in EntryChoices(g)
        /\ mode \in {"prune", "internal"}
        /\ phase = "validate" /\ reach = {} /\ rank = <<>> /\ up = {} /\ rankUp = <<>> /\ step = 0

-----------------------------------------------------------------------------
(* Derived from the settings                                               *)
Listed == {e.m : e \in {x \in entries : x.ver = TargetVer}}
\* only the target version's API is part of the request, so a method of any other version is unknown
Known(e) == e.pkg = TargetVer /\ e.m \in RpcNames(g)
IsBad(e) == ~Known(e) \/ e.pkg # e.ver
\* named rule of the implementation (API.enforce_valid_library_settings: "Duplicate version"), not stated by the property:
\* two blocks for the same version are rejected as well
DupVersion == \E e1, e2 \in entries : e1.blk # e2.blk /\ e1.ver = e2.ver
\* the verdict on an entry depends on the block it stands in, never on the order of the blocks or on other blocks
Bad == (\E e \in entries : IsBad(e)) \/ DupVersion
\* nothing listed for this version: the ordinary full library
Sel == IF Listed = {} THEN "off" ELSE mode

-----------------------------------------------------------------------------
(* Actions                                                                 *)
\* what the validation step does (mutants: no validation; a verdict remembered per selector across the blocks)
Rejects == CASE Mutant = "skip_validation" -> FALSE
             [] Mutant = "memo_selector"   -> DupVersion \/ \E e \in entries : IsBad(e) /\ ~\E d \in entries : d.blk < e.blk /\ d.pkg = e.pkg /\ d.m = e.m
             [] OTHER                      -> Bad
Validate == /\ phase = "validate"
            /\ phase' = IF Rejects THEN "failed"
                        ELSE IF Sel = "prune" THEN "reach" ELSE "closed"
            /\ reach' = IF Rejects \/ Sel # "prune" THEN {} ELSE (IF Mutant = "whole_service" THEN {n \in RpcNames(g) : SvcOf(g, n) \in {SvcOf(g, m) : m \in Listed \cap RpcNames(g)}} ELSE Listed)
            /\ rank' = [x \in reach' |-> 0]
            /\ UNCHANGED <<g, entries, mode, up, rankUp, step>>

\* what the iteration really follows from one node (mutants break one clause each)
StepOut(G, u, x) ==
  CASE Mutant = "skip_nested_enums" -> Out(G, u, x) \ ((O_nested(G, x) \cap G.enums) \ O_field(G, x))
    [] Mutant = "skip_lro_meta"     -> Out(G, u, x) \ ({y \in Nodes(G) : E_lroMeta(G, x, y)} \ (O_io(G, x) \cup {y \in Nodes(G) : E_lroResp(G, x, y)}))
    [] Mutant = "skip_refs"         -> Out(G, u, x) \ (O_ref(G, x) \ O_field(G, x))
    [] Mutant = "skip_poll"         -> Out(G, u, x) \ O_poll(G, x)
    [] Mutant = "parents_only"      -> IF u /\ x \notin reach THEN O_parent(G, x) ELSE Out(G, u, x)
    [] OTHER                        -> Out(G, u, x)
Frontier(u, S) == UNION {StepOut(g, u, x) : x \in S} \ S

\* derivation rank of the nodes added by this step (not recorded in the confluence run: the state would then depend on the
\* order of the steps and not only on the set reached so far)
Stamp == IF OneByOne THEN 0 ELSE step + 1

StepReach == /\ phase = "reach"
             /\ LET F == Frontier(FALSE, reach) IN
                IF F = {} THEN /\ phase' = "up" /\ up' = reach /\ rankUp' = rank
                               /\ UNCHANGED <<reach, rank, step>>
                ELSE \E add \in (IF OneByOne THEN {{x} : x \in F} ELSE {F}) :
                       /\ reach' = reach \cup add
                       /\ rank' = [x \in reach' |-> IF x \in reach THEN rank[x] ELSE Stamp]
                       /\ step' = step + 1
                       /\ UNCHANGED <<phase, up, rankUp>>
             /\ UNCHANGED <<g, entries, mode>>

StepUp == /\ phase = "up"
          /\ LET F == Frontier(TRUE, up) IN
             IF F = {} THEN /\ phase' = "closed" /\ UNCHANGED <<up, rankUp, step>>
             ELSE \E add \in (IF OneByOne THEN {{x} : x \in F} ELSE {F}) :
                    /\ up' = up \cup add
                    /\ rankUp' = [x \in up' |-> IF x \in up THEN rankUp[x] ELSE Stamp]
                    /\ step' = step + 1
                    /\ UNCHANGED phase
          /\ UNCHANGED <<g, entries, mode, reach, rank>>

Publish == /\ phase = "closed" /\ phase' = "done"
           /\ UNCHANGED <<g, entries, mode, reach, rank, up, rankUp, step>>

Next == Validate \/ StepReach \/ StepUp \/ Publish
Spec == Init /\ [][Next]_vars

-----------------------------------------------------------------------------
(* What the property predicts about the generated library                  *)
Closed == phase = "closed"       \* the traversal has terminated ("done" differs from "closed" only in `phase`)
Required  == IF Sel = "prune" THEN reach \cap Types(g) ELSE Types(g)         \* must be kept
Permitted == IF Sel = "prune" THEN up \cap Types(g) ELSE Types(g)            \* may be kept
KeptRpcs  == IF Sel = "prune" THEN reach \cap RpcNames(g) ELSE RpcNames(g)
Public    == IF Sel = "internal" THEN (IF Mutant = "no_underscore" THEN KeptRpcs ELSE Listed) ELSE KeptRpcs
Internal  == KeptRpcs \ Public
KeptSvcs  == IF Mutant = "keep_empty_services" THEN Svcs(g) ELSE {SvcOf(g, n) : n \in KeptRpcs}
HasInternal(s) == \E n \in RpcNames(g) \ Listed : SvcOf(g, n) = s
Prefix(s) == IF Sel = "internal" /\ HasInternal(s) /\ Mutant # "no_base" THEN "Base" ELSE ""
Clients   == UNION {{Prefix(s) \o s \o "Client", Prefix(s) \o s \o "AsyncClient"} : s \in KeptSvcs}

\* "the kept RPCs behave as in the full library": every RPC that is part of the library - in internal mode also the unlisted
\* ones, which are still there under `_name` - must be callable under that name and be observed exactly as the same RPC of
\* the full library (wire path, request, returned value; for an LRO also result() and metadata of the operation)
MustBehave == IF Mutant = "internal_not_exercised" THEN Public ELSE KeptRpcs
CallName(n) == IF n \in Internal THEN "_" ELSE ""        \* prefix of the client method through which RPC n is reached
CallOK(n, underscored, same) == n \in MustBehave /\ (underscored <=> CallName(n) = "_") /\ same

\* a types module per proto file: a file that keeps at least one message OR enum must be emitted (the modules of the kept
\* types that refer to it import it); a file that keeps nothing is not emitted (the file of the services may be)
ReqFiles  == IF Mutant = "files_ignore_enums" THEN {FileOf(g, t) : t \in Required \cap g.msgs} ELSE {FileOf(g, t) : t \in Required}
PermFiles == {FileOf(g, t) : t \in Permitted} \cup {SvcFileOf(g, sv) : sv \in KeptSvcs}

\* verdict predicates, applied to observations by SelectiveTrace
FilesOK(F)     == ReqFiles \subseteq F /\ F \subseteq PermFiles
TypesOK(K)     == Required \subseteq K /\ K \subseteq Permitted
RpcsOK(pub, int) == pub = Public /\ int = Internal
SvcsOK(S)      == S = KeptSvcs
ClientsOK(C)   == C = Clients

\* diagnostics handed to the harness (they name input classes, they are not verdicts)
Orphans == {x \in Required : \E e \in g.parent : e.c = x /\ e.p \notin Required}
RECURSIVE FieldClose(_)
FieldClose(S) == LET T == S \cup {y \in Types(g) : \E x \in S : E_field(g, x, y)} IN IF T = S THEN S ELSE FieldClose(T)
KindOf(x) == IF x \in g.enums THEN "enum" ELSE "message"
Taint == {x \in Required : FieldClose({x}) \cap Orphans # {}}       \* kept types that refer (transitively, by fields) to an orphan
\* an extended-operation RPC whose polling method is not listed (internal mode hides the polling method under `_name`)
PollHidden == {n \in KeptRpcs : \E p \in Internal : E_poll(g, n, p)}
Kinds == <<"io", "lro-response", "lro-metadata", "field", "nested", "resource-reference">>
KindRel(k, x, y) == CASE k = "io" -> E_io(g, x, y) [] k = "lro-response" -> E_lroResp(g, x, y) [] k = "lro-metadata" -> E_lroMeta(g, x, y)
                      [] k = "field" -> E_field(g, x, y) [] k = "nested" -> E_nested(g, x, y) [] OTHER -> E_ref(g, x, y)
Why(y) == SelectSeq(Kinds, LAMBDA k : \E x \in reach : KindRel(k, x, y))

-----------------------------------------------------------------------------
(* Spec |= property (the oracle is checked before it is used)              *)
TypeOK == /\ phase \in {"validate", "reach", "up", "closed", "done", "failed"}
          /\ reach \subseteq Nodes(g) /\ up \subseteq Nodes(g) /\ (phase = "validate" => WF(g))

\* rejected iff a listed method is unknown or carries another version
Inv_Fail == /\ (phase = "failed" => Bad)
            /\ (phase \notin {"validate", "failed"} => ~Bad)
            /\ (phase # "validate" /\ (\E e \in entries : e.pkg # e.ver \/ ~Known(e)) => phase = "failed")
            /\ (phase # "validate" /\ Bad => phase = "failed")
\* the listed RPCs and everything the property's list reaches from them is kept ...
Inv_Seeds == Closed /\ Sel = "prune" => Listed \subseteq reach
Inv_ClosedDown == Closed /\ Sel = "prune" => \A x \in reach, y \in Nodes(g) : Down(g, x, y) => y \in reach
\* ... and nothing kept (in the permitted upper bound) refers outside it, enclosing messages included
Inv_ClosedUp == Closed /\ Sel = "prune" => \A x \in up, y \in Nodes(g) : UpRel(g, x, y) => y \in up
\* least fixed points: every element has a derivation from the listed RPCs by strictly earlier elements
Inv_Least == Closed /\ Sel = "prune" /\ ~OneByOne =>
               /\ \A y \in reach : y \in Listed \/ \E x \in reach : rank[x] < rank[y] /\ Down(g, x, y)
               /\ \A y \in up : y \in Listed \/ \E x \in up : rankUp[x] < rankUp[y] /\ UpRel(g, x, y)
\* the iteration agrees with the independent recursive definition
Inv_Decl == Closed /\ Sel = "prune" => reach = Close(g, FALSE, Listed) /\ up = Close(g, TRUE, Listed)
Inv_Interval == phase \in {"closed", "done"} => Required \subseteq Permitted /\ reach \subseteq up
\* monotone in M (one element at a time; every M is a case, so this gives M2 \subseteq M => Reach(M2) \subseteq Reach(M) by induction)
Inv_Mono == Closed /\ Sel = "prune" => \A m \in Listed : Close(g, FALSE, Listed \ {m}) \subseteq reach /\ Close(g, TRUE, Listed \ {m}) \subseteq up
\* exactly the listed RPCs plus polling methods that a kept extended-operation RPC needs
Inv_Rpcs == Closed /\ Sel = "prune" =>
              /\ Listed \subseteq KeptRpcs
              /\ \A n \in KeptRpcs \ Listed : \E m \in KeptRpcs : E_poll(g, m, n)
              /\ Internal = {}
\* services with no kept RPC disappear; every other service has its two clients
Inv_Svcs == Closed => /\ \A s \in Svcs(g) : s \in KeptSvcs <=> \E n \in KeptRpcs : SvcOf(g, n) = s
                      /\ Cardinality(Clients) = 2 * Cardinality(KeptSvcs)
\* dependency packages are not part of the kept set of the target package; unrelated types may not be kept
Inv_Deps == Closed => Permitted \cap g.deps = {}
Inv_Unrelated == Closed /\ Sel = "prune" => \A t \in Types(g) \ Permitted : ~\E x \in up : UpRel(g, x, t)
\* generate_omitted_as_internal: nothing omitted, unlisted RPCs internal, their services' clients get Base
Inv_Internal == Closed /\ Sel = "internal" =>
                  /\ Required = Types(g) /\ KeptRpcs = RpcNames(g) /\ KeptSvcs = Svcs(g)
                  /\ Public = Listed /\ Internal = RpcNames(g) \ Listed
                  /\ \A s \in Svcs(g) : (\E n \in Internal : SvcOf(g, n) = s) <=> (Prefix(s) = "Base")
\* ... and an internal RPC is still an RPC of the library: every RPC of the full surface stays callable, the unlisted ones
\* under the underscored name, with the behaviour of the full library (an LRO whose service has no listed LRO included)
Inv_InternalStillWorks == Closed /\ Sel = "internal" =>
                            /\ MustBehave = RpcNames(g)
                            /\ \A n \in RpcNames(g) : (CallName(n) = "_") <=> (n \notin Listed)
                            /\ \A n \in RpcNames(g) : CallOK(n, n \notin Listed, TRUE)
Inv_Behave == Closed => MustBehave = Public \cup Internal /\ Listed \cap RpcNames(g) \subseteq MustBehave
\* the emitted modules are closed under "is imported by": whatever a kept type refers to lives in an emitted module, also when
\* a file keeps nothing but enums; without pruning every file is emitted
Inv_Files == Closed => /\ ReqFiles \subseteq PermFiles
                       /\ \A x \in Required : FileOf(g, x) \in ReqFiles
                       /\ \A x \in Required, y \in Types(g) : E_field(g, x, y) => FileOf(g, y) \in ReqFiles
                       /\ (Sel # "prune" => ReqFiles = Files(g))
Inv_Off == Closed /\ Sel = "off" => Required = Types(g) /\ Public = RpcNames(g) /\ Internal = {} /\ \A s \in Svcs(g) : Prefix(s) = ""

-----------------------------------------------------------------------------
(* spec -> code: one case per final state with the observables the specification predicts *)
Case == [graph |-> g, entries |-> entries, listed |-> Listed, mode |-> mode, sel |-> Sel,
         expect |-> IF phase = "failed"
                    THEN [fail |-> TRUE, reach |-> {}, reachUp |-> {}, files |-> {}, filesUp |-> {}, enumOnlyFiles |-> {}, public |-> {}, internal |-> {}, svcs |-> {}, clients |-> {},
                          orphans |-> {}, taint |-> {}, pollHidden |-> {}, mustBehave |-> {}, why |-> {}]
                    ELSE [fail |-> FALSE, reach |-> Required, reachUp |-> Permitted, files |-> ReqFiles, filesUp |-> PermFiles,
                          enumOnlyFiles |-> {f \in ReqFiles : \A t \in Required : FileOf(g, t) = f => t \in g.enums}, public |-> Public, internal |-> Internal,
                          svcs |-> KeptSvcs, clients |-> Clients, orphans |-> {[t |-> x, kind |-> KindOf(x)] : x \in Orphans}, taint |-> Taint,
                          pollHidden |-> PollHidden, mustBehave |-> MustBehave,
                          why |-> IF Sel = "prune" THEN {[t |-> y, kinds |-> Why(y)] : y \in Required} ELSE {}]]
Emit == phase \in {"done", "failed"} => PrintT(<<"CASE", ToJson(Case)>>)
=============================================================================
