CONSTANTS
  Mutant = "none"
  Lvals = {"x"}
  LoopVals = {"y"}
  Roots = {"$resp", "x"}
  RootSels = {"none"}
  Attrs1 = {}
  Sels1 = {"none"}
  Attrs2 = {}
  Len2 = 1
  Kinds = {"define", "print"}
  LoopForms = {}
  ReqKeys = {"name", "name/p=x", "count/p=x", "count/p=y", "name/p=class", "name/p=print", "name/p=items", "name/p=$resp", "view=RED", "view=GREEN", "view.x", "name.x", "item.name", "item.leaf.tag", "item", "item.nope", "nope", "parent", "parent%project", "parent%shelf", "parent%folder", "parent%shelf/p=y", "orphan%x", "item%x", "nope%x", "novalue", "nofield", "spurious"}
  MaxReq = 2
  MaxLen = 1
  MaxDepth = 0
SPECIFICATION SpecEmit
INVARIANT Emit
