CONSTANTS MinVars = 1 MaxVars = 2 MaxLen = 3
  Seps = {"/", "-", "_", "~", "."} Letters = {"a", "b"} ValueSeps = {".", "/"}
  Tails = {"plain", "multi", "single"} Leads = {TRUE, FALSE} WithCommon = TRUE WithWild = TRUE
  Perturbs = {"del", "app", "pre"} ValueMode = "all" Part = "paths" VRes = {} NaiveMax = 0 Mutant = "none"
SPECIFICATION Spec
INVARIANT TypeOK
INVARIANT Inv_PatternWF
INVARIANT Inv_RoundTrip
INVARIANT Inv_Inverse
INVARIANT Inv_NoMatch
INVARIANT Inv_InDom
INVARIANT Inv_Wild
INVARIANT Inv_Multi
INVARIANT Inv_Unique
