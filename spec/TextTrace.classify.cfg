\* classify: total verdicts in one run (REJECT lines), see TextTrace.tla
CONSTANTS
  Fns = {"wrap", "rst", "fixws", "embed"}
  Alphabet = {"w3", "w9", "long", "sp", "sps", "tab", "nl", "blank", "li", "star", "plus", "num", "colon", "quote", "tquote", "bslash"}
  MinLen = 0
  MaxLen = 0
  Widths = {}
  Indents = {}
  Offsets = {}
  RstWidths = {}
  RstIndents = {}
  Kinds = {}
  Gaps = {}
  MaxItems = 0
  MaxLvl = 0
  Origins = {}
  Mutant = "none"
SPECIFICATION TSpec
CONSTRAINT Progress
POSTCONDITION Accepted
CHECK_DEADLOCK FALSE
