CONSTANTS MaxK = 9 Values = {1} Codes = {1} Insts = {1} Scope = "all" Mutant = "none"
SPECIFICATION TSpec
CONSTRAINT Progress
INVARIANT Inv_Reject
INVARIANT Inv_RejectKind
INVARIANT Inv_Resolved
INVARIANT Inv_Plain
INVARIANT Inv_FutureKind
INVARIANT Inv_OneStart
INVARIANT Inv_Polls
INVARIANT Inv_SameChannel
INVARIANT Inv_Result
INVARIANT Inv_Metadata
INVARIANT Inv_Error
POSTCONDITION Accepted
CHECK_DEADLOCK FALSE
