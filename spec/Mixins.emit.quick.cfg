CONSTANTS Scope = "quick" Mutant = "none"
SPECIFICATION Spec
INVARIANT Emit
CONSTRAINT EmitOnly
