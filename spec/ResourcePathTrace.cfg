CONSTANTS MinVars = 1 MaxVars = 9 MaxLen = 9
  Seps = {"/", "-", "_", "~", "."} Letters = {"a", "b"} ValueSeps = {"/", "-", "_", "~", "."}
  Tails = {"plain", "multi", "single"} Leads = {TRUE, FALSE} WithCommon = TRUE WithWild = TRUE
  Perturbs = {} ValueMode = "all" Part = "paths" VRes = {} NaiveMax = 0 Mutant = "none"
SPECIFICATION TSpec
CONSTRAINT Progress
INVARIANT TypeOK
INVARIANT Inv_PatternWF
INVARIANT Inv_RoundTrip
INVARIANT Inv_Inverse
INVARIANT Inv_NoMatch
INVARIANT Inv_InDom
INVARIANT Inv_Wild
INVARIANT Inv_Multi
INVARIANT Inv_Unique
POSTCONDITION Accepted
CHECK_DEADLOCK FALSE
