CONSTANTS MaxPages = 9 MaxSize = 9 Mutant = "none"
SPECIFICATION TSpec
CONSTRAINT Progress
INVARIANT Inv_Once
INVARIANT Inv_Order
INVARIANT Inv_Tokens
INVARIANT Inv_Unchanged
INVARIANT Inv_Stop
INVARIANT Inv_NoOverrun
INVARIANT Inv_Attr
POSTCONDITION Accepted
CHECK_DEADLOCK FALSE
