CONSTANTS MaxK = 3 Values = {2} Codes = {5} Insts = {1} Scope = "all" Mutant = "none"
SPECIFICATION Spec
INVARIANT Emit
