CONSTANTS
  Mutant = "none"
  Lvals = {"x", "class"}
  LoopVals = {"y"}
  Roots = {"$resp", "x"}
  RootSels = {"none"}
  Attrs1 = {"items", "by_name"}
  Sels1 = {"none"}
  Attrs2 = {}
  Len2 = 1
  Kinds = {"define", "print", "comment", "write_file", "invalid", "loop"}
  LoopForms = {{"collection", "variable", "body"}, {"map", "key", "body"}, {"map", "body"}}
  ReqKeys = {"name/p=x", "parent%project"}
  MaxReq = 1
  MaxLen = 2
  MaxDepth = 1
SPECIFICATION SpecT
INVARIANT Inv_Type
INVARIANT Inv_Verdict
INVARIANT Inv_ReadsDefined
INVARIANT Inv_LexicalScope
INVARIANT Inv_LoopVarLeaves
INVARIANT Inv_NoRedefinition
INVARIANT Inv_Reserved
INVARIANT Inv_Binds
INVARIANT Inv_LoopForm
INVARIANT Inv_FormatArity
INVARIANT Inv_NoInvalid
INVARIANT Inv_ErrSound
INVARIANT Inv_Request
PROPERTY Live
