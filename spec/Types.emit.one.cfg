CONSTANT Reserved = {"False", "None", "True", "__peg_parser__", "all", "and", "any", "as", "assert", "async", "await", "break", "breakpoint", "class", "cls", "continue", "def", "del", "dir", "elif", "else", "except", "exec", "finally", "for", "format", "from", "global", "hash", "help", "if", "ignore_unknown_fields", "import", "in", "is", "lambda", "license", "list", "locals", "mapping", "max", "min", "next", "nonlocal", "not", "object", "open", "or", "pass", "raise", "range", "return", "self", "slice", "try", "type", "while", "with", "yield", "zip"}
CONSTANTS Scope = "one" MaxFields = 1 MaxOps = 1 Mutant = "none"
SPECIFICATION Spec
INVARIANT Emit
INVARIANT Inv_WF
INVARIANT Inv_SameFields
INVARIANT Inv_Attr
INVARIANT Inv_AttrDistinct
INVARIANT Inv_RoundTripOut
INVARIANT Inv_RoundTripIn
INVARIANT Inv_Presence
INVARIANT Inv_OneofExclusive
INVARIANT Inv_Json
INVARIANT Inv_Enum
INVARIANT Inv_Manifest
