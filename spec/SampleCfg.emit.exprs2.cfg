CONSTANTS
  Mutant = "none"
  Lvals = {"x"}
  LoopVals = {"y"}
  Roots = {"$resp", "x"}
  RootSels = {"none", "idx"}
  Attrs1 = {"items", "by_name", "first", "tags", "title", "color"}
  Sels1 = {"none", "idx", "key"}
  Attrs2 = {"name", "subs", "value"}
  Len2 = 1
  Kinds = {"define", "print"}
  LoopForms = {}
  ReqKeys = {}
  MaxReq = 0
  MaxLen = 2
  MaxDepth = 0
SPECIFICATION SpecEmit
INVARIANT Emit
