CONSTANTS
  Rotations = {0, 22, 24}
  Widths = {1}
  TransportSets = {{"grpc"}, {"rest"}, {"grpc", "rest"}}
  Namings = {"svchost"}
  NSvcs = {2}
  ReqPkgs = {"own"}
  Flattens = {FALSE}
  FormSet = {"unary", "paged", "lro", "sstream", "cstream", "bidi", "void"}
  MaxCode = 1
  AnyOrder = FALSE
  Mutant = "none"
SPECIFICATION Spec
INVARIANT Inv_TagsDistinct
INVARIANT Inv_TagForm
INVARIANT Inv_Inventory
INVARIANT Inv_NoExtra
INVARIANT Inv_Full
INVARIANT Inv_Segments
INVARIANT Inv_Cover
INVARIANT Inv_Index
INVARIANT Inv_Embed
INVARIANT Inv_Exec
INVARIANT Inv_NoRaise
