CONSTANTS Mutant = "none" NPs = {3, 4} MaxPos = 5 MaxArgs = 5 MaxArgsOther = 2 MaxKwFixed = 3
SPECIFICATION Spec
INVARIANT TypeOK
INVARIANT Inv_FieldsByName
INVARIANT Inv_ControlKept
INVARIANT Inv_NothingLost
INVARIANT Inv_Shape
INVARIANT Inv_Idempotent
INVARIANT Inv_Untouched
INVARIANT Inv_EvalOrderFieldsFirst
INVARIANT Inv_EvalOrderCanonical
PROPERTY Live
