----------------------------- MODULE TypesTrace -----------------------------
(***************************************************************************)
(* Batched trace validation for Types (code -> spec).  TRACE_FILE holds    *)
(*   [ {kind, path, msgs, enums, fields, values, tops, events} .. ]        *)
(* one object per emitted class (kind "val"), enum (kind "enum") or types  *)
(* module (kind "file").  The header is the projection of the INPUT        *)
(* descriptor (shape); the events are what the harness driver observed of  *)
(* the emitted class:                                                      *)
(*   declare      projection of the runtime descriptor of the class        *)
(*   op           set / clear / append / put on an instance, `seen` = the  *)
(*                valuation read by the input descriptor from its bytes    *)
(*   encode       field numbers found in Class.serialize(instance)         *)
(*   decode_in    valuation read by the input descriptor                   *)
(*   json         keys of Class.to_json(instance)                          *)
(*   encode_in    field numbers written by the input descriptor            *)
(*   decode_gen   valuation read back through the Python attributes of     *)
(*                Class.deserialize(bytes)                                 *)
(*   declare_enum members of the emitted Enum class                        *)
(*   manifest     __protobuf__.manifest, __all__, names exported by types  *)
(* Every action is  IsEvent(name) /\ <spec action> /\ <logged fields =     *)
(* primed variables>,  so each invariant of Types is evaluated after every *)
(* recorded step of the real code.                                         *)
(***************************************************************************)
EXTENDS Types, IOUtils, TLCExt
VARIABLES tid, l
Traces == JsonDeserialize(IOEnv.TRACE_FILE)
N == Len(Traces)
tvars == <<vars, tid, l>>
Ev == Traces[tid].events

SubjectOf(t) == CASE Traces[t].kind = "val" -> "message" [] Traces[t].kind = "enum" -> "enum" [] OTHER -> "file"
ShOf(t) == [path |-> Traces[t].path, msgs |-> Range(Traces[t].msgs), enums |-> Range(Traces[t].enums)]
DeclFrom(d) == [path |-> d.path, msgs |-> Range(d.msgs), enums |-> Range(d.enums), fields |-> d.fields]

ResetFor(t) == /\ subject' = SubjectOf(t) /\ ctx' = NoCtx /\ sh' = ShOf(t) /\ fields' = Traces[t].fields
               /\ pend' = Blank /\ pstage' = 0 /\ phase' = "build"
               /\ evals' = Traces[t].values /\ tops' = Range(Traces[t].tops)
               /\ gdecl' = NoDecl /\ ops' = <<>> /\ want' = <<>> /\ obj' = <<>> /\ wire' = <<>> /\ back' = <<>> /\ jkeys' = {}
               /\ wire2' = <<>> /\ gen' = <<>> /\ genum' = {} /\ manifest' = {}
TInit == /\ tid = 1 /\ l = 1 /\ TLCSet(1, 0) /\ TLCSet(2, <<0, 0>>)
         /\ subject = SubjectOf(1) /\ ctx = NoCtx /\ sh = ShOf(1) /\ fields = Traces[1].fields
         /\ pend = Blank /\ pstage = 0 /\ phase = "build"
         /\ evals = Traces[1].values /\ tops = Range(Traces[1].tops)
         /\ Quiet

IsEvent(e) == tid <= N /\ l <= Len(Ev) /\ Ev[l].ev = e /\ l' = l + 1 /\ tid' = tid
TDeclare   == IsEvent("declare") /\ Generate /\ gdecl' = DeclFrom(Ev[l].decl)
TOp        == IsEvent("op") /\ Op(Ev[l].o) /\ Norm(InFields, want') = Ev[l].seen
TEncode    == IsEvent("encode") /\ Encode /\ DOMAIN wire' = Range(Ev[l].nums)
TDecodeIn  == IsEvent("decode_in") /\ DecodeByInput /\ back' = Ev[l].val
\* the keys are taken as logged; Inv_Json decides (which defaulted fields are printed is not part of the property)
TJson      == /\ IsEvent("json") /\ subject = "message" /\ phase = "decoded"
              /\ jkeys' = Range(Ev[l].keys) /\ phase' = "json"
              /\ UNCHANGED <<subject, ctx, sh, fields, pend, pstage, gdecl, ops, want, obj, wire, back, wire2, gen,
                             evals, genum, tops, manifest>>
TEncodeIn  == IsEvent("encode_in") /\ EncodeByInput /\ DOMAIN wire2' = Range(Ev[l].nums)
TDecodeGen == IsEvent("decode_gen") /\ DecodeGen /\ gen' = Ev[l].val
TDeclareEnum == IsEvent("declare_enum") /\ GenerateEnum
                /\ genum' = { <<Ev[l].members[i].name, Ev[l].members[i].number>> : i \in 1..Len(Ev[l].members) }
TManifest  == IsEvent("manifest") /\ GenerateModule
              /\ manifest' = Range(Ev[l].names) /\ Range(Ev[l].all) = manifest' /\ manifest' \subseteq Range(Ev[l].exported)
\* a trace ends after the whole round trip, or right after the declaration (classes without a valuation script)
Terminal == phase = "done" \/ (subject = "message" /\ phase = "ready" /\ ops = <<>>)
TNextTrace == /\ tid <= N /\ l = Len(Ev) + 1 /\ Terminal
              /\ TLCSet(1, tid)
              /\ tid' = tid + 1 /\ l' = 1
              /\ IF tid + 1 <= N THEN ResetFor(tid + 1) ELSE UNCHANGED vars
TNext == TDeclare \/ TOp \/ TEncode \/ TDecodeIn \/ TJson \/ TEncodeIn \/ TDecodeGen \/ TDeclareEnum \/ TManifest \/ TNextTrace
TSpec == TInit /\ [][TNext]_tvars
Progress == TLCSet(2, <<tid, l>>)          \* CONSTRAINT: remembers how far the batch got (workers 1)
Accepted == PrintT(<<"ACCEPTED", TLCGet(1)>>) /\ PrintT(<<"REACHED", TLCGet(2)>>) /\ TLCGet(1) = N
=============================================================================
