CONSTANT Scope = "names"
SPECIFICATION Spec
INVARIANT Emit
