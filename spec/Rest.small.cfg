CONSTANTS
  Verbs = {"get", "post"}
  Rotate = TRUE
  PathIds = {"none", "name2", "in2"}
  Bodies = {"", "*", "inner"}
  MaxExtra = 1
  ReqSetIds = {"names", "mixed"}
  PathValIds = {"i2", "s2"}
  VarLeaves = {"name", "inner.name", "kind", "r_string", "opt_s"}
  Numerics = {FALSE, TRUE}
  RespTypes = {"A"}
  ReplyIds = {"full"}
  Calls = 1
  Mutant = "none"
SPECIFICATION Spec
INVARIANT Inv_Instantiates
INVARIANT Inv_FirstWins
INVARIANT Inv_Rejected
INVARIANT Inv_Refused
INVARIANT Inv_OneRequest
INVARIANT Inv_NoLoss
INVARIANT Inv_NoDup
INVARIANT Inv_BodyStar
INVARIANT Inv_BodyField
INVARIANT Inv_BodyAbsent
INVARIANT Inv_QueryExact
INVARIANT Inv_RequiredTravel
INVARIANT Inv_Names
INVARIANT Inv_Alt
INVARIANT Inv_Reply
