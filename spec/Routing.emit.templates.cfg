CONSTANTS MaxParams = 1 MaxVars = 1 Pool = "large" MaxCalls = 1 OptFields = {} MaxPages = 1 Mutant = "none"
SPECIFICATION Spec
INVARIANT Emit
