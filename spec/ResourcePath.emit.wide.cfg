CONSTANTS MinVars = 1 MaxVars = 6 MaxLen = 3
  Seps = {"/", "-", "_", "~", "."} Letters = {"a", "b"} ValueSeps = {".", "/"}
  Tails = {"plain", "multi", "single"} Leads = {TRUE} WithCommon = FALSE WithWild = TRUE
  Perturbs = {"trunc", "junk"} ValueMode = "probe2" Part = "paths" VRes = {} NaiveMax = 0 Mutant = "none"
SPECIFICATION Spec
INVARIANT Emit
