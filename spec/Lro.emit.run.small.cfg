CONSTANTS MaxK = 3 Values = {2} Codes = {5} Insts = {1, 2} Scope = "run" Mutant = "none"
SPECIFICATION Spec
INVARIANT Emit
