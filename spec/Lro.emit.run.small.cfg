CONSTANTS MaxK = 3 Values = {2} Codes = {5} Scope = "run" Mutant = "none"
SPECIFICATION Spec
INVARIANT Emit
