CONSTANTS
  Rotations = {0, 1, 2, 3, 4, 5, 6, 7, 8, 9, 10, 11, 12, 13, 14, 15, 16, 17, 18, 19, 20, 21, 22, 23, 24, 25, 26, 27, 28, 29, 30}
  Widths = {1}
  TransportSets = {{"grpc"}, {"rest"}, {"grpc", "rest"}}
  Namings = {"plain"}
  NSvcs = {1}
  ReqPkgs = {"own", "dep"}
  Flattens = {FALSE}
  FormSet = {"unary", "paged", "lro", "sstream", "cstream", "bidi", "void"}
  MaxCode = 1
  AnyOrder = FALSE
  Mutant = "none"
SPECIFICATION Spec
INVARIANT Emit
