-------------------------------- MODULE Names --------------------------------
(***************************************************************************)
(* C12: reserved-word and colliding names.  The space is finite: every     *)
(* word of the generator's reserved list and every Python keyword, in      *)
(* every position the property names.  Identifiers are table entries (TLC  *)
(* does not manipulate characters): the harness reads the word lists from  *)
(* /repo at run time, writes them as MC_Names constants, and refuses to    *)
(* run (machinery failure) if they differ from the lists checked in here.  *)
(*                                                                         *)
(* For a case (word, position) the library must import, the entity must be *)
(* reachable under  word \o "_"  everywhere in the surface, and the wire   *)
(* (proto field name, JSON name, RPC path, HTTP path, routing key) keeps   *)
(* the original word.                                                      *)
(***************************************************************************)
EXTENDS Naturals, Sequences, FiniteSets, TLC, Json

CONSTANTS Reserved,     \* gapic.utils.reserved_names.RESERVED_NAMES
          Keywords,     \* keyword.kwlist
          Mutant

ControlParams == {"metadata", "retry", "timeout", "request"}
FieldPositions == {"top_field", "nested_field", "flattened_param", "http_path_top", "http_path_dotted", "http_body", "routing_field",
                   "flattened_dotted",     \* method_signature entry "inner.<word>": the parameter is <word>_, it sets request.inner.<word>_
                   "http_path_sibling",
                   "http_path_head",       \* uri "{<word>.other=items/*}": the word is the LEADING segment of a dotted variable (request.<word>_.other)
                   "http_body_additional", \* body: "<word>" on the primary AND on an additional binding; the request matches only the latter
                   "routing_template"}     \* explicit routing parameter with a path template naming the segment {<word>=items/*}: the header KEY stays <word>    \* uri ".../{<word>_id=*}/...{<word>=items/*}": only the variable NAMED <word> is rewritten
Positions == FieldPositions \cup {"rpc_name", "proto_file"}

\* which words make sense in which position
WordsAt(p) == CASE p \in FieldPositions -> Reserved \cup Keywords
                [] p = "rpc_name"       -> {w \in Keywords : w \notin {"False", "None", "True"}}     \* RPC "Import" -> method import_
                [] OTHER                -> {w \in Keywords : w \notin {"False", "None", "True"}} \cup ControlParams
Cases == {<<w, p>> : w \in (Reserved \cup Keywords \cup ControlParams), p \in Positions} \cap {c \in (Reserved \cup Keywords \cup ControlParams) \X Positions : c[1] \in WordsAt(c[2])}

VARIABLES word, pos, surface, wire, stage
vars == <<word, pos, surface, wire, stage>>

Suffix(w) == IF Mutant = "double_suffix" THEN w \o "__" ELSE w \o "_"
Init == /\ \E c \in Cases : word = c[1] /\ pos = c[2]
        /\ surface = "" /\ wire = "" /\ stage = "declared"
Disambiguate == /\ stage = "declared"
                /\ surface' = Suffix(word)
                /\ wire' = IF Mutant = "wire_suffixed" /\ pos = "http_body" THEN Suffix(word) ELSE word
                /\ stage' = "named" /\ UNCHANGED <<word, pos>>
Next == Disambiguate
Spec == Init /\ [][Next]_vars /\ WF_vars(Next)

Inv_OneUnderscore == stage = "named" => surface = word \o "_"
Inv_WireOriginal == stage = "named" => wire = word
\* suffixing never maps two different words of one scope to the same surface name
Inv_Injective == \A a, b \in Reserved \cup Keywords : a # b => (a \o "_") # (b \o "_")
\* ... and the suffixed name is not itself a reserved word (no second clash)
Inv_NoReclash == \A a \in Reserved \cup Keywords : (a \o "_") \notin (Reserved \cup Keywords)
Live == <>(stage = "named")
Case == [word |-> word, position |-> pos, surface |-> surface, wire |-> wire]
Emit == stage = "named" => PrintT(<<"CASE", ToJson(Case)>>)
=============================================================================
