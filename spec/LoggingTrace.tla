---------------------------- MODULE LoggingTrace ----------------------------
(***************************************************************************)
(* Batched trace validation for Logging (code -> spec).  TRACE_FILE holds  *)
(*   [ {transport, kind, status, md, reqv, replyv, mode,                   *)
(*      events: [{ev, payload, rpc, md: [[k, v]..], logger, calls}..]} ..] *)
(* one trace per call of the real emitted client in ONE logging mode:      *)
(*   logreq / logresp  the records captured by a logging.Handler on the    *)
(*                     package logger (projected to the spec's tokens),    *)
(*   served            the request arriving at the loopback server,        *)
(*   return            what the caller got (+ number of channel calls),    *)
(* ordered by a per-process sequence number.  Only the run of the trace's  *)
(* mode moves; Enter is not observable from outside and is taken silently. *)
(* Total = FALSE: the batch stops at the first trace no action accepts     *)
(* (README convention).  Total = TRUE: such a trace is reported with       *)
(* <<"REJECTED", tid, l>> and the batch goes on (total verdicts, one run). *)
(***************************************************************************)
EXTENDS Logging, IOUtils, TLCExt
CONSTANT Total
VARIABLES tid, l
Traces == JsonDeserialize(IOEnv.TRACE_FILE)
N == Len(Traces)
tvars == <<vars, tid, l>>
Ev == Traces[tid].events
M == Traces[tid].mode

Pairs(a) == {<<a[i][1], a[i][2]>> : i \in DOMAIN a}
AsEntry(e) == Entry(e.ev, e.payload, e.rpc, Pairs(e.md), e.logger)
LastOf(s) == s[Len(s)]

TInit == /\ tid = 1 /\ l = 1 /\ TLCSet(1, 0) /\ TLCSet(2, <<0, 0>>)
         /\ transport = Traces[1].transport /\ kind = Traces[1].kind /\ status = Traces[1].status
         /\ md = Traces[1].md /\ reqv = Traces[1].reqv /\ replyv = Traces[1].replyv
         /\ phase = [m \in Modes |-> "start"] /\ hist = [m \in Modes |-> <<>>] /\ calls = [m \in Modes |-> 0]
ResetFor(t) == /\ transport' = Traces[t].transport /\ kind' = Traces[t].kind /\ status' = Traces[t].status
               /\ md' = Traces[t].md /\ reqv' = Traces[t].reqv /\ replyv' = Traces[t].replyv
               /\ phase' = [m \in Modes |-> "start"] /\ hist' = [m \in Modes |-> <<>>] /\ calls' = [m \in Modes |-> 0]

IsEvent(e) == tid <= N /\ l <= Len(Ev) /\ Ev[l].ev = e /\ l' = l + 1 /\ tid' = tid
Logged == LastOf(hist'[M]) = AsEntry(Ev[l])
TEnter   == tid <= N /\ Enter(M) /\ UNCHANGED <<tid, l>>
TLogReq  == IsEvent("logreq") /\ LogRequest(M) /\ Logged
TServed  == IsEvent("served") /\ Continue(M) /\ Logged
TLogResp == IsEvent("logresp") /\ LogResponse(M) /\ Logged
TReturn  == IsEvent("return") /\ Return(M) /\ Logged /\ calls'[M] = Ev[l].calls
TStep == TEnter \/ TLogReq \/ TServed \/ TLogResp \/ TReturn

Terminal == l = Len(Ev) + 1 /\ Done(M)
Advance == /\ TLCSet(1, tid) /\ tid' = tid + 1 /\ l' = 1
           /\ IF tid + 1 <= N THEN ResetFor(tid + 1) ELSE UNCHANGED vars
TNextTrace == tid <= N /\ Terminal /\ Advance
TReject == /\ Total /\ tid <= N /\ ~Terminal /\ ~ENABLED TStep
           /\ PrintT(<<"REJECTED", tid, l>>) /\ Advance
TNext == TStep \/ TNextTrace \/ TReject
TSpec == TInit /\ [][TNext]_tvars
Progress == TLCSet(2, <<tid, l>>)          \* CONSTRAINT: remembers how far the batch got (workers 1)
Accepted == PrintT(<<"ACCEPTED", TLCGet(1)>>) /\ PrintT(<<"REACHED", TLCGet(2)>>) /\ TLCGet(1) = N
=============================================================================
