CONSTANTS
  Mutant = "none"
  Lvals = {"x", "class", "print", "response", "items", "$resp"}
  LoopVals = {"y", "for", "list", "x"}
  Roots = {"$resp", "x", "items"}
  RootSels = {"none"}
  Attrs1 = {"items", "by_name", "title"}
  Sels1 = {"none"}
  Attrs2 = {}
  Len2 = 1
  Kinds = {"define", "print", "loop"}
  LoopForms = {{"collection", "variable", "body"}, {"map", "key", "value", "body"}, {"map", "key", "body"}}
  ReqKeys = {"name/p=x", "name/p=items", "name/p=print"}
  MaxReq = 1
  MaxLen = 2
  MaxDepth = 1
SPECIFICATION SpecEmit
INVARIANT Emit
