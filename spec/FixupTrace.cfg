CONSTANTS Mutant = "none" NPs = {3, 4} MaxPos = 5 MaxArgs = 6 MaxArgsOther = 3 MaxKwFixed = 3 Total = FALSE
SPECIFICATION TSpec
CONSTRAINT Progress
INVARIANT Inv_FieldsByName
INVARIANT Inv_ControlKept
INVARIANT Inv_NothingLost
INVARIANT Inv_Shape
INVARIANT Inv_Idempotent
INVARIANT Inv_Untouched
INVARIANT Inv_EvalOrderFieldsFirst
INVARIANT Inv_EvalOrderCanonical
POSTCONDITION Accepted
CHECK_DEADLOCK FALSE
