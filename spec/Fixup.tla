------------------------------- MODULE Fixup -------------------------------
(***************************************************************************)
(* Extension (specification growth, registered in no property): the        *)
(* keyword fix-up script emitted from                                      *)
(*   gapic/templates/scripts/fixup_%name_%version_keywords.py.j2           *)
(* rewrites calls of the LEGACY flattened surface                          *)
(*   def m(self, p1, .., pn, retry=.., timeout=.., metadata=..)            *)
(* into request-object calls  m(request={..}, retry=.., ..)  WITHOUT       *)
(* changing what the call means.                                           *)
(*                                                                         *)
(* A small rewriting machine, one action per step of                       *)
(* <Name>CallTransformer.leave_Call, in its order:                         *)
(*   Lookup -> SplitArgs -> AlreadyFixed -> SplitControl ->                *)
(*   TakePositional -> BuildRequest -> EmitCall            (pass 1)        *)
(*   Again: the result is rewritten once more              (pass 2)        *)
(*                                                                         *)
(* The properties are NOT read off the script: they are Python's own call  *)
(* semantics for the legacy signature (positionals bind in order, keywords *)
(* bind BY NAME) - operator Bound - applied to the ORIGINAL call.          *)
(*                                                                         *)
(* A call is [attr, name, pos, kw, dict]:                                  *)
(*   attr   TRUE for  <expr>.name(..),  FALSE for a plain  name(..)        *)
(*   pos    sequence of argument ids (positional arguments)                *)
(*   kw     sequence of <<keyword, argument id>>                           *)
(*   dict   content of the dict literal written "D" in kw (<<>> if none):  *)
(*          sequence of <<key, argument id>>                               *)
(* Argument ids are a1..a6 in SOURCE order, so the evaluation order of the *)
(* original call is a1, a2, ...                                            *)
(***************************************************************************)
EXTENDS Naturals, Sequences, FiniteSets, TLC, Json

CONSTANTS Mutant,        \* "none" or one of the mutants below (TLC must reject every one of them)
          NPs,           \* numbers of parameters of the method: subset of 3..4
          MaxPos,        \* calls with 0..MaxPos positional arguments
          MaxArgs,       \* at most this many arguments in a call on the known method (<= 6)
          MaxArgsOther,  \* ... in a call on an unknown method / a plain function call
          MaxKwFixed     \* at most this many keywords in a call that has a `request=` keyword

Ctrl == <<"retry", "timeout", "metadata">>          \* CTRL_PARAMS
CtrlSet == {"retry", "timeout", "metadata"}
AllParams == <<"p1", "p2", "p3", "p4">>
ArgIds == <<"a1", "a2", "a3", "a4", "a5", "a6">>
Kinds == {"known", "unknown", "plain"}
Mutants == {"kwargs_by_position", "ctrl_dropped", "not_idempotent", "unknown_rewritten", "plain_rewritten",
            "extra_positional_ignored", "ctrl_misnamed", "sorted_by_table", "ctrl_first"}
ASSUME Mutant \in Mutants \cup {"none"}
ASSUME NPs \subseteq 3..4 /\ MaxArgs <= 6 /\ MaxArgsOther <= MaxArgs

Range(s) == {s[i] : i \in DOMAIN s}
Min(a, b) == IF a < b THEN a ELSE b
Vals(s) == IF s = <<>> THEN <<>> ELSE [i \in 1..Len(s) |-> s[i][2]]      \* second components of a sequence of pairs
NoCall == [attr |-> FALSE, name |-> "", pos |-> <<>>, kw |-> <<>>, dict |-> <<>>]

VARIABLES method,      \* the method name that has an entry in METHOD_TO_PARAMS
          params,      \* its entry: parameter names, required first, then declaration order (= the legacy positional order)
          orig,        \* the call as written by the user (never changes)
          call,        \* the call this pass works on
          pass,        \* 1: first rewriting, 2: rewriting the result again
          pc,          \* step of leave_Call
          entry,       \* kword_params
          args,        \* positional arguments          (after SplitArgs)
          kwargs,      \* keyword arguments that are not control parameters (after SplitControl)
          ctrlKw,      \* control keyword arguments     (after SplitControl / TakePositional)
          fieldPos,    \* positional arguments that are fields (after TakePositional)
          request,     \* the dict: <<field name, argument>> (after BuildRequest)
          out,         \* result of this pass
          first        \* result of pass 1
vars == <<method, params, orig, call, pass, pc, entry, args, kwargs, ctrlKw, fieldPos, request, out, first>>
regs == <<entry, args, kwargs, ctrlKw, fieldPos, request>>
fixed == <<method, params, orig>>

(***************************************************************************)
(* Vocabulary                                                              *)
(***************************************************************************)
\* injective sequences over S of length <= k
RECURSIVE Inj(_, _)
Inj(S, k) == IF k = 0 THEN {<<>>}
             ELSE {<<>>} \cup UNION {{<<x>> \o t : t \in Inj(S \ {x}, k - 1)} : x \in S}
PosOf(n) == [i \in 1..n |-> ArgIds[i]]
KwOf(names, n) == IF names = <<>> THEN <<>> ELSE [j \in 1..Len(names) |-> <<names[j], ArgIds[n + j]>>]

\* every syntactically and semantically valid call of the legacy signature (no parameter bound twice, no unknown keyword),
\* plus the keyword `request` anywhere among the keywords
Init == \E np \in NPs, k \in Kinds :
          LET ps == SubSeq(AllParams, 1, np)
              sig == ps \o Ctrl
              lim == IF k = "known" THEN MaxArgs ELSE MaxArgsOther IN
          \E n \in 0..Min(MaxPos, lim) :
          LET free == Range(sig) \ {sig[i] : i \in 1..n} IN
          \E names \in Inj(free, lim - n)
                        \cup {s \in Inj(free \cup {"request"}, Min(lim - n, MaxKwFixed)) : "request" \in Range(s)} :
            /\ method = "m" /\ params = ps
            /\ call = [attr |-> k # "plain", name |-> IF k = "unknown" THEN "other" ELSE "m",
                       pos |-> PosOf(n), kw |-> KwOf(names, n), dict |-> <<>>]
            /\ orig = call /\ pass = 1 /\ pc = "lookup"
            /\ entry = <<>> /\ args = <<>> /\ kwargs = <<>> /\ ctrlKw = <<>> /\ fieldPos = <<>> /\ request = <<>>
            /\ out = NoCall /\ first = NoCall

(***************************************************************************)
(* The machine                                                             *)
(***************************************************************************)
Keep == /\ out' = call /\ pc' = "done"        \* `return updated`
        /\ UNCHANGED <<fixed, call, pass, regs, first>>
IsCtrlKw(a) == a[1] \in CtrlSet
IsFieldKw(a) == a[1] \notin CtrlSet

\* key = original.func.attr.value; kword_params = METHOD_TO_PARAMS[key]  (AttributeError / KeyError: not ours)
Lookup == /\ pc = "lookup"
          /\ IF \/ call.attr /\ call.name = method
                \/ call.attr /\ Mutant = "unknown_rewritten"
                \/ call.name = method /\ Mutant = "plain_rewritten"
             THEN /\ entry' = params /\ pc' = "split"
                  /\ UNCHANGED <<fixed, call, pass, args, kwargs, ctrlKw, fieldPos, request, out, first>>
             ELSE Keep
\* args, kwargs = partition(lambda a: not bool(a.keyword), updated.args)
SplitArgs == /\ pc = "split" /\ args' = call.pos /\ kwargs' = call.kw /\ pc' = "fixed"
             /\ UNCHANGED <<fixed, call, pass, entry, ctrlKw, fieldPos, request, out, first>>
\* a `request=` keyword: this call was fixed before
AlreadyFixed == /\ pc = "fixed"
                /\ IF (\E j \in DOMAIN kwargs : kwargs[j][1] = "request") /\ Mutant # "not_idempotent"
                   THEN Keep
                   ELSE pc' = "control" /\ UNCHANGED <<fixed, call, pass, regs, out, first>>
\* kwargs, ctrl_kwargs = partition(lambda a: a.keyword.value not in CTRL_PARAMS, kwargs)
SplitControl == /\ pc = "control"
                /\ kwargs' = SelectSeq(kwargs, IsFieldKw)
                /\ ctrlKw' = IF Mutant = "ctrl_dropped" THEN <<>> ELSE SelectSeq(kwargs, IsCtrlKw)
                /\ pc' = "positional"
                /\ UNCHANGED <<fixed, call, pass, entry, args, fieldPos, request, out, first>>
\* the first len(kword_params) positionals are fields, the rest are control parameters in CTRL_PARAMS order
TakePositional ==
    /\ pc = "positional"
    /\ LET n == Min(Len(args), Len(entry))
           extra == SubSeq(args, n + 1, Len(args))
           named == IF extra = <<>> \/ Mutant = "extra_positional_ignored" THEN <<>>
                    ELSE [i \in 1..Min(Len(extra), Len(Ctrl)) |->
                             <<Ctrl[IF Mutant = "ctrl_misnamed" THEN Len(Ctrl) + 1 - i ELSE i], extra[i]>>] IN
       /\ fieldPos' = SubSeq(args, 1, n)
       /\ ctrlKw' = ctrlKw \o named
    /\ pc' = "build"
    /\ UNCHANGED <<fixed, call, pass, entry, args, kwargs, request, out, first>>
\* the request dict: positionals take the first names of the entry, keywords keep THEIR OWN name (Python binds keywords by name).
\* Zipping  args + kwargs  with the entry positionally is the mutant kwargs_by_position: it is right only when the field
\* keywords happen to be written in table order without a gap.
IdxOf(name) == CHOOSE i \in 1..Len(entry) : entry[i] = name
ByName == (IF fieldPos = <<>> THEN <<>> ELSE [i \in 1..Len(fieldPos) |-> <<entry[i], fieldPos[i]>>]) \o kwargs
ByPosition == LET all == fieldPos \o Vals(kwargs) IN
              IF all = <<>> THEN <<>> ELSE [i \in 1..Min(Len(all), Len(entry)) |-> <<entry[i], all[i]>>]
\* the pairs of ByName in the order of the table (mutant)
RECURSIVE Sorted(_, _)
Sorted(s, i) == IF i > Len(entry) THEN <<>>
                ELSE SelectSeq(s, LAMBDA a : a[1] = entry[i]) \o Sorted(s, i + 1)
BuildRequest == /\ pc = "build"
                /\ request' = CASE Mutant = "kwargs_by_position" -> ByPosition
                                [] Mutant = "sorted_by_table" /\ \A a \in Range(kwargs) : a[1] \in Range(entry) -> Sorted(ByName, 1)
                                [] OTHER -> ByName
                /\ pc' = "emit"
                /\ UNCHANGED <<fixed, call, pass, entry, args, kwargs, ctrlKw, fieldPos, out, first>>
\* updated.with_changes(args=[request_arg] + ctrl_kwargs)
EmitCall == /\ pc = "emit"
            /\ out' = [attr |-> call.attr, name |-> call.name, pos |-> <<>>,
                       kw |-> IF Mutant = "ctrl_first" THEN ctrlKw \o <<<<"request", "D">>>> ELSE <<<<"request", "D">>>> \o ctrlKw,
                       dict |-> request]
            /\ pc' = "done"
            /\ UNCHANGED <<fixed, call, pass, regs, first>>
\* run the script over its own output
Again == /\ pc = "done" /\ pass = 1
         /\ first' = out /\ call' = out /\ pass' = 2 /\ pc' = "lookup"
         /\ entry' = <<>> /\ args' = <<>> /\ kwargs' = <<>> /\ ctrlKw' = <<>> /\ fieldPos' = <<>> /\ request' = <<>>
         /\ UNCHANGED <<fixed, out>>
Machine == Lookup \/ SplitArgs \/ AlreadyFixed \/ SplitControl \/ TakePositional \/ BuildRequest \/ EmitCall
Next == Machine \/ Again
Spec == Init /\ [][Next]_vars /\ WF_vars(Next)
Done == pc = "done" /\ pass = 2

(***************************************************************************)
(* What the ORIGINAL call means: Python's binding rules for                *)
(*   def m(self, <params>, retry=.., timeout=.., metadata=..)              *)
(***************************************************************************)
Sig == params \o Ctrl
\* {<<parameter, argument>>}: positionals bind in order, keywords bind by name
Bound(c) == {<<Sig[i], c.pos[i]>> : i \in 1..Len(c.pos)} \cup Range(c.kw)
HasRequest(c) == \E j \in DOMAIN c.kw : c.kw[j][1] = "request"
Rewritable(c) == c.attr /\ c.name = method /\ ~HasRequest(c)
\* argument expressions in evaluation order: positionals, then keywords left to right; a dict literal evaluates its values in order
RECURSIVE KwOrder(_, _)
KwOrder(kw, d) == IF kw = <<>> THEN <<>>
                  ELSE (IF Head(kw)[2] = "D" THEN Vals(d) ELSE <<Head(kw)[2]>>) \o KwOrder(Tail(kw), d)
Order(c) == c.pos \o KwOrder(c.kw, c.dict)
CtrlOf(c) == SelectSeq(c.kw, LAMBDA a : a[1] # "request")
IsParamPair(b) == b[1] \in Range(params)
IsCtrlPair(b) == b[1] \in CtrlSet
PosPairs(c) == IF c.pos = <<>> THEN <<>> ELSE [i \in 1..Len(c.pos) |-> <<Sig[i], c.pos[i]>>]

TypeOK == /\ pc \in {"lookup", "split", "fixed", "control", "positional", "build", "emit", "done"} /\ pass \in 1..2
          /\ Len(orig.pos) + Len(orig.kw) <= MaxArgs

(* (1) MeaningPreserved, in four parts *)
\* request[p] is the argument the original call bound to p, for EVERY parameter p (and nothing else is in the dict)
Inv_FieldsByName == Done /\ Rewritable(orig) =>
    /\ \A p \in Range(params) : \A a \in Range(ArgIds) : (<<p, a>> \in Range(first.dict)) <=> (<<p, a>> \in Bound(orig))
    /\ \A e \in Range(first.dict) : e[1] \in Range(params)
    /\ Cardinality({e[1] : e \in Range(first.dict)}) = Len(first.dict)
\* control arguments keep their keyword, or get the keyword of their position
Inv_ControlKept == Done /\ Rewritable(orig) =>
    /\ Range(CtrlOf(first)) = {b \in Bound(orig) : b[1] \in CtrlSet}
    /\ Cardinality({e[1] : e \in Range(CtrlOf(first))}) = Len(CtrlOf(first))
\* nothing dropped, nothing duplicated (the argument ids of a call are distinct)
Inv_NothingLost == Done /\ Rewritable(orig) =>
    /\ Range(Order(first)) = Range(Order(orig))
    /\ Len(Order(first)) = Len(Order(orig))
\* the result is a request-object call of the same method
Inv_Shape == Done /\ Rewritable(orig) =>
    /\ first.attr = orig.attr /\ first.name = orig.name /\ first.pos = <<>>
    /\ Len(SelectSeq(first.kw, LAMBDA a : a[1] = "request")) = 1
    /\ \A a \in Range(first.kw) : a[1] = "request" <=> a[2] = "D"
Inv_MeaningPreserved == Inv_FieldsByName /\ Inv_ControlKept /\ Inv_NothingLost /\ Inv_Shape
(* (2) *)
Inv_Idempotent == Done => out = first
(* (3) *)
Inv_Untouched == Done /\ ~Rewritable(orig) => first = orig
(* (4) evaluation order.  A request-object call cannot keep the order of  m(a1, retry=a2, p2=a3):  the dict is ONE argument.
   What is guaranteed ("fields first"): a stable partition of the original order into
     field arguments, control keywords, positional control arguments.                                                     *)
FieldsFirst(c) == Vals(SelectSeq(PosPairs(c) \o c.kw, IsParamPair)) \o Vals(SelectSeq(c.kw, IsCtrlPair))
                  \o Vals(SelectSeq(PosPairs(c), IsCtrlPair))
Inv_EvalOrderFieldsFirst == Done /\ Rewritable(orig) => Order(first) = FieldsFirst(orig)
\* calls that write every field argument before every control argument, and do not mix positional and keyword control arguments
Canonical(c) == /\ \A i, j \in DOMAIN c.kw : i < j /\ c.kw[i][1] \in CtrlSet => c.kw[j][1] \in CtrlSet
                /\ Len(c.pos) > Len(params) => \A j \in DOMAIN c.kw : c.kw[j][1] \notin CtrlSet
Inv_EvalOrderCanonical == Done /\ Rewritable(orig) /\ Canonical(orig) => Order(first) = Order(orig)
\* NOT an invariant (Fixup.strictorder.cfg shows TLC's counterexample): the order of every call is kept
EvalOrderStrict == Done /\ Rewritable(orig) => Order(first) = Order(orig)
Live == <>Done

(***************************************************************************)
(* Case emission (spec -> code)                                            *)
(***************************************************************************)
KindOf(c) == IF ~c.attr THEN "plain" ELSE IF c.name = method THEN "known" ELSE "unknown"
Case == [np |-> Len(params), kind |-> KindOf(orig), method |-> method, params |-> params, call |-> orig,
         rewritten |-> Rewritable(orig), first |-> first, again |-> out,
         order |-> Order(first), strict |-> (Order(first) = Order(orig)), canonical |-> Canonical(orig)]
Emit == Done => PrintT(<<"CASE", ToJson(Case)>>)
=============================================================================
