CONSTANTS Scope = "ext" OneByOne = FALSE Mutant = "none" Pick = {}
SPECIFICATION Spec
INVARIANT Emit
