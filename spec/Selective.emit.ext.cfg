CONSTANTS Scope = "ext" OneByOne = FALSE Mutant = "none"
SPECIFICATION Spec
INVARIANT Emit
