CONSTANT Scope = "subpkg"
SPECIFICATION Spec
INVARIANT Emit
