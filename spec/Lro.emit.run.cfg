CONSTANTS MaxK = 3 Values = {2, 3} Codes = {5, 10} Insts = {1, 2} Scope = "run" Mutant = "none"
SPECIFICATION Spec
INVARIANT Emit
