------------------------------ MODULE Samples ------------------------------
(***************************************************************************)
(* Generated samples (C14): inventory, file structure / snippet metadata,  *)
(* docstring embedding and execution.  Written from the property text and  *)
(* the documentation of the snippet-metadata format (snippet_metadata.proto:*)
(* line numbers are 1-based and inclusive; FULL is the START tag line + 1   *)
(* .. the END tag line - 1; a typed segment "contains the ... code only").  *)
(*                                                                         *)
(* One API = [ts, naming, nsvc, reqpkg, flatten, rot, width].  Every API has one  *)
(* RPC per calling form (client-streaming forms only when gRPC is          *)
(* requested: REST cannot carry them) in each of nsvc services that share  *)
(* their RPC names, plus the keyword-named RPC `Import` for naming = "kw".  *)
(* The request of the RPC with index i carries required fields of the      *)
(* kinds AllKinds[i + rot .. i + rot + width - 1] (rotation: every calling *)
(* form meets every kind).                                                 *)
(*                                                                         *)
(* Pipeline actions (one per step of the generator / of a sample run):     *)
(*   GenSampleSpec(s, r, k)  one sample spec with its region tag           *)
(*   PickFocus               (model checking) the sample followed further  *)
(*   RenderSample            the file: a sequence of LINE KINDS            *)
(*   ParseSegments           the segment table of the metadata entry       *)
(*   IndexAdd                the metadata entry joins the snippet index    *)
(*   EmbedInDocstring        the client method's docstring gets the snippet*)
(*   RunSample               the sample function builds its request        *)
(*   Call                    the server sees a call on the RPC's path      *)
(*   Return | Raise          the function returns / raises                 *)
(***************************************************************************)
EXTENDS Naturals, Sequences, FiniteSets, TLC, SequencesExt, FiniteSetsExt, Json

CONSTANTS Rotations,      \* set of rotation offsets into AllKinds
          Widths,         \* set of numbers of kinds per request
          TransportSets,  \* set of subsets of {"grpc", "rest"}
          Namings,        \* subset of {"plain", "nons", "kw", "host", "svchost"}
          NSvcs,          \* subset of 1..2
          ReqPkgs,        \* subset of {"own", "dep"}: the request type lives in the API's package / a dependency
          Flattens,       \* subset of BOOLEAN: method_signature "filter,detail.title" (a top-level field and a DOTTED path
                          \* into a nested message; the client parameter is the LEAF name) on the non-client-streaming RPCs
          FormSet,        \* calling forms present
          MaxCode,        \* bound of the sample-file grammar (code lines per section)
          AnyOrder,       \* TRUE: sample specs may be generated in any order
          Mutant          \* "none" for the real design; anything else is a self-test mutant TLC must reject

VARIABLES api, stage, specs, focus, lines, segs, index, embed, phase, req, seen
vars == <<api, stage, specs, focus, lines, segs, index, embed, phase, req, seen>>

-----------------------------------------------------------------------------
(* Vocabulary                                                              *)
AllForms == <<"unary", "paged", "lro", "sstream", "cstream", "bidi", "void">>
FormIdx(f) == CHOOSE i \in 1..Len(AllForms) : AllForms[i] = f
Version == "v1"
SvcSeq == <<"Library", "Shelf">>
\* host short name = first label of the SERVICE's own default host.  naming "host": every service is served from
\* books.example.com (differs from the package name); naming "svchost": the services have DIFFERENT default hosts
\* (Library: library.example.com, Shelf: archive.example.com)
Short(a, s) == CASE a.naming = "host" -> "books"
                 [] a.naming = "svchost" -> (IF s = "Library" THEN "library" ELSE "archive")
                 [] OTHER -> "lib"
ShortM(a, s) == IF Mutant = "first_service_host" THEN Short(a, SvcSeq[1]) ELSE Short(a, s)
SvcSeqSet == {"Library", "Shelf"}
AllRpcIds == {"unary", "paged", "lro", "sstream", "cstream", "bidi", "void", "kw"}
Services(a) == {SvcSeq[i] : i \in 1..a.nsvc}

RpcIds(a) == {f \in FormSet : f \in {"cstream", "bidi"} => "grpc" \in a.ts}
             \cup (IF a.naming = "kw" THEN {"kw"} ELSE {})
FormOf(r) == IF r = "kw" THEN "unary" ELSE r
RpcIdx(r) == IF r = "kw" THEN 8 ELSE FormIdx(r)
RpcName(r) == CASE r = "unary" -> "GetBook" [] r = "paged" -> "ListBooks" [] r = "lro" -> "ImportBooks"
                [] r = "sstream" -> "StreamBooks" [] r = "cstream" -> "UploadBooks" [] r = "bidi" -> "ChatBooks"
                [] r = "void" -> "DeleteBook" [] r = "kw" -> "Import"
\* name of the client method (keyword-named RPCs carry a trailing underscore)
Snake(r) == CASE r = "unary" -> "get_book" [] r = "paged" -> "list_books" [] r = "lro" -> "import_books"
              [] r = "sstream" -> "stream_books" [] r = "cstream" -> "upload_books" [] r = "bidi" -> "chat_books"
              [] r = "void" -> "delete_book" [] r = "kw" -> "import_"

\* required-field kinds of a request (rotation order): each scalar, enums, nested messages with / without a
\* required sub-field / from another package, oneofs whose first member is a scalar / a message with / without a
\* required sub-field, resource-reference string, repeated scalar / enum / message, map, two required message fields of
\* the SAME type (msg_twin: _a, _b), a required message field (_m) plus a first-of-oneof member (_a) of that same type,
\* a required message whose required message `mid` has the required scalar leaf `since` (a chain of three attributes;
\* msg_chain: the leaf name is unique, msg_chain_same: the outer message has an optional field of the same name)
AllKinds == <<"string", "int32", "enum", "msg", "oneof_scalar", "resref", "rep_string", "bool",
              "int64", "uint32", "uint64", "sint32", "sint64", "fixed32", "fixed64", "sfixed32", "sfixed64",
              "float", "double", "bytes", "oneof_msg", "rep_enum", "msg_plain", "oneof_plain", "rep_msg", "map", "msg_dep",
              "msg_twin", "msg_oneof_same", "msg_chain", "msg_chain_same">>
KindAt(i) == AllKinds[((i - 1) % Len(AllKinds)) + 1]
\* the services share their RPC NAMES but not their request messages: the request of the second service carries the
\* kinds three places further in the rotation as REQUIRED fields; each request merely declares the other service's fields
\* (not required), so a request built for the other service is accepted by the types but leaves the required fields unset
SvcShift(s) == IF s = SvcSeq[1] THEN 0 ELSE 3
KindsOf(a, s, r) == {KindAt(RpcIdx(r) + a.rot + w + SvcShift(s)) : w \in 0..(a.width - 1)}
AlsoDeclared(a, s, r) == UNION {KindsOf(a, t, r) : t \in Services(a) \ {s}}

\* inventory ---------------------------------------------------------------
SampleKinds(a) == {"sync"} \cup (IF "grpc" \in a.ts THEN {"async"} ELSE {})
TransportOf(a, k) == IF k = "async" THEN "grpc-async" ELSE IF "grpc" \in a.ts THEN "grpc" ELSE "rest"
Wanted(a) == Services(a) \X RpcIds(a) \X SampleKinds(a)
WantedM(a) == CASE Mutant = "no_async_sample" -> Services(a) \X RpcIds(a) \X {"sync"}
                [] Mutant = "async_for_rest"  -> Services(a) \X RpcIds(a) \X {"sync", "async"}
                [] OTHER -> Wanted(a)
Tag(a, s, r, k) == ShortM(a, s) \o "_" \o Version \o "_generated_"
                   \o (IF Mutant = "tag_without_service" THEN "" ELSE s \o "_") \o RpcName(r) \o "_" \o k
TagOf(a, s, r, k) == Short(a, s) \o "_" \o Version \o "_generated_" \o s \o "_" \o RpcName(r) \o "_" \o k
\* the sample file is named after the tag in snake case (generator convention; keyword RPCs keep their plain name here)
SvcSnake(s) == IF s = "Library" THEN "library" ELSE "shelf"
FileOf(a, s, r, k) == Short(a, s) \o "_" \o Version \o "_generated_" \o SvcSnake(s) \o "_"
                      \o (IF r = "kw" THEN "import" ELSE Snake(r)) \o "_" \o k \o ".py"
SpecRec(a, s, r, k) == [svc |-> s, rpc |-> r, kind |-> k, transport |-> TransportOf(a, k), tag |-> Tag(a, s, r, k)]

\* metadata names ------------------------------------------------------------
ClientName(s, k) == s \o (IF k = "async" THEN "AsyncClient" ELSE "Client")
Params(a, r) == IF FormOf(r) \in {"cstream", "bidi"} THEN <<"requests", "retry", "timeout", "metadata">>
                ELSE <<"request">> \o (IF a.flatten THEN <<"filter", "title">> ELSE <<>>) \o <<"retry", "timeout", "metadata">>
ResultShape(f) == CASE f = "void" -> "none" [] f \in {"sstream", "bidi"} -> "iterable" [] OTHER -> "plain"

\* required-field kinds ------------------------------------------------------
\* field of kind k is named f_<k>; message-typed kinds whose type has a REQUIRED sub-field `x`:
WithSub == {"msg", "msg_dep", "rep_msg"}
OneofKinds == {"oneof_scalar", "oneof_msg", "oneof_plain"}
F(k) == "f_" \o k
TopRequired(k) == CASE k \in OneofKinds -> {}
                    [] k = "msg_twin" -> {F(k) \o "_a", F(k) \o "_b"}
                    [] k = "msg_oneof_same" -> {F(k) \o "_m"}
                    [] OTHER -> {F(k)}
\* <<parent, child>>: whenever parent is populated child must be
SubRequired(k) == CASE k \in WithSub -> {<<F(k), F(k) \o ".x">>}
                    [] k = "oneof_msg" -> {<<F(k) \o "_a", F(k) \o "_a.x">>}
                    [] k = "oneof_scalar" -> {<<F(k) \o "_b", F(k) \o "_b.x">>}
                    [] k = "msg_twin" -> {<<F(k) \o "_a", F(k) \o "_a.x">>, <<F(k) \o "_b", F(k) \o "_b.x">>}
                    [] k \in {"msg_chain", "msg_chain_same"} -> {<<F(k), F(k) \o ".mid">>, <<F(k) \o ".mid", F(k) \o ".mid.since">>}
                    [] k = "msg_oneof_same" -> {<<F(k) \o "_m", F(k) \o "_m.x">>, <<F(k) \o "_a", F(k) \o "_a.x">>}
                    [] OTHER -> {}
OneofMembers(k) == IF k \in OneofKinds \cup {"msg_oneof_same"} THEN {F(k) \o "_a", F(k) \o "_b"} ELSE {}

\* the request a sample has to build: every required field (recursively) and one member of each oneof
Below(S, k) == S \cup {p[2] : p \in {q \in SubRequired(k) : q[1] \in S}}          \* one level of required sub-fields
Populate(k) == Below(Below(TopRequired(k), k), k)
               \cup (IF OneofMembers(k) # {} THEN {F(k) \o "_a"} \cup {p[2] : p \in {q \in SubRequired(k) : q[1] = F(k) \o "_a"}} ELSE {})
BuildRequest(ks) == UNION {CASE Mutant = "skip_nested" /\ k \in WithSub -> {}
                             [] Mutant = "skip_oneof" /\ k \in OneofKinds -> {}
                             [] Mutant = "both_oneof_members" /\ k \in OneofKinds -> OneofMembers(k)
                             \* a leaf two levels down is assigned on the top-level nested message: the required
                             \* message in between is never built
                             [] Mutant = "last_attr_only" /\ k \in {"msg_chain", "msg_chain_same"} -> {F(k)}
                             \* a recursion guard shared by sibling fields: a message type is expanded only once
                             [] Mutant = "shared_visited" /\ k \in {"msg_twin", "msg_oneof_same"} -> {F(k) \o "_a", F(k) \o "_a.x"}
                             [] OTHER -> Populate(k) : k \in ks}
MissingRequired(pop, ks) == UNION {(TopRequired(k) \ pop) \cup {p[2] : p \in {q \in SubRequired(k) : q[1] \in pop /\ q[2] \notin pop}} : k \in ks}
BadOneofs(pop, ks) == {k \in ks : OneofMembers(k) # {} /\ Cardinality(OneofMembers(k) \cap pop) # 1}
ReqOk(pop, ks) == MissingRequired(pop, ks) = {} /\ BadOneofs(pop, ks) = {}

-----------------------------------------------------------------------------
(* File structure: line kinds and segments                                 *)
LineKinds == {"comment", "blank", "start", "end", "import", "def", "code", "m_client", "m_reqinit", "m_exec", "m_resp"}
MarkerSeq == <<"m_client", "m_reqinit", "m_exec", "m_resp">>
SegNames == <<"CLIENT_INITIALIZATION", "REQUEST_INITIALIZATION", "REQUEST_EXECUTION", "RESPONSE_HANDLING">>
Idx(ls, k) == {i \in 1..Len(ls) : ls[i] = k}
One(S) == CHOOSE x \in S : TRUE
StartLine(ls) == One(Idx(ls, "start"))
EndLine(ls) == One(Idx(ls, "end"))
Present(ls, j) == Idx(ls, MarkerSeq[j]) # {}
MarkerLine(ls, j) == One(Idx(ls, MarkerSeq[j]))
WellFormed(ls) ==
  /\ Cardinality(Idx(ls, "start")) = 1 /\ Cardinality(Idx(ls, "end")) = 1
  /\ StartLine(ls) + 1 < EndLine(ls)
  /\ \A j \in 1..4 : /\ Cardinality(Idx(ls, MarkerSeq[j])) <= 1
                     /\ Idx(ls, MarkerSeq[j]) \subseteq (StartLine(ls) + 1)..(EndLine(ls) - 1)
  /\ \A i, j \in 1..4 : (i < j /\ Present(ls, i) /\ Present(ls, j)) => MarkerLine(ls, i) < MarkerLine(ls, j)
  /\ Cardinality(Idx(ls, "def")) = 1
  /\ \E d \in Idx(ls, "def") : StartLine(ls) < d /\ d < EndLine(ls)
                               /\ \A j \in 1..4 : Present(ls, j) => d < MarkerLine(ls, j)
  /\ \E i \in Idx(ls, "import") : StartLine(ls) < i /\ i < One(Idx(ls, "def"))

NoSeg == [s |-> 0, e |-> 0]                 \* a section the file does not have (both numbers absent in the JSON)
Full(ls) == [s |-> StartLine(ls) + 1, e |-> EndLine(ls) - 1]
Later(ls, j) == {MarkerLine(ls, q) : q \in {q \in (j + 1)..4 : Present(ls, q)}}
\* a typed section runs from its marker line to the line before the next marker, the last one to the end of FULL
Section(ls, j) == IF ~Present(ls, j) THEN NoSeg
                  ELSE [s |-> MarkerLine(ls, j), e |-> IF Later(ls, j) = {} THEN Full(ls).e ELSE Min(Later(ls, j)) - 1]
Segments(ls) == [FULL |-> Full(ls), SHORT |-> Full(ls),
                 CLIENT_INITIALIZATION |-> Section(ls, 1), REQUEST_INITIALIZATION |-> Section(ls, 2),
                 REQUEST_EXECUTION |-> Section(ls, 3), RESPONSE_HANDLING |-> Section(ls, 4)]
\* what the mutants compute instead
SegmentsM(ls) ==
  LET S == Segments(ls) IN
  CASE Mutant = "full_includes_tags" -> [S EXCEPT !.FULL = [s |-> StartLine(ls), e |-> EndLine(ls)],
                                                  !.SHORT = [s |-> StartLine(ls), e |-> EndLine(ls)]]
    [] Mutant = "zero_based" -> [n \in DOMAIN S |-> IF S[n] = NoSeg THEN NoSeg ELSE [s |-> S[n].s - 1, e |-> S[n].e - 1]]
    [] Mutant = "resp_end_on_tag" -> [S EXCEPT !.RESPONSE_HANDLING = IF @ = NoSeg THEN @ ELSE [@ EXCEPT !.e = EndLine(ls)]]
    [] Mutant = "void_open_segment" ->
         IF Present(ls, 4) THEN S
         ELSE [S EXCEPT !.REQUEST_EXECUTION = [@ EXCEPT !.e = 0], !.RESPONSE_HANDLING = [s |-> 0, e |-> EndLine(ls)]]
    [] Mutant = "section_overlap" -> [S EXCEPT !.REQUEST_INITIALIZATION = IF @ = NoSeg THEN @ ELSE [@ EXCEPT !.e = @ + 1]]
    [] OTHER -> S
SegOf(S, j) == CASE j = 1 -> S.CLIENT_INITIALIZATION [] j = 2 -> S.REQUEST_INITIALIZATION
                 [] j = 3 -> S.REQUEST_EXECUTION [] j = 4 -> S.RESPONSE_HANDLING

\* docstring embedding: the lines of FULL in order.  Blank lines are not part of the comparison: the formatter of
\* the emitted client file collapses runs of blank lines inside the docstring.
\* (b = the blank token of the sequence: the line kind "blank", or text id 0 in recorded traces)
NonBlank(sq, b) == SelectSeq(sq, LAMBDA x : x # b)
Between(sq, ls) == SubSeq(sq, StartLine(ls) + 1, EndLine(ls) - 1)
Embed(sq, ls, b) == IF Mutant = "embed_with_tags" THEN NonBlank(SubSeq(sq, StartLine(ls), EndLine(ls)), b)
                    ELSE NonBlank(Between(sq, ls), b)

\* the bounded grammar of sample files used for model checking
Rep(x, n) == [i \in 1..n |-> x]
SampleFiles(form) ==
  { <<"comment", "blank", "start", "comment">> \o Rep("import", ni) \o <<"blank", "blank", "def">>
    \o <<"m_client", "code", "blank">>
    \o <<"m_reqinit">> \o Rep("code", nq) \o <<"blank">>
    \o <<"m_exec">> \o Rep("code", nx) \o <<"blank">>
    \o (IF form = "void" THEN <<>> ELSE <<"m_resp">> \o Rep("code", nr))
    \o (IF tb THEN <<"blank">> ELSE <<>>) \o <<"end">>
    : ni \in 1..2, nq \in 1..MaxCode, nx \in 1..MaxCode, nr \in 1..MaxCode, tb \in BOOLEAN }

-----------------------------------------------------------------------------
ApiSpace == [ts : TransportSets, naming : Namings, nsvc : NSvcs, reqpkg : ReqPkgs, flatten : Flattens, rot : Rotations,
            width : Widths]
NoFocus == [svc |-> "", rpc |-> "", kind |-> "", transport |-> "", tag |-> ""]

Init == /\ api \in ApiSpace
        /\ stage = "specs" /\ specs = {} /\ focus = NoFocus /\ lines = <<>> /\ segs = [FULL |-> NoSeg]
        /\ index = {} /\ embed = <<>> /\ phase = "idle" /\ req = {} /\ seen = <<>>

Pending == WantedM(api) \ {<<x.svc, x.rpc, x.kind>> : x \in specs}
GenSampleSpec(s, r, k) ==
  /\ stage = "specs" /\ <<s, r, k>> \in Pending
  /\ AnyOrder \/ <<s, r, k>> = One(Pending)
  /\ specs' = specs \cup {SpecRec(api, s, r, k)}
  /\ UNCHANGED <<api, stage, focus, lines, segs, index, embed, phase, req, seen>>

PickFocus == /\ stage = "specs" /\ Pending = {} /\ specs # {}
             /\ focus' \in specs /\ stage' = "render"
             /\ UNCHANGED <<api, specs, lines, segs, index, embed, phase, req, seen>>

RenderSample == /\ stage = "render"
                /\ lines' \in SampleFiles(FormOf(focus.rpc)) /\ stage' = "parse"
                /\ UNCHANGED <<api, specs, focus, segs, index, embed, phase, req, seen>>

ParseSegments == /\ stage = "parse"
                 /\ segs' = SegmentsM(lines) /\ stage' = "index"
                 /\ UNCHANGED <<api, specs, focus, lines, index, embed, phase, req, seen>>

Entry == [tag |-> focus.tag, file |-> FileOf(api, focus.svc, focus.rpc, focus.kind), client |-> ClientName(focus.svc, focus.kind),
          method |-> Snake(focus.rpc), rpc |-> RpcName(focus.rpc), service |-> focus.svc,
          async |-> focus.kind = "async", params |-> Params(api, focus.rpc),
          result |-> ResultShape(FormOf(focus.rpc)), segs |-> segs]
IndexAdd == /\ stage = "index"
            /\ index' = index \cup {Entry} /\ stage' = "embed"
            /\ UNCHANGED <<api, specs, focus, lines, segs, embed, phase, req, seen>>

EmbedInDocstring == /\ stage = "embed"
                    /\ embed' = Embed(lines, lines, "blank") /\ stage' = "run"
                    /\ UNCHANGED <<api, specs, focus, lines, segs, index, phase, req, seen>>

FKinds == KindsOf(api, focus.svc, focus.rpc)
RunSample == /\ stage = "run" /\ phase = "idle"
             \* (mutant: one placeholder request per RPC NAME, shared by the services)
             /\ req' = BuildRequest(IF Mutant = "shared_placeholder" THEN KindsOf(api, SvcSeq[1], focus.rpc) ELSE FKinds)
             /\ phase' = "built"
             /\ UNCHANGED <<api, stage, specs, focus, lines, segs, index, embed, seen>>

\* mutants of the calling form: the asyncio paged sample iterates an un-awaited coroutine (raises before any call
\* is made); the asyncio client-streaming sample returns without the call having reached the server
RaisesEarly == Mutant = "no_await_paged" /\ focus.kind = "async" /\ FormOf(focus.rpc) = "paged"
SkipsCall == Mutant = "cs_not_delivered" /\ focus.kind = "async" /\ FormOf(focus.rpc) = "cstream"
Call == /\ stage = "run" /\ phase = "built" /\ ~RaisesEarly /\ ~SkipsCall
        /\ seen' = Append(seen, [svc |-> focus.svc, rpc |-> focus.rpc, pop |-> req]) /\ phase' = "called"
        /\ UNCHANGED <<api, stage, specs, focus, lines, segs, index, embed, req>>
Return == /\ stage = "run" /\ (phase = "called" \/ (phase = "built" /\ SkipsCall))
          /\ phase' = "returned" /\ stage' = "done"
          /\ UNCHANGED <<api, specs, focus, lines, segs, index, embed, req, seen>>
Raise == /\ stage = "run" /\ phase = "built" /\ RaisesEarly
         /\ phase' = "raised" /\ stage' = "done"
         /\ UNCHANGED <<api, specs, focus, lines, segs, index, embed, req, seen>>

Next == (\E s \in SvcSeqSet, r \in AllRpcIds, k \in {"sync", "async"} : GenSampleSpec(s, r, k))
        \/ PickFocus \/ RenderSample \/ ParseSegments \/ IndexAdd \/ EmbedInDocstring
        \/ RunSample \/ Call \/ Return \/ Raise
Spec == Init /\ [][Next]_vars /\ WF_vars(Next)

-----------------------------------------------------------------------------
(* The property, clause by clause                                          *)
\* region tags are pairwise distinct
Inv_TagsDistinct == \A x, y \in specs : x.tag = y.tag => x = y
\* tags have the stated form
Inv_TagForm == \A x \in specs : x.tag = TagOf(api, x.svc, x.rpc, x.kind)
\* for every RPC exactly one sync sample and, iff grpc is requested, exactly one asyncio sample
Inv_Inventory == stage # "specs" =>
  \A s \in Services(api), r \in RpcIds(api) :
     /\ Cardinality({x \in specs : x.svc = s /\ x.rpc = r /\ x.kind = "sync"}) = 1
     /\ Cardinality({x \in specs : x.svc = s /\ x.rpc = r /\ x.kind = "async"}) = (IF "grpc" \in api.ts THEN 1 ELSE 0)
Inv_NoExtra == \A x \in specs : x.svc \in Services(api) /\ x.rpc \in RpcIds(api) /\ x.kind \in {"sync", "async"}
               /\ (x.kind = "async" => x.transport = "grpc-async")
               /\ (x.kind = "sync" => x.transport = (IF "grpc" \in api.ts THEN "grpc" ELSE "rest"))

Parsed == stage \in {"index", "embed", "run", "done"}
\* FULL is the lines between the tags; SHORT ("may not include imports") is a non-empty range inside FULL
Inv_Full == Parsed => /\ segs.FULL = [s |-> StartLine(lines) + 1, e |-> EndLine(lines) - 1]
                      /\ segs.FULL.s <= segs.SHORT.s /\ segs.SHORT.s <= segs.SHORT.e /\ segs.SHORT.e <= segs.FULL.e
\* every typed segment has start <= end, lies inside FULL and starts on its marker line; it is absent iff
\* the file has no such section
SegOk(S, ls, j) == LET g == SegOf(S, j) IN
  IF ~Present(ls, j) THEN g = NoSeg
  ELSE /\ g.s = MarkerLine(ls, j) /\ g.s <= g.e
       /\ S.FULL.s <= g.s /\ g.e <= S.FULL.e
       /\ \A i \in (g.s + 1)..g.e : ls[i] \notin Range(MarkerSeq)        \* no other section's lines
Inv_Segments == Parsed => \A j \in 1..4 : SegOk(segs, lines, j)
\* the typed segments are ordered, disjoint and cover everything from the first marker to the end of FULL
Inv_Cover == Parsed =>
  LET P == {j \in 1..4 : Present(lines, j)} IN
  /\ \A i, j \in P : i < j => SegOf(segs, i).e < SegOf(segs, j).s
  /\ P # {} => UNION {SegOf(segs, j).s..SegOf(segs, j).e : j \in P} = MarkerLine(lines, Min(P))..segs.FULL.e
\* the index holds the entry of the sample, named after the client surface
Inv_Index == \A e \in index : /\ \E x \in specs : x.tag = e.tag /\ e.client = ClientName(x.svc, x.kind)
                                                  /\ e.async = (x.kind = "async")
                              /\ \A f \in index : f.tag = e.tag => f = e
\* the docstring snippet is exactly the text between the tags
Inv_Embed == stage \in {"run", "done"} =>
  /\ embed = NonBlank(SubSeq(lines, StartLine(lines) + 1, EndLine(lines) - 1), "blank")
  /\ "start" \notin Range(embed) /\ "end" \notin Range(embed)
\* the sample runs to completion against a server that accepts the call
Served == {i \in 1..Len(seen) : seen[i].svc = focus.svc /\ seen[i].rpc = focus.rpc /\ ReqOk(seen[i].pop, FKinds)}
Inv_Exec == phase = "returned" => Served # {}
Inv_NoRaise == phase # "raised"
Live == <>(stage = "done")

\* spec -> code: one case per API with everything the specification predicts about it
RpcRec(a, s, r) == [svc |-> s, id |-> r, name |-> RpcName(r), snake |-> Snake(r), form |-> FormOf(r), kinds |-> KindsOf(a, s, r),
                 also |-> AlsoDeclared(a, s, r),
                 required |-> UNION {TopRequired(k) : k \in KindsOf(a, s, r)},
                 subreq |-> UNION {SubRequired(k) : k \in KindsOf(a, s, r)},
                 oneofs |-> {OneofMembers(k) : k \in {k \in KindsOf(a, s, r) : OneofMembers(k) # {}}},
                 params |-> Params(a, r), result |-> ResultShape(FormOf(r))]
Canonical == focus = One(specs) /\ lines = One(SampleFiles(FormOf(focus.rpc)))
Emit == (stage = "done" /\ Canonical) =>
          PrintT(<<"CASE", ToJson([api |-> [ts |-> api.ts, naming |-> api.naming, nsvc |-> api.nsvc, reqpkg |-> api.reqpkg,
                                            flatten |-> api.flatten, rot |-> api.rot, width |-> api.width,
                                            hosts |-> [s \in Services(api) |-> Short(api, s) \o ".example.com"],
                                            version |-> Version, services |-> Services(api)],
                                   inventory |-> specs,
                                   rpcs |-> {RpcRec(api, s, r) : s \in Services(api), r \in RpcIds(api)}])>>)
=============================================================================
