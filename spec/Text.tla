-------------------------------- MODULE Text --------------------------------
(***************************************************************************)
(* C20 - comments reach docstrings intact; whitespace clean-up never        *)
(* changes code meaning.                                                    *)
(*                                                                          *)
(* The functions under test (gapic.utils.lines.wrap, gapic.utils.rst.rst,   *)
(* gapic.generator.formatter.fix_whitespace, and the docstring sites of the *)
(* templates) are textwrap + regular expressions + Jinja.  They are NOT     *)
(* transcribed here.  This module is                                        *)
(*   - the INPUT SPACE (token strings over an alphabet, parameter tuples,   *)
(*     a grammar of Python source layouts, docstring origins), enumerated   *)
(*     by TLC and emitted as cases;                                         *)
(*   - the PROPERTY, as relational post-conditions over                     *)
(*     (input, parameters, observed output):  WrapViolated, RstViolated,    *)
(*     FixViolated, EmbedViolated  (each the set of violated clauses);      *)
(*   - a classification of failing inputs (ClassOf) so that violations are  *)
(*     keyed by a stable class name decided by the specification;           *)
(*   - REFERENCE generators of observations (RefWrap, ...) used only when the       *)
(*     module is model-checked on its own: they witness that the            *)
(*     post-conditions are satisfiable on every input of the space, and the *)
(*     Mutant variants are wrong observations the post-conditions must      *)
(*     reject (non-vacuity).                                                *)
(*                                                                          *)
(* One call is a small state machine                                        *)
(*   input --ChooseInput--> params --ChooseParams--> apply --Apply-->       *)
(*   check --Check--> done                                                  *)
(* In trace validation (TextTrace.tla) ChooseInput/ChooseParams take the    *)
(* logged input and parameters, Apply takes the output logged from the REAL *)
(* function, and Check evaluates the post-conditions.                       *)
(*                                                                          *)
(* Texts are sequences of TOKENS (names from Alphabet); every token expands *)
(* to a short sequence of ATOMS [k, s]:  k in w (non-blank chunk), sp (run  *)
(* of spaces), tab, nl, q (one double quote), bs (one backslash);  s is the *)
(* literal text.  The Python projection lexes real outputs into the same    *)
(* atoms (maximal runs of spaces, single tab / newline / quote / backslash, *)
(* maximal runs of anything else).  A WORD is a maximal run of non-blank    *)
(* atoms; its text is the concatenation of their s.  Width is counted in    *)
(* characters (a tab is one column - the reading most favourable to the     *)
(* code).                                                                   *)
(***************************************************************************)
EXTENDS Naturals, Sequences, FiniteSets, TLC, SequencesExt, FiniteSetsExt, Json

CONSTANTS Fns,          \* subset of {"wrap", "rst", "fixws", "embed"} explored by this configuration
          Alphabet,     \* token names for comment texts
          MinLen,       \* shortest text / layout that may be committed (0 except for random walks)
          MaxLen,       \* longest token string
          Widths, Indents, Offsets,      \* wrap(text, width, offset=, indent=)
          RstWidths, RstIndents,         \* rst(text, width, indent, nl)
          Kinds, Gaps, MaxItems, MaxLvl, \* layout grammar of Python sources for fix_whitespace
          Origins,      \* where a comment is planted: message, field, enum, value, service, method
          Mutant        \* "none", or the name of a deliberately wrong observation generator (self-test)

VARIABLES stage, fn, items, inp, par, out, verdict
vars == <<stage, fn, items, inp, par, out, verdict>>

-----------------------------------------------------------------------------
(* Atoms and tokens                                                        *)
A(k, s) == [k |-> k, s |-> s]
RECURSIVE Spaces(_)
Spaces(n) == IF n = 0 THEN "" ELSE " " \o Spaces(n - 1)
SP(n) == A("sp", Spaces(n))
NL == A("nl", "\n")
TAB == A("tab", "\t")
Q == A("q", "\"")
BS == A("bs", "\\")
W(s) == A("w", s)

\* tokens that carry one of the markup characters  | * ` _ [ ]  (rst() hands such texts to the converter)
MarkupTokens == {"star", "mpipe", "mstar", "mtick", "munder", "mlbr", "mrbr"}
TokenNames == {"w3", "w9", "long", "sp", "sps", "tab", "nl", "blank", "li", "star", "plus", "num",
               "colon", "quote", "tquote", "bslash"} \cup MarkupTokens

Atoms(t) == CASE t = "w3"     -> <<W("abc")>>
              [] t = "w9"     -> <<W("abcdefghi")>>
              [] t = "long"   -> <<W("xxxxxxxxxxxxxxxxxxxxxxxxxxxxxx")>>      \* 30 columns, unbreakable
              [] t = "sp"     -> <<SP(1)>>
              [] t = "sps"    -> <<SP(2)>>                                     \* run of spaces
              [] t = "tab"    -> <<TAB>>
              [] t = "nl"     -> <<NL>>
              [] t = "blank"  -> <<NL, NL>>                                    \* blank line
              [] t = "li"     -> <<W("-"), SP(1)>>                             \* list markers
              [] t = "star"   -> <<W("*"), SP(1)>>
              [] t = "plus"   -> <<W("+"), SP(1)>>
              [] t = "num"    -> <<W("1."), SP(1)>>
              [] t = "colon"  -> <<W("foo:")>>                                 \* colon-terminated word
              [] t = "quote"  -> <<Q>>
              [] t = "tquote" -> <<Q, Q, Q>>
              [] t = "bslash" -> <<BS>>
              [] t = "mpipe"  -> <<W("a|b")>>                                  \* one word per markup character
              [] t = "mstar"  -> <<W("*gadgets*")>>
              [] t = "mtick"  -> <<W("`gadgets`")>>
              [] t = "munder" -> <<W("_gadgets_")>>
              [] t = "mlbr"   -> <<W("[gadgets")>>
              [] t = "mrbr"   -> <<W("gadgets]")>>

ASSUME Alphabet \subseteq TokenNames

Expand(toks) == FlattenSeq([i \in 1..Len(toks) |-> Atoms(toks[i])])
TextOf(as) == FoldLeft(LAMBDA acc, a : acc \o a.s, "", as)
IsBlank(a) == a.k \in {"sp", "tab", "nl"}

\* words as sequences of atoms (maximal non-blank runs), and as strings
RECURSIVE WordsR(_, _, _)
WordsR(as, i, cur) ==
  IF i > Len(as) THEN (IF cur = <<>> THEN <<>> ELSE <<cur>>)
  ELSE IF IsBlank(as[i]) THEN (IF cur = <<>> THEN <<>> ELSE <<cur>>) \o WordsR(as, i + 1, <<>>)
  ELSE WordsR(as, i + 1, Append(cur, as[i]))
WordsA(as) == WordsR(as, 1, <<>>)
Words(as) == LET ws == WordsA(as) IN [i \in 1..Len(ws) |-> TextOf(ws[i])]

\* lines (split at nl atoms), their width in characters and their number of words
RECURSIVE SplitR(_, _, _)
SplitR(as, i, cur) ==
  IF i > Len(as) THEN <<cur>>
  ELSE IF as[i].k = "nl" THEN <<cur>> \o SplitR(as, i + 1, <<>>)
  ELSE SplitR(as, i + 1, Append(cur, as[i]))
LinesOf(as) == SplitR(as, 1, <<>>)
WidthOf(line) == FoldLeft(LAMBDA n, a : n + Len(a.s), 0, line)
NWords(line) == Len(WordsA(line))

LastNonBlank(as) == LET S == {i \in 1..Len(as) : ~IsBlank(as[i])} IN IF S = {} THEN 0 ELSE Max(S)
EndsWithQuote(as) == LET i == LastNonBlank(as) IN i > 0 /\ as[i].k = "q"
HasTripleQuote(as) == \E i \in 1..(Len(as) - 2) : as[i].k = "q" /\ as[i + 1].k = "q" /\ as[i + 2].k = "q"
HasKind(as, k) == \E i \in 1..Len(as) : as[i].k = k
\* s is a contiguous sub-sequence of t
HasInfix(t, s) == \E d \in 0..(IF Len(t) >= Len(s) THEN Len(t) - Len(s) ELSE 0) :
                     Len(t) >= Len(s) /\ \A i \in 1..Len(s) : t[d + i] = s[i]
\* quote guard of rst(): a text ending in a double quote gets a period appended
Padded(ws) == IF ws = <<>> THEN ws ELSE [ws EXCEPT ![Len(ws)] = @ \o "."]

-----------------------------------------------------------------------------
(* Input space                                                             *)
WrapParams == {p \in [width : Widths, indent : Indents, offset : Offsets] : p.offset < p.width /\ p.indent < p.width}
\* source_format "rst" is passed by exactly one kind of call site (the Returns: sections, width 72, indent 16)
RstParams  == {p \in [width : RstWidths, indent : RstIndents, nl : {"none", "true", "false"}, fmt : {"commonmark", "rst"}] :
                  /\ 2 * p.indent + 3 < p.width
                  /\ (p.fmt = "rst" => p.width = 72 /\ p.indent = 16)}
FixParams  == [ending : {"none", "one", "many", "spaces"}]          \* how the source ends
EmbedParams == [origin : Origins]

\* Layout grammar for Python sources: a source is a sequence of items [kind, lvl, gap]; lvl = indentation level
\* (4 columns each), gap = the blank lines in front of the item.  CanFollow keeps every prefix a prefix of a
\* syntactically valid module, Complete says the module may end here.
KindNames == {"stmt", "stmt_t", "und", "imp", "pass", "cmt", "deco", "def", "class", "if", "doc", "strb"}
GapNames  == {"0", "1", "2", "3", "4", "2s", "3s"}        \* "ks": k blank lines that carry 4 spaces each
GapN(g)  == CASE g = "0" -> 0 [] g = "1" -> 1 [] g = "2" -> 2 [] g = "3" -> 3 [] g = "4" -> 4 [] g = "2s" -> 2 [] g = "3s" -> 3
GapSp(g) == g \in {"2s", "3s"}
ASSUME Kinds \subseteq KindNames /\ Gaps \subseteq GapNames
Opens(k) == k \in {"def", "class", "if"}
Item == [kind : Kinds, lvl : 0..MaxLvl, gap : Gaps]
CanFollow(its, it) ==
  IF its = <<>> THEN it.lvl = 0
  ELSE LET p == Last(its) IN
       IF Opens(p.kind) THEN it.lvl = p.lvl + 1 /\ it.kind # "cmt"
       ELSE IF p.kind = "deco" THEN it.lvl = p.lvl /\ it.kind \in {"def", "class", "deco"}
       ELSE it.lvl <= p.lvl
Complete(its) == its # <<>> /\ ~Opens(Last(its).kind) /\ Last(its).kind # "deco"

\* abstract view of a source: lines [i = indentation, t = content id, r = trailing spaces]; a line without
\* content has i = 0 and r = its length.  The Python projection produces the same records from real text.
Ln(i, t, r) == [i |-> i, t |-> t, r |-> r]
BL == Ln(0, "", 0)
ItemLines(it) ==
  LET c == 4 * it.lvl
      gapl == [j \in 1..GapN(it.gap) |-> IF GapSp(it.gap) THEN Ln(0, "", 4) ELSE BL]
      body == CASE it.kind = "stmt_t" -> <<Ln(c, "stmt_t", 3)>>
                [] it.kind = "doc"    -> <<Ln(c, "doc_a", 0), BL, Ln(c, "doc_b", 3), Ln(c, "doc_c", 0)>>
                [] it.kind = "strb"   -> <<Ln(c, "strb_a", 0), BL, BL, BL, Ln(8, "strb_b", 0), BL, BL, Ln(0, "strb_c", 0)>>
                [] OTHER              -> <<Ln(c, it.kind, 0)>>
  IN gapl \o body
SourceLines(its, ending) ==
  FlattenSeq([j \in 1..Len(its) |-> ItemLines(its[j])])
    \o (CASE ending = "none" -> <<>> [] ending = "one" -> <<BL>> [] ending = "many" -> <<BL, BL, BL>>
          [] ending = "spaces" -> <<BL, Ln(0, "", 4)>>)

-----------------------------------------------------------------------------
(* The property: post-conditions as sets of violated clauses               *)

\* wrap(text, width, offset, indent) = o.atoms, or raised o.raised
WrapViolated(in, p, o) ==
  IF o.raised # "" THEN {"raise"}
  ELSE LET ia == Expand(in)
           L == LinesOf(o.atoms)
       IN  (IF Words(o.atoms) = Words(ia) THEN {} ELSE {"words"})            \* nothing dropped, duplicated, reordered
     \cup  (IF \A i \in 1..Len(L) : \/ WidthOf(L[i]) <= (IF i = 1 THEN p.width - p.offset ELSE p.width)
                                    \/ NWords(L[i]) <= 1                        \* a single unbreakable word
            THEN {} ELSE {"width"})
     \cup  (IF in = <<>> /\ o.atoms # <<>> THEN {"empty"} ELSE {})

\* rst(text, width, indent, nl): the fast path is wrap; the other path is the (stand-in) converter, which is
\* not obliged to re-flow.  Both must keep the words (up to the period of the quote guard) and must not end in
\* a double quote.
UsesConverter(in) == \E i \in 1..Len(in) : in[i] \in MarkupTokens
RstViolated(in, p, o) ==
  IF o.raised # "" THEN {"raise"}
  ELSE LET ia == Expand(in)
           L == LinesOf(o.atoms)
           wi == Words(ia)
           wo == Words(o.atoms)
       IN  (IF wo = wi \/ (EndsWithQuote(ia) /\ wo = Padded(wi)) THEN {} ELSE {"words"})
     \cup  (IF UsesConverter(in) \/ \A i \in 1..Len(L) :
                    \/ WidthOf(L[i]) <= p.width + (IF i = Len(L) /\ EndsWithQuote(ia) THEN 1 ELSE 0)   \* the guard's period is not text
                    \/ NWords(L[i]) <= 1
            THEN {} ELSE {"width"})
     \cup  (IF o.atoms # <<>> /\ Last(o.atoms).k = "q" THEN {"tail-quote"} ELSE {})

\* fix_whitespace(src) = o.lines; o.again = fix_whitespace(o.lines); o.parses / o.ast_same are computed by the
\* Python projection with ast.parse / ast.dump (string constants compared up to whitespace) and passed in as
\* boolean observations - the AST itself never enters TLA+.
IsEmptyLine(x) == x.t = "" /\ x.r = 0
NonBlank(L) == LET S == SelectSeq(L, LAMBDA x : x.t # "") IN [j \in 1..Len(S) |-> [i |-> S[j].i, t |-> S[j].t]]
\* number of content-free lines in front of the k-th line with content (not recursive: sources have thousands of lines)
GapsOf(L) == LET idx == SelectSeq([j \in 1..Len(L) |-> j], LAMBDA j : L[j].t # "")
             IN [k \in 1..Len(idx) |-> idx[k] - (IF k = 1 THEN 0 ELSE idx[k - 1]) - 1]
FixViolated(src, o) ==
  LET L == o.lines  n == Len(L)
      nbo == NonBlank(L)  nbs == NonBlank(src)
      go == GapsOf(L)     gs == GapsOf(src)
  IN   (IF n >= 2 /\ IsEmptyLine(L[n]) /\ (n = 2 \/ ~IsEmptyLine(L[n - 1])) THEN {} ELSE {"final-newline"})
  \cup (IF \A j \in 1..n : L[j].r = 0 THEN {} ELSE {"trailing-blanks"})
  \cup (IF o.again = L THEN {} ELSE {"idempotent"})
  \cup (IF nbo = nbs THEN {} ELSE {"lines"})                                  \* no line with content is touched
  \cup (IF nbo = nbs /\ \E k \in 1..Len(go) : go[k] > gs[k] THEN {"blank-added"} ELSE {})   \* blank lines are only removed
  \cup (IF o.parses /\ ~o.ast_same THEN {"ast"} ELSE {})

\* a comment planted at par.origin and rendered into a module: o.compiles (the module still compiles),
\* o.rest_same (everything but docstrings is what it is for a harmless comment: nothing after the literal was
\* swallowed), and for a docstring that should carry the comment: o.hasdoc, o.ndoc (the first statement of the
\* owner is ONE string constant), o.words (words of that constant).
EmbedViolated(doc, o) ==
  IF ~o.compiles THEN {"compiles"}
  ELSE (IF o.rest_same THEN {} ELSE {"swallowed"})
  \cup (IF o.hasdoc /\ o.ndoc # 1 THEN {"single-constant"} ELSE {})
  \cup (IF o.hasdoc /\ o.ndoc = 1 /\ ~HasInfix(o.words, Words(Expand(doc)))
           /\ ~(EndsWithQuote(Expand(doc)) /\ HasInfix(o.words, Padded(Words(Expand(doc)))))
        THEN {"words"} ELSE {})

Violated(f, in, p, o) == CASE f = "wrap"  -> WrapViolated(in, p, o)
                           [] f = "rst"   -> RstViolated(in, p, o)
                           [] f = "fixws" -> FixViolated(in, o)
                           [] f = "embed" -> EmbedViolated(in, o)

-----------------------------------------------------------------------------
(* Classification of failing inputs (names the class in violation keys)    *)
FirstLine(as) == LinesOf(as)[1]
\* wrap() re-wraps the first line when it does not fit  width - offset  (one more column for the newline,
\* one more when the line ends in a colon)
FirstLineRewrapped(in, p) ==
  LET fl == FirstLine(Expand(in))
      extra == IF fl # <<>> /\ Last(fl).s = "foo:" THEN 2 ELSE 1
  IN WidthOf(fl) + extra > p.width - p.offset
InputFeature(in) ==
  LET ia == Expand(in) IN
  IF ia # <<>> /\ ia[1].k \in {"sp", "tab"} /\ HasKind(FirstLine(ia), "tab") THEN "leading-blank+tab"
  ELSE IF ia # <<>> /\ ia[1].k \in {"sp"} THEN "leading-blank"
  ELSE IF HasKind(FirstLine(ia), "tab") THEN "tab"
  ELSE "plain"
\* an exception: on a text without words, on a text whose first line has no words, or elsewhere
RaiseClass(in, o) == (IF Words(Expand(in)) = <<>> THEN "blank-text-"
                      ELSE IF Words(FirstLine(Expand(in))) = <<>> THEN "blank-first-line-" ELSE "raise-") \o o.raised
WrapClass(in, p, o, v) ==
  IF "raise" \in v THEN RaiseClass(in, o)
  ELSE IF "words" \in v THEN (IF FirstLineRewrapped(in, p) THEN "first-line-rewrap:" ELSE "words:") \o InputFeature(in)
  ELSE IF "width" \in v THEN "width:" \o InputFeature(in)
  ELSE "empty"
\* the words differ in nothing but backslashes (added or removed)
NoBS(as) == SelectSeq(as, LAMBDA a : a.k # "bs")
OnlyBackslashesDiffer(in, o) == LET wi == Words(NoBS(Expand(in)))  wo == Words(NoBS(o.atoms)) IN wo = wi \/ wo = Padded(wi)
RstClass(in, p, o, v) ==
  IF "raise" \in v THEN RaiseClass(in, o)
  ELSE IF "tail-quote" \in v THEN "tail-quote:" \o (IF UsesConverter(in) THEN "pandoc-route" ELSE "wrap-route")
  ELSE IF "words" \in v THEN
         IF ~UsesConverter(in) /\ InputFeature(in) = "plain" /\ OnlyBackslashesDiffer(in, o)
         THEN "backslashes:source-" \o p.fmt        \* (texts with leading blanks / tabs keep their re-wrap classes)
         ELSE
         (IF UsesConverter(in) THEN "converter:words:"
          ELSE IF FirstLineRewrapped(in, [width |-> p.width - p.indent, offset |-> p.indent + 3]) THEN "first-line-rewrap:"
          ELSE "words:") \o InputFeature(in)
  ELSE "width:" \o InputFeature(in)
FixClass(v) == IF "lines" \in v THEN "lines" ELSE IF "ast" \in v THEN "ast"
               ELSE IF "blank-added" \in v THEN "blank-added" ELSE IF "idempotent" \in v THEN "idempotent"
               ELSE IF "final-newline" \in v THEN "final-newline" ELSE "trailing-blanks"
\* the comment of the response message is a message comment (classes are named after the kind of element); the
\* binding tells the two message slots apart in the site part of the key
OriginLabel(o) == IF o = "response" THEN "message" ELSE o
EmbedClass(doc) ==
  LET da == Expand(doc) IN
  IF HasTripleQuote(da) THEN "triple-quote"
  ELSE IF Last(da).k = "bs" THEN "trailing-backslash"
  ELSE IF HasKind(da, "bs") THEN "backslash-escape"
  ELSE IF HasKind(da, "tab") THEN "tab"
  ELSE IF Last(da).k = "q" THEN "trailing-quote"
  ELSE "plain"
ClassOf(f, in, p, o, v) == CASE f = "wrap"  -> WrapClass(in, p, o, v)
                             [] f = "rst"   -> RstClass(in, p, o, v)
                             [] f = "fixws" -> FixClass(v)
                             [] f = "embed" -> EmbedClass(in) \o ":" \o OriginLabel(p.origin)

-----------------------------------------------------------------------------
(* Reference observation generators (model checking of this module only)   *)
Ind(n) == IF n = 0 THEN <<>> ELSE <<SP(n)>>
\* greedy fill of the words ws (sequences of atoms); col = columns used on the current line
RECURSIVE Greedy(_, _, _, _, _)
Greedy(ws, i, col, first, p) ==
  IF i > Len(ws) THEN <<>>
  ELSE LET n == WidthOf(ws[i])
           lim == IF Mutant = "overlong" THEN 100000 ELSE IF first THEN p.width - p.offset ELSE p.width
       IN IF i = 1 THEN ws[i] \o Greedy(ws, i + 1, n, first, p)
          ELSE IF col + 1 + n <= lim THEN <<SP(1)>> \o ws[i] \o Greedy(ws, i + 1, col + 1 + n, first, p)
          ELSE <<NL>> \o Ind(p.indent) \o ws[i] \o Greedy(ws, i + 1, p.indent + n, FALSE, p)
MutateWords(ws) ==
  CASE Mutant = "drop_word" /\ Len(ws) >= 2 -> SubSeq(ws, 1, Len(ws) - 1)
    [] Mutant = "dup_word"  /\ Len(ws) >= 1 -> <<ws[1]>> \o ws
    [] Mutant = "swap_words" /\ Len(ws) >= 2 /\ ws[1] # ws[2] -> <<ws[2], ws[1]>> \o SubSeq(ws, 3, Len(ws))
    [] OTHER -> ws
RefWrapAtoms(in, p) ==
  IF Mutant = "nonempty_on_empty" /\ in = <<>> THEN <<W("abc")>>
  ELSE Greedy(MutateWords(WordsA(Expand(in))), 1, 0, TRUE, p)
RefWrap(in, p) == [atoms |-> RefWrapAtoms(in, p),
                   raised |-> IF Mutant = "raise_on_blank" /\ in # <<>> /\ Words(Expand(in)) = <<>> THEN "indexerror" ELSE ""]
RefRst(in, p) ==
  LET base0 == RefWrapAtoms(in, [width |-> p.width - p.indent, offset |-> p.indent + 3, indent |-> p.indent])
      base == IF Mutant = "double_backslash" /\ p.fmt = "rst"          \* escaping applied on the route that only re-wraps
              THEN FlattenSeq([j \in 1..Len(base0) |-> IF base0[j].k = "bs" THEN <<BS, BS>> ELSE <<base0[j]>>]) ELSE base0
      multi == HasKind(base, "nl")
      withnl == IF p.nl = "true" \/ (p.nl = "none" /\ multi) THEN base \o <<NL>> \o Ind(p.indent) ELSE base
      padded == IF withnl # <<>> /\ Last(withnl).k = "q" /\ Mutant # "no_quote_pad" THEN Append(withnl, W(".")) ELSE withnl
  IN [atoms |-> padded, raised |-> ""]

IsBlankLine(x) == x.t = ""
RECURSIVE RStrip(_)
RStrip(L) == IF L # <<>> /\ IsBlankLine(Last(L)) THEN RStrip(Front(L)) ELSE L
FirstAfterBlank(L) == LET S == {j \in 2..Len(L) : ~IsBlankLine(L[j]) /\ IsBlankLine(L[j - 1])} IN IF S = {} THEN 0 ELSE Min(S)
RefFixLines(src) ==
  LET stripped == IF Mutant = "keep_trailing" THEN src
                  ELSE [j \in 1..Len(src) |-> IF IsBlankLine(src[j]) THEN BL ELSE [src[j] EXCEPT !.r = 0]]
      surplus == {j \in 3..Len(stripped) : IsBlankLine(stripped[j]) /\ IsBlankLine(stripped[j - 1]) /\ IsBlankLine(stripped[j - 2])}
      keep == (1..Len(stripped)) \ (IF Mutant = "non_idempotent" /\ surplus # {} THEN {Min(surplus)} ELSE surplus)
      k0 == FirstAfterBlank(stripped)
      keep2 == IF Mutant = "eat_code_line" /\ k0 > 0 THEN keep \ {k0} ELSE keep
      sel == SetToSortSeq(keep2, LAMBDA a, b : a < b)
      coll == FlattenSeq([j \in 1..Len(sel) |->
                 IF Mutant = "eat_indent" /\ sel[j] = k0 THEN <<[stripped[sel[j]] EXCEPT !.i = 0]>>
                 ELSE IF Mutant = "add_blank" /\ sel[j] = k0 THEN <<BL, stripped[sel[j]]>>
                 ELSE <<stripped[sel[j]]>>])
      body == RStrip(coll)
      tail == CASE Mutant = "no_final_nl" -> <<>> [] Mutant = "double_final_nl" -> <<BL, BL>> [] OTHER -> <<BL>>
  IN IF body = <<>> THEN <<BL>> \o tail ELSE body \o tail
RefFix(src) == LET o == RefFixLines(src) IN [lines |-> o, again |-> RefFixLines(o), parses |-> TRUE, ast_same |-> TRUE]

\* Docstring rendering.  "verbatim" is what a template that pastes the text does; the reference renderer
\* escapes quotes and backslashes into a non-raw literal.  Scan is Python's rule for the end of a
\* triple-quoted literal: a backslash takes the next character with it (in raw literals too), the literal ends
\* with the third of three consecutive quotes.
RawOrigin(o) == o \in {"message", "response", "field", "enum", "value", "method"}      \* r""" sites; service docstrings are """
SameLineClose(o) == o = "service"                                          \* closing quotes directly after the text
Escape(as) == FlattenSeq([j \in 1..Len(as) |-> IF as[j].k \in {"q", "bs"} THEN <<BS, as[j]>> ELSE <<as[j]>>])
Body(doc) == IF Mutant = "verbatim" THEN Expand(doc) ELSE Escape(Expand(doc))
Literal(doc, o) == Body(doc) \o (IF SameLineClose(o) THEN <<>> ELSE <<NL, SP(4)>>) \o <<Q, Q, Q, NL, W("stmt")>>
RECURSIVE Scan(_, _, _)
Scan(lit, i, nq) == IF i > Len(lit) THEN 0
                    ELSE IF lit[i].k = "bs" THEN Scan(lit, i + 2, 0)
                    ELSE IF lit[i].k = "q" THEN (IF nq = 2 THEN i ELSE Scan(lit, i + 1, nq + 1))
                    ELSE Scan(lit, i + 1, 0)
RECURSIVE Unescape(_, _)
Unescape(as, i) == IF i > Len(as) THEN <<>>
                   ELSE IF as[i].k = "bs" /\ i < Len(as) /\ as[i + 1].k \in {"q", "bs"} THEN <<as[i + 1]>> \o Unescape(as, i + 2)
                   ELSE IF as[i].k = "bs" THEN <<W("?")>> \o Unescape(as, i + 2)          \* some other escape: text altered
                   ELSE <<as[i]>> \o Unescape(as, i + 1)
RefEmbed(doc, p) ==
  LET lit == Literal(doc, p.origin)
      raw == Mutant = "verbatim" /\ RawOrigin(p.origin)
      ok == Scan(lit, 1, 0) = Len(lit) - 2
      value == IF raw THEN Body(doc) ELSE Unescape(Body(doc), 1)
  IN [compiles |-> ok, rest_same |-> ok, hasdoc |-> TRUE, ndoc |-> IF ok THEN 1 ELSE 0,
      words |-> <<"Doc:">> \o Words(value) \o <<"end">>]

RefOut(f, in, p) == CASE f = "wrap" -> RefWrap(in, p) [] f = "rst" -> RefRst(in, p)
                      [] f = "fixws" -> RefFix(in) [] f = "embed" -> RefEmbed(in, p)

-----------------------------------------------------------------------------
(* The state machine                                                       *)
None == [none |-> TRUE]
Init == /\ stage = "input" /\ fn \in Fns /\ items = <<>> /\ inp = <<>> /\ par = None /\ out = None /\ verdict = {}

\* input builder: extend the text by one token / the layout by one item (so that TLC can enumerate the space
\* breadth-first and sample it by random walks beyond the exhaustive bound)
AddItem == /\ stage = "input"
           /\ \/ fn \in {"wrap", "rst", "embed"} /\ Len(items) < MaxLen /\ \E t \in Alphabet : items' = Append(items, t)
              \/ fn = "fixws" /\ Len(items) < MaxItems /\ \E it \in Item : CanFollow(items, it) /\ items' = Append(items, it)
           /\ UNCHANGED <<stage, fn, inp, par, out, verdict>>

Call(f, in) == /\ stage = "input" /\ fn = f
               /\ inp' = in /\ stage' = "params"
               /\ UNCHANGED <<fn, items, par, out, verdict>>
IsDoc(d) == d # <<>> /\ ~IsBlank(Head(Expand(d))) /\ ~IsBlank(Last(Expand(d)))   \* Metadata.doc strips; no comment = no docstring text
ChooseInput == /\ Len(items) >= MinLen
               /\ \/ fn \in {"wrap", "rst"} /\ Call(fn, items)
                  \/ fn = "embed" /\ IsDoc(items) /\ Call(fn, items)
                  \/ fn = "fixws" /\ Complete(items) /\ Call(fn, items)

\* texts that take the converter path of rst() are run with the template defaults only: the converter is an
\* external program (here a stand-in that copies its input) and every call costs several process starts
\* (rst-format input is never sent down the converter route here: a real converter legitimately consumes the backslash
\* escapes of rst input, so nothing can be demanded of it; on the wrap route the text must come back unchanged up to
\* re-wrapping whatever the source format - that is the words clause of RstViolated, backslashes included)
ConverterParams == {p \in RstParams : p.width = 72 /\ p.indent = 4}
ParamsOf(f, in) == CASE f = "wrap" -> WrapParams
                     [] f = "rst" -> IF UsesConverter(in) THEN ConverterParams ELSE RstParams
                     [] f = "fixws" -> FixParams [] f = "embed" -> EmbedParams
SetParams(p) == /\ stage = "params" /\ par' = p /\ stage' = "apply"
                /\ UNCHANGED <<fn, items, inp, out, verdict>>
ChooseParams == \E p \in ParamsOf(fn, inp) : SetParams(p)

\* the post-conditions talk about source LINES; for grammar items that is their abstract line view
Subject == IF fn = "fixws" /\ items # <<>> THEN SourceLines(items, par.ending) ELSE inp

Return(o) == /\ stage = "apply" /\ out' = o /\ stage' = "check"
             /\ UNCHANGED <<fn, items, inp, par, verdict>>
Apply == Return(RefOut(fn, Subject, par))

Check == /\ stage = "check"
         /\ verdict' = Violated(fn, Subject, par, out)
         /\ stage' = "done"
         /\ UNCHANGED <<fn, items, inp, par, out>>

Next == AddItem \/ ChooseInput \/ ChooseParams \/ Apply \/ Check
Spec == Init /\ [][Next]_vars

\* the property: every observation satisfies every clause
Inv_Post == stage = "done" => verdict = {}
\* sanity of the space itself
Inv_Space == /\ (stage # "input" /\ fn \in {"wrap"} => par = None \/ par.offset < par.width)
             /\ (fn = "fixws" => \A j \in 1..Len(items) : CanFollow(SubSeq(items, 1, j - 1), items[j]))

-----------------------------------------------------------------------------
(* spec -> code: case emission                                             *)
\* inputs: one case per text / doc / layout (NEXT NextInputs).  Under -simulate TLC evaluates the invariant on
\* every successor of every state of a random walk, so a walk emits each of its prefixes that is an input.
NextInputs == AddItem \/ ChooseInput
EmitInput == stage = "params" =>
  PrintT(<<"CASE", ToJson(IF fn = "fixws" THEN [fn |-> fn, items |-> inp]
                          ELSE [fn |-> fn, toks |-> inp, text |-> TextOf(Expand(inp)), conv |-> UsesConverter(inp)])>>)
\* fixed corner set, run in every tier (INIT InitCorners, NEXT ChooseInput): for each markup character a comment
\* that takes the converter route of rst() AND ends in a double quote -  abc <markup word> "abc"  - on one line,
\* on two lines, and with a blank line.  Where a template closes the docstring right after the comment, the quote
\* guard of rst() is all that keeps the literal from ending in four quotes.
CornerTexts == UNION {{<<"w3", "sp", m, "sp", "quote", "w3", "quote">>,
                       <<"w3", "sp", m, "nl", "quote", "w3", "quote">>,
                       <<"w3", "sp", m, "blank", "quote", "w3", "quote">>} : m \in MarkupTokens \ {"star"}}
InitCorners == /\ stage = "input" /\ fn \in Fns /\ items \in CornerTexts /\ inp = <<>> /\ par = None /\ out = None /\ verdict = {}
\* parameter tuples: one case per tuple (INIT InitParams, NEXT ChooseParams)
InitParams == /\ stage = "params" /\ fn \in Fns /\ items = <<>> /\ inp = <<>> /\ par = None /\ out = None /\ verdict = {}
EmitParams == stage = "apply" => PrintT(<<"CASE", ToJson([fn |-> fn, par |-> par, conv |-> fn = "rst" /\ par \in ConverterParams])>>)
=============================================================================
