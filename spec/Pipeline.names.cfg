CONSTANT Scope = "names"
SPECIFICATION Spec
INVARIANT Inv_Unique
INVARIANT Inv_Normalised
INVARIANT Inv_InitPy
INVARIANT Inv_TypesExact
INVARIANT Inv_NoDepOutput
INVARIANT Inv_ServicesExact
INVARIANT Inv_Transports
INVARIANT Inv_Default
INVARIANT Inv_Feature
INVARIANT Inv_RootFromPackage
INVARIANT Inv_MetadataOnce
INVARIANT Inv_ClientNamesDistinct
