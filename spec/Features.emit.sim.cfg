CONSTANTS MaxFeatures = 9 MinFeatures = 5 Avoid = {"f_subpackage", "f_upper_file"}
SPECIFICATION Spec
INVARIANT Emit
