CONSTANTS MaxFeatures = 9 MinFeatures = 5
SPECIFICATION Spec
INVARIANT Emit
