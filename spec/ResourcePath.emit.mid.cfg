CONSTANTS MinVars = 1 MaxVars = 3 MaxLen = 1
  Seps = {"/", "-", "_", "~", "."} Letters = {"a", "b"} ValueSeps = {"-", ".", "/"}
  Tails = {"plain", "multi", "single"} Leads = {TRUE, FALSE} WithCommon = TRUE WithWild = TRUE
  Perturbs = {"del", "app"} ValueMode = "all" Part = "paths" VRes = {} NaiveMax = 0 Mutant = "none"
SPECIFICATION Spec
INVARIANT Emit
