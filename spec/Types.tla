------------------------------- MODULE Types -------------------------------
(***************************************************************************)
(* Message and enum classes of the emitted `types` modules (C02).          *)
(*                                                                         *)
(* (a) DECLARATIONS.  A message shape is chosen by builder actions         *)
(*       BeginField(name, number) -> TypeField(kind, ref) ->               *)
(*       PlaceField(card, oneof group, map key kind)                       *)
(*     inside a context (nesting depth 1..4, file of the package, nested   *)
(*     children).  `Decl` is what the emitted class has to declare for it; *)
(*     `Generate` records the declaration of the emitted class in `gdecl`. *)
(*     Enum shapes (AddValue) and module manifests (subject "file") are    *)
(*     the two small side cases.                                           *)
(*                                                                         *)
(* (b) VALUES.  An abstract valuation maps every field to a sequence of    *)
(*     small integers (indices into per-type value tables that live in the *)
(*     harness; 0 is the type's default value):                            *)
(*        singular   <<>> (absent) | <<x>>                                 *)
(*        repeated   <<x1, .., xn>>                                        *)
(*        map        <<<<k1, x1>>, ..>>  sorted by key index               *)
(*     Op (set / clear / append / put on the GENERATED class) -> Encode    *)
(*     -> DecodeByInput  and  EncodeByInput -> DecodeGen  must both be the *)
(*     identity on the valuation the caller meant (`want`, kept with the   *)
(*     semantics of the INPUT declaration), ToJson keys are the lowerCamel *)
(*     names of the original proto field names.                            *)
(*                                                                         *)
(* The wire is abstract: a function from field NUMBERS to entries          *)
(* [kind, ref, key, rep, val]; an entry can be read by a declaration only  *)
(* if number, type, referenced type, map key type and repetition agree,    *)
(* otherwise the field is lost (unknown field) or garbled (value 99).      *)
(* Byte-level encodings (varints, zig-zag, packing) are protobuf's job.    *)
(*                                                                         *)
(* Names are sequences of words [l |-> "size", c |-> "Size"] because TLC   *)
(* cannot index strings:  snake = l1_l2_..,  lowerCamel = l1 c2 c3 ..      *)
(***************************************************************************)
EXTENDS Integers, Sequences, FiniteSets, TLC, Json, SequencesExt, FiniteSetsExt

CONSTANTS Reserved,    \* the generator's reserved-word list (gapic.utils.reserved_names.RESERVED_NAMES, read at run time)
          Scope,       \* "small" | "mid" | "full" | "one" | "sim" | "trace": alphabets, see below
          MaxFields, MaxOps,
          Mutant       \* "none" for the real design; the others are self-test mutants TLC must reject

VARIABLES subject,     \* "message" | "enum" | "file"
          ctx,         \* [depth, file, kids]: where the subject message lives (selects the legal reference targets)
          sh,          \* [path, msgs, enums]: nesting path of the subject (outermost first) and its nested children
          fields,      \* the shape: sequence of field records
          pend, pstage,\* field under construction
          phase,       \* build -> ready -> encoded -> decoded -> json -> encodedIn -> done
          gdecl,       \* what the emitted class declares
          ops,         \* operations applied so far
          want,        \* the valuation the caller means (semantics of the input descriptor)
          obj,         \* the valuation held by the instance of the generated class (semantics of gdecl)
          wire, back,  \* Encode(generated) and DecodeByInput of it
          jkeys,       \* keys of Class.to_json
          wire2, gen,  \* EncodeByInput(want) and Decode(generated) of it
          evals, genum,\* enum subject: sequence of [name, number]; the (name, number) set the emitted Enum has
          tops, manifest  \* file subject: top-level message and enum names; names in __protobuf__.manifest
vars == <<subject, ctx, sh, fields, pend, pstage, phase, gdecl, ops, want, obj, wire, back, jkeys, wire2, gen,
          evals, genum, tops, manifest>>

-----------------------------------------------------------------------------
(* Names                                                                   *)
W(l, c) == [l |-> l, c |-> c]
RECURSIVE SnakeTail(_), CamelTail(_)
SnakeTail(n) == IF n = <<>> THEN "" ELSE "_" \o Head(n).l \o SnakeTail(Tail(n))
CamelTail(n) == IF n = <<>> THEN "" ELSE Head(n).c \o CamelTail(Tail(n))
Snake(n) == Head(n).l \o SnakeTail(Tail(n))          \* the proto field name
LowerCamel(n) == Head(n).l \o CamelTail(Tail(n))     \* protoc's json_name
PyAttr(n) == IF Snake(n) \in Reserved THEN Snake(n) \o "_" ELSE Snake(n)

NamesSmall == { <<W("name", "Name")>>, <<W("class", "Class")>>, <<W("page", "Page"), W("size", "Size")>> }
NamesFull == NamesSmall \cup
   { <<W("type", "Type")>>, <<W("from", "From")>>, <<W("format", "Format")>>, <<W("any", "Any")>>, <<W("max", "Max")>>,
     <<W("self", "Self")>>, <<W("in", "In")>>, <<W("next", "Next")>>, <<W("list", "List")>>,
     <<W("display", "Display"), W("name", "Name")>>, <<W("ignore", "Ignore"), W("unknown", "Unknown"), W("fields", "Fields")>>,
     <<W("item", "Item"), W("v2", "V2")>>, <<W("class", "Class"), W("id", "Id")>>, <<W("x", "X")>>, <<W("none", "None")>>,
     <<W("is", "Is"), W("class", "Class")>>, <<W("row", "Row"), W("1", "1")>> }

-----------------------------------------------------------------------------
(* Alphabets                                                               *)
Scalars == {"double", "float", "int64", "uint64", "int32", "fixed64", "fixed32", "bool", "string", "bytes",
            "uint32", "sfixed32", "sfixed64", "sint32", "sint64"}
LegalKeys == Scalars \ {"double", "float", "bytes"}
Big == Scope \in {"full", "one", "sim", "trace"}

NamePool == IF Scope \in {"small", "mid"} THEN NamesSmall ELSE NamesFull
NumPool == CASE Scope \in {"small", "mid"} -> {1, 2, 3}
             [] Scope = "one" -> {1, 16, 536870911}
             [] OTHER -> {1, 2, 3, 15, 16, 2047, 2048, 18999, 20000, 536870911}
\* small scopes tie the number to the name (fewer symmetric copies); order of declaration stays free
Tied == Scope \in {"small", "mid"}
TiedNumber(nm) == CASE nm = <<W("name", "Name")>> -> 2 [] nm = <<W("class", "Class")>> -> 1 [] OTHER -> 3
ScalarPool == CASE Scope = "small" -> {"int32", "bool"}
                [] Scope = "mid" -> {"int32", "string", "bool", "double"}
                [] OTHER -> Scalars
KeyPool == CASE Scope = "small" -> {"string"}
             [] Scope = "mid" -> {"string", "bool", "int64"}
             [] OTHER -> LegalKeys
GroupPool == IF Scope = "small" THEN {"choice"} ELSE {"choice", "type"}
ValPool == IF Scope \in {"small", "mid"} THEN {0, 1} ELSE IF Scope = "trace" THEN 0..8 ELSE {0, 1, 2}
KeyValPool == IF Scope \in {"small", "mid"} THEN {0, 1} ELSE IF Scope = "trace" THEN 0..8 ELSE {0, 1, 2}
MaxRep == IF Scope = "trace" THEN 8 ELSE 2

Contexts == CASE Scope = "one" ->
                 { [depth |-> 1, file |-> "a", kids |-> FALSE], [depth |-> 1, file |-> "b", kids |-> TRUE],
                   [depth |-> 2, file |-> "b", kids |-> TRUE], [depth |-> 3, file |-> "a", kids |-> FALSE],
                   [depth |-> 4, file |-> "b", kids |-> TRUE] }
              [] Scope = "small" -> { [depth |-> 2, file |-> "b", kids |-> FALSE] }
              [] Scope = "mid" -> { [depth |-> 3, file |-> "b", kids |-> TRUE] }
              [] OTHER -> { [depth |-> d, file |-> f, kids |-> k] : d \in 1..4, f \in {"a", "b"}, k \in BOOLEAN }
\* reference targets (tokens; the harness maps them to the full names of the concrete API):
\*   self     the subject itself                     peer     later top-level message that refers back (mutual recursion)
\*   before   earlier top-level message, same file   after    later top-level message, same file (forward reference)
\*   kid      message nested in the subject          cousin   message nested in another top-level message
\*   parent   enclosing message                      root     outermost enclosing message (depth >= 3)
\*   sibling  message nested in the same parent      shadow   message nested in a TOP-LEVEL message that has the
\*                                                            same simple name as the (nested) subject; it is
\*                                                            named like the subject's own child, if there is one
\*   twin     EARLIER top-level message of the same file whose simple name equals that of the subject's own nested
\*            child (the reference must not bind to the child `kid`)
\*   xfile / xnested   top-level / nested message of the other file of the package (file b imports file a)
\*   dep / depnested   top-level / nested message of a dependency package;  wkt  google.protobuf.Duration
MsgTargets(c) == CASE Scope = "small" -> {"self"}
                   [] Scope = "mid" -> {"self", "before"}
                   [] OTHER -> {"self", "peer", "before", "after", "cousin", "dep", "depnested", "wkt"}
                               \cup (IF c.kids THEN {"kid", "twin"} ELSE {})
                               \cup (IF c.depth >= 2 THEN {"parent", "sibling", "shadow"} ELSE {})
                               \cup (IF c.depth >= 3 THEN {"root"} ELSE {})
                               \cup (IF c.file = "b" THEN {"xfile", "xnested"} ELSE {})
EnumTargets(c) == CASE Scope \in {"small", "mid"} -> {"etop"}
                    [] OTHER -> {"etop", "ecousin", "edep", "edepnested"}
                               \cup (IF c.kids THEN {"ekid", "etwin"} ELSE {})
                               \cup (IF c.depth >= 2 THEN {"esibling", "eshadow"} ELSE {})
                               \cup (IF c.file = "b" THEN {"exfile", "exnested"} ELSE {})
TypeChoices(c) == { [kind |-> k, ref |-> ""] : k \in ScalarPool }
                  \cup { [kind |-> "enum", ref |-> t] : t \in EnumTargets(c) }
                  \cup { [kind |-> "message", ref |-> t] : t \in MsgTargets(c) }
\* cardinality: singular | proto3 optional | repeated | member of a oneof | map<key, kind>
PlaceChoices == { [card |-> c, group |-> "", key |-> ""] : c \in {"single", "optional", "repeated"} }
                \cup { [card |-> "single", group |-> g, key |-> ""] : g \in GroupPool }
                \cup { [card |-> "map", group |-> "", key |-> k] : k \in KeyPool }

PathOf(c) == [i \in 1..c.depth |-> IF i = 1 THEN "L1" ELSE IF i = 2 THEN "L2" ELSE IF i = 3 THEN "L3" ELSE "L4"]
ShapeOf(c) == [path |-> PathOf(c), msgs |-> IF c.kids THEN {"Kid"} ELSE {}, enums |-> IF c.kids THEN {"KE"} ELSE {}]
NoShape == [path |-> <<>>, msgs |-> {}, enums |-> {}]
NoCtx == [depth |-> 1, file |-> "a", kids |-> FALSE]

Blank == [name |-> <<>>, number |-> 0, kind |-> "", card |-> "", group |-> "", ref |-> "", key |-> ""]
NoDecl == [path |-> <<>>, msgs |-> {}, enums |-> {}, fields |-> <<>>]

\* "descriptor sets protoc accepts"
ReservedRange(n) == n >= 19000 /\ n <= 19999
WFField(f) == /\ f.name # <<>> /\ f.number >= 1 /\ f.number <= 536870911 /\ ~ReservedRange(f.number)
              /\ f.kind \in Scalars \cup {"enum", "message"}
              /\ (f.kind \in {"enum", "message"}) <=> (f.ref # "")
              /\ f.card \in {"single", "optional", "repeated", "map"}
              /\ (f.card = "map") <=> (f.key # "")
              /\ f.key # "" => f.key \in LegalKeys
              /\ f.group # "" => f.card = "single"
WF(fs) == /\ \A i \in 1..Len(fs) : WFField(fs[i])
          /\ \A i, j \in 1..Len(fs) : i # j => /\ Snake(fs[i].name) # Snake(fs[j].name)
                                              /\ LowerCamel(fs[i].name) # LowerCamel(fs[j].name)
                                              /\ fs[i].number # fs[j].number
          /\ \A i, j \in 1..Len(fs) : fs[i].group # Snake(fs[j].name)

-----------------------------------------------------------------------------
(* (a) what the emitted class must declare                                 *)
HasPresence(f) == f.card = "optional" \/ (f.card = "single" /\ (f.group # "" \/ f.kind = "message"))
DeclField(f) == [attr |-> PyAttr(f.name), json |-> LowerCamel(f.name), number |-> f.number, kind |-> f.kind,
                 card |-> f.card, oneof |-> f.group, presence |-> HasPresence(f), ref |-> f.ref, key |-> f.key]
Decl(s, fs) == [path |-> s.path, msgs |-> s.msgs, enums |-> s.enums, fields |-> [i \in 1..Len(fs) |-> DeclField(fs[i])]]
EnumDecl(vs) == { <<vs[i].name, vs[i].number>> : i \in 1..Len(vs) }
Manifest(t) == t

\* self-test mutants of the generator
IsRes(f) == Snake(f.name) \in Reserved
MutField(f) ==
  LET d == DeclField(f) IN
  CASE Mutant = "double_underscore" -> [d EXCEPT !.attr = IF IsRes(f) THEN @ \o "_" ELSE @]
    [] Mutant = "never_suffix"      -> [d EXCEPT !.attr = Snake(f.name)]
    [] Mutant = "suffix_json"       -> [d EXCEPT !.json = IF IsRes(f) THEN @ \o "_" ELSE @]
    [] Mutant = "drop_optional"     -> IF f.card = "optional" THEN [d EXCEPT !.card = "single", !.presence = (f.kind = "message")] ELSE d
    [] Mutant = "drop_oneof"        -> IF f.group # "" THEN [d EXCEPT !.oneof = "", !.presence = (f.kind = "message")] ELSE d
    [] Mutant = "shift_number"      -> [d EXCEPT !.number = @ + 100]
    [] Mutant = "swap_map"          -> IF f.card = "map" /\ f.kind \in LegalKeys /\ f.kind # f.key
                                       THEN [d EXCEPT !.key = f.kind, !.kind = f.key] ELSE d
    [] Mutant = "enum_as_message"   -> IF f.kind = "enum" THEN [d EXCEPT !.kind = "message"] ELSE d
    [] OTHER -> d
GenDecl(s, fs) == [path |-> IF Mutant = "flatten_nested" /\ Len(s.path) > 1 THEN Tail(s.path) ELSE s.path,
                   msgs |-> s.msgs, enums |-> s.enums, fields |-> [i \in 1..Len(fs) |-> MutField(fs[i])]]
GenEnum(vs) == IF Mutant = "enum_dense" THEN { <<vs[i].name, i - 1>> : i \in 1..Len(vs) } ELSE EnumDecl(vs)
GenManifest(t) == IF Mutant = "drop_manifest_entry" /\ t # {} THEN t \ {CHOOSE x \in t : TRUE} ELSE Manifest(t)

InFields == Decl(sh, fields).fields        \* the declaration of the INPUT descriptor

-----------------------------------------------------------------------------
(* (b) valuations                                                          *)
Singular(d) == d.card \in {"single", "optional"}
EmptyVal(n) == [i \in 1..n |-> <<>>]
MapPut(m, k, x) == SetToSortSeq({p \in Range(m) : p[1] # k} \cup {<<k, x>>}, LAMBDA a, b : a[1] < b[1])

\* an operation on an instance of a class with declaration d (sequence of field declarations)
Apply(d, v, o) ==
  CASE o.op = "set"    -> [j \in DOMAIN v |-> IF j = o.f THEN <<o.x>>
                                               ELSE IF d[o.f].oneof # "" /\ d[j].oneof = d[o.f].oneof THEN <<>> ELSE v[j]]
    [] o.op = "clear"  -> [v EXCEPT ![o.f] = <<>>]
    [] o.op = "append" -> [v EXCEPT ![o.f] = Append(@, o.x)]
    [] o.op = "put"    -> [v EXCEPT ![o.f] = MapPut(@, o.k, o.x)]
\* what can be observed of a valuation: a singular field without presence that holds its default is unset
Norm(d, v) == [j \in DOMAIN v |-> IF Singular(d[j]) /\ ~d[j].presence /\ v[j] = <<0>> THEN <<>> ELSE v[j]]

Rep(d) == IF d.card = "map" THEN "map" ELSE IF d.card = "repeated" THEN "many" ELSE "one"
Entry(d, val) == [kind |-> d.kind, ref |-> d.ref, key |-> d.key, rep |-> Rep(d), val |-> val]
EncodeBy(d, v) ==
  LET nv == Norm(d, v)
      present == {j \in DOMAIN nv : nv[j] # <<>>}
  IN [n \in {d[j].number : j \in present} |-> LET j == CHOOSE jj \in present : d[jj].number = n IN Entry(d[j], nv[j])]
Readable(e, d) == e.kind = d.kind /\ e.ref = d.ref /\ e.key = d.key /\ e.rep = Rep(d)
Garbled(d) == IF d.card = "map" THEN <<<<99, 99>>>> ELSE <<99>>
DecodeBy(d, w) ==
  LET raw == [j \in 1..Len(d) |-> IF d[j].number \in DOMAIN w
                                   THEN (IF Readable(w[d[j].number], d[j]) THEN w[d[j].number].val ELSE Garbled(d[j]))
                                   ELSE <<>>]
      \* several members of one oneof on the wire: the last one (highest number, fields are written in number order) wins
      beaten(j) == d[j].oneof # "" /\ \E i \in 1..Len(d) : i # j /\ d[i].oneof = d[j].oneof /\ raw[i] # <<>> /\ d[i].number > d[j].number
  IN Norm(d, [j \in 1..Len(d) |-> IF beaten(j) THEN <<>> ELSE raw[j]])
Lost(d, w) == {n \in DOMAIN w : \A j \in 1..Len(d) : d[j].number # n}      \* unknown fields: not lossless
\* proto-plus prints fields without presence always, the others when set
JsonOf(d, v) == { d[j].json : j \in {jj \in 1..Len(d) : ~d[jj].presence \/ v[jj] # <<>>} }
JsonMay == { LowerCamel(fields[i].name) : i \in 1..Len(fields) }
JsonMust == { LowerCamel(fields[i].name) : i \in {ii \in 1..Len(fields) : Norm(InFields, want)[ii] # <<>>} }

ValsOf(f) == IF f.kind = "bool" THEN ValPool \cap {0, 1} ELSE ValPool
KeysOf(f) == IF f.key = "bool" THEN KeyValPool \cap {0, 1} ELSE KeyValPool
OpChoices ==
  { [op |-> "set", f |-> i, k |-> 0, x |-> x] : i \in {ii \in 1..Len(fields) : Singular(fields[ii])}, x \in ValPool }
  \cup { [op |-> "clear", f |-> i, k |-> 0, x |-> 0] : i \in (IF Scope = "small" THEN {} ELSE 1..Len(fields)) }
  \cup { [op |-> "append", f |-> i, k |-> 0, x |-> x] : i \in {ii \in 1..Len(fields) : fields[ii].card = "repeated"}, x \in ValPool }
  \cup { [op |-> "put", f |-> i, k |-> k, x |-> x] : i \in {ii \in 1..Len(fields) : fields[ii].card = "map"}, k \in KeyValPool, x \in ValPool }
LegalOp(o) == /\ o \in OpChoices
              /\ o.op \in {"set", "append", "put"} => o.x \in ValsOf(fields[o.f])
              /\ o.op = "put" => o.k \in KeysOf(fields[o.f])
              /\ o.op = "append" => Len(want[o.f]) < MaxRep

-----------------------------------------------------------------------------
Quiet == /\ gdecl = NoDecl /\ ops = <<>> /\ want = <<>> /\ obj = <<>> /\ wire = <<>> /\ back = <<>> /\ jkeys = {}
         /\ wire2 = <<>> /\ gen = <<>> /\ genum = {} /\ manifest = {}
EnumNames == IF Big THEN {"UNSPECIFIED", "ACTIVE", "CLASS", "TYPE_A", "MAX"} ELSE {"UNSPECIFIED", "ACTIVE", "CLASS"}
EnumNums == IF Big THEN {0, 1, 2, 7, 2147483647, -1} ELSE {0, 1, 7}
MaxEnumValues == IF Big THEN 3 ELSE 2
TopNames == {"Alpha", "Beta", "Gamma"}

Init == /\ subject \in {"message", "enum", "file"}
        /\ ctx \in (IF subject = "message" THEN Contexts ELSE {NoCtx})
        /\ sh = IF subject = "message" THEN ShapeOf(ctx) ELSE NoShape
        /\ tops \in (IF subject = "file" THEN (SUBSET TopNames) \ {{}} ELSE {{}})
        /\ fields = <<>> /\ pend = Blank /\ pstage = 0 /\ phase = "build" /\ evals = <<>> /\ Quiet

UNCH_side == UNCHANGED <<subject, ctx, sh, evals, genum, tops, manifest>>
UNCH_vals == UNCHANGED <<gdecl, ops, want, obj, wire, back, jkeys, wire2, gen>>

BeginField(nm, num) ==
  /\ subject = "message" /\ phase = "build" /\ pstage = 0 /\ Len(fields) < MaxFields
  /\ \A i \in 1..Len(fields) : /\ Snake(fields[i].name) # Snake(nm) /\ LowerCamel(fields[i].name) # LowerCamel(nm)
                               /\ fields[i].number # num /\ fields[i].group # Snake(nm)
  /\ Tied => \A i \in 1..Len(fields) : fields[i].number < num     \* small scopes: declared in number order
  /\ pend' = [Blank EXCEPT !.name = nm, !.number = num] /\ pstage' = 1
  /\ UNCHANGED <<fields, phase>> /\ UNCH_side /\ UNCH_vals
TypeField(t) ==
  /\ pstage = 1 /\ pend' = [pend EXCEPT !.kind = t.kind, !.ref = t.ref] /\ pstage' = 2
  /\ UNCHANGED <<fields, phase>> /\ UNCH_side /\ UNCH_vals
PlaceField(p) ==
  /\ pstage = 2
  /\ p.group # "" => /\ p.group # Snake(pend.name) /\ \A i \in 1..Len(fields) : Snake(fields[i].name) # p.group
  /\ fields' = Append(fields, [pend EXCEPT !.card = p.card, !.group = p.group, !.key = p.key])
  /\ pend' = Blank /\ pstage' = 0
  /\ UNCHANGED phase /\ UNCH_side /\ UNCH_vals

\* the generator emits the class
Generate ==
  /\ subject = "message" /\ phase = "build" /\ pstage = 0
  /\ gdecl' = GenDecl(sh, fields)
  /\ want' = EmptyVal(Len(fields)) /\ obj' = EmptyVal(Len(fields))
  /\ phase' = "ready"
  /\ UNCHANGED <<fields, pend, pstage, ops, wire, back, jkeys, wire2, gen>> /\ UNCH_side

Op(o) ==
  /\ phase = "ready" /\ Len(ops) < MaxOps /\ LegalOp(o)
  /\ want' = Apply(InFields, want, o)
  /\ obj' = Apply(gdecl.fields, obj, o)
  /\ ops' = Append(ops, o)
  /\ UNCHANGED <<fields, pend, pstage, phase, gdecl, wire, back, jkeys, wire2, gen>> /\ UNCH_side
Encode ==          \* Class.serialize(instance)   (the simulation scope always runs scripts of full length)
  /\ phase = "ready" /\ (Scope = "sim" => Len(ops) = MaxOps \/ fields = <<>>) /\ wire' = EncodeBy(gdecl.fields, obj) /\ phase' = "encoded"
  /\ UNCHANGED <<fields, pend, pstage, gdecl, ops, want, obj, back, jkeys, wire2, gen>> /\ UNCH_side
DecodeByInput ==   \* dynamic message of the input descriptor parses the bytes
  /\ phase = "encoded" /\ back' = DecodeBy(InFields, wire) /\ phase' = "decoded"
  /\ UNCHANGED <<fields, pend, pstage, gdecl, ops, want, obj, wire, jkeys, wire2, gen>> /\ UNCH_side
ToJsonKeys ==      \* Class.to_json(instance)
  /\ phase = "decoded" /\ jkeys' = JsonOf(gdecl.fields, obj) /\ phase' = "json"
  /\ UNCHANGED <<fields, pend, pstage, gdecl, ops, want, obj, wire, back, wire2, gen>> /\ UNCH_side
EncodeByInput ==   \* the same valuation built and serialised with the input descriptor
  /\ phase = "json" /\ wire2' = EncodeBy(InFields, want) /\ phase' = "encodedIn"
  /\ UNCHANGED <<fields, pend, pstage, gdecl, ops, want, obj, wire, back, jkeys, gen>> /\ UNCH_side
DecodeGen ==       \* Class.deserialize(bytes), read back through the Python attributes
  /\ phase = "encodedIn" /\ gen' = DecodeBy(gdecl.fields, wire2) /\ phase' = "done"
  /\ UNCHANGED <<fields, pend, pstage, gdecl, ops, want, obj, wire, back, jkeys, wire2>> /\ UNCH_side

AddValue(nm, num) ==
  /\ subject = "enum" /\ phase = "build" /\ Len(evals) < MaxEnumValues
  /\ (evals = <<>>) => num = 0               \* proto3: the first value is zero
  /\ \A i \in 1..Len(evals) : evals[i].name # nm     \* names are unique; a NUMBER may repeat: the enum is then declared with
                                                      \* option allow_alias = true and every name stays a member (an alias)
  /\ evals' = Append(evals, [name |-> nm, number |-> num])
  /\ UNCHANGED <<subject, ctx, sh, fields, pend, pstage, phase, genum, tops, manifest>> /\ UNCH_vals
GenerateEnum ==
  /\ subject = "enum" /\ phase = "build" /\ evals # <<>>
  /\ genum' = GenEnum(evals) /\ phase' = "done"
  /\ UNCHANGED <<subject, ctx, sh, fields, pend, pstage, evals, tops, manifest>> /\ UNCH_vals
GenerateModule ==
  /\ subject = "file" /\ phase = "build"
  /\ manifest' = GenManifest(tops) /\ phase' = "done"
  /\ UNCHANGED <<subject, ctx, sh, fields, pend, pstage, evals, genum, tops>> /\ UNCH_vals

SlotChoices == CASE Tied -> { <<nm, TiedNumber(nm)>> : nm \in NamePool }
                 [] Scope = "one" -> { <<<<W("class", "Class")>>, 1>>, <<<<W("page", "Page"), W("size", "Size")>>, 16>>,
                                       <<<<W("display", "Display"), W("name", "Name")>>, 536870911>> }
                 [] OTHER -> NamePool \X NumPool
Next == \/ \E s \in SlotChoices : BeginField(s[1], s[2])
        \/ \E t \in TypeChoices(ctx) : TypeField(t)
        \/ \E p \in PlaceChoices : PlaceField(p)
        \/ Generate
        \/ \E o \in OpChoices : Op(o)
        \/ Encode \/ DecodeByInput \/ ToJsonKeys \/ EncodeByInput \/ DecodeGen
        \/ \E nm \in EnumNames, num \in EnumNums : AddValue(nm, num)
        \/ GenerateEnum \/ GenerateModule
Spec == Init /\ [][Next]_vars /\ WF_vars(Next)

-----------------------------------------------------------------------------
(* The property, clause by clause.                                         *)
Built == subject = "message" /\ phase # "build"
After(p) == CASE p = "encoded" -> phase \in {"encoded", "decoded", "json", "encodedIn", "done"}
              [] p = "decoded" -> phase \in {"decoded", "json", "encodedIn", "done"}
              [] p = "json"    -> phase \in {"json", "encodedIn", "done"}
              [] OTHER         -> phase = "done"

\* the builder only produces descriptor sets protoc accepts
Inv_WF == subject = "message" => WF(fields)
\* same fields: number, type, cardinality, oneof membership, explicit presence, map key / value types, nesting
Inv_SameFields == Built =>
   /\ gdecl.path = sh.path /\ gdecl.msgs = sh.msgs /\ gdecl.enums = sh.enums
   /\ Len(gdecl.fields) = Len(fields)
   /\ \A i \in 1..Len(fields) : LET g == gdecl.fields[i]  f == fields[i] IN
        /\ g.number = f.number /\ g.kind = f.kind /\ g.ref = f.ref /\ g.card = f.card /\ g.key = f.key
        /\ g.oneof = f.group /\ g.presence = HasPresence(f)
\* the Python attribute is the proto field name except for ONE trailing underscore on reserved words
Inv_Attr == Built => \A i \in 1..Len(fields) : LET s == Snake(fields[i].name)  a == gdecl.fields[i].attr IN
   /\ a \in {s, s \o "_"} /\ a \notin Reserved /\ (s \notin Reserved => a = s)
Inv_AttrDistinct == Built => \A i, j \in 1..Len(fields) : i # j => gdecl.fields[i].attr # gdecl.fields[j].attr
\* bytes of the generated class parse losslessly under the input descriptor ...
Inv_RoundTripOut == (subject = "message" /\ After("decoded")) => back = Norm(InFields, want) /\ Lost(InFields, wire) = {}
\* ... and vice versa
Inv_RoundTripIn == (subject = "message" /\ After("done")) => gen = Norm(InFields, want) /\ Lost(gdecl.fields, wire2) = {}
\* presence: explicit presence survives a default value; a plain scalar holding its default is absent from the wire
Inv_Presence == (subject = "message" /\ After("encoded")) => \A i \in 1..Len(fields) :
   LET onwire == fields[i].number \in DOMAIN wire IN
   IF Singular(fields[i]) /\ ~HasPresence(fields[i]) THEN onwire <=> (want[i] # <<>> /\ want[i] # <<0>>)
   ELSE onwire <=> want[i] # <<>>
\* at most one member of a oneof is ever on the wire
Inv_OneofExclusive == (subject = "message" /\ After("encoded")) => \A i, j \in 1..Len(fields) :
   (i # j /\ fields[i].group # "" /\ fields[i].group = fields[j].group) => ~(fields[i].number \in DOMAIN wire /\ fields[j].number \in DOMAIN wire)
\* JSON is keyed by the lowerCamel form of the ORIGINAL proto field names
Inv_Json == (subject = "message" /\ After("json")) => JsonMust \subseteq jkeys /\ jkeys \subseteq JsonMay
\* enums: the same (name, number) set
Inv_Enum == (subject = "enum" /\ phase = "done") => genum = { <<evals[i].name, evals[i].number>> : i \in 1..Len(evals) }
\* every top-level message and enum is in the module manifest
Inv_Manifest == (subject = "file" /\ phase = "done") => manifest = tops
Live == <>(phase = "done")

-----------------------------------------------------------------------------
\* spec -> code: one case per final state with the observables the specification predicts
SetSeq(S) == SetToSeq(S)
Case == [ subject |-> subject, ctx |-> ctx, fields |-> fields,
          decl |-> [path |-> gdecl.path, msgs |-> SetSeq(gdecl.msgs), enums |-> SetSeq(gdecl.enums), fields |-> gdecl.fields],
          ops |-> ops,
          out |-> IF subject = "message" THEN Norm(InFields, want) ELSE <<>>,
          nums |-> IF subject = "message" THEN SetSeq(DOMAIN wire) ELSE <<>>,
          jsonMust |-> IF subject = "message" THEN SetSeq(JsonMust) ELSE <<>>,
          jsonMay |-> IF subject = "message" THEN SetSeq(JsonMay) ELSE <<>>,
          evals |-> evals, genum |-> SetSeq(genum), tops |-> SetSeq(tops), manifest |-> SetSeq(manifest) ]
Emit == phase = "done" => PrintT(<<"CASE", ToJson(Case)>>)
=============================================================================
