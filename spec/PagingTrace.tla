----------------------------- MODULE PagingTrace -----------------------------
(* Validates the schema's classification of every method (the `Method` hook event, field paged_field) against Paging. *)
EXTENDS Paging, IOUtils, TLCExt
VARIABLES tid
Traces == JsonDeserialize(IOEnv.TRACE_FILE)     \* [{shape: {...}, paged_field: "" | name}]
N == Len(Traces)
tvars == <<vars, tid>>
ShapeOf(t) == LET s == Traces[t].shape IN
  [pt |-> s.pt, ps |-> s.ps, mr |-> s.mr, npt |-> s.npt, layout |-> [i \in 1..Len(s.layout) |-> [name |-> s.layout[i].name, kind |-> s.layout[i].kind]]]
TInit == tid = 1 /\ TLCSet(1, 0) /\ TLCSet(2, <<0, 0>>) /\ shape = ShapeOf(1) /\ verdict = "" /\ stage = "declared"
TClassify == tid <= N /\ Classify /\ verdict' = Traces[tid].paged_field /\ UNCHANGED tid
TNextTrace == /\ tid <= N /\ stage = "classified" /\ TLCSet(1, tid) /\ tid' = tid + 1
              /\ IF tid + 1 <= N THEN shape' = ShapeOf(tid + 1) /\ verdict' = "" /\ stage' = "declared" ELSE UNCHANGED vars
TSpec == TInit /\ [][TClassify \/ TNextTrace]_tvars
Progress == TLCSet(2, <<tid, 1>>)
Accepted == PrintT(<<"ACCEPTED", TLCGet(1)>>) /\ PrintT(<<"REACHED", TLCGet(2)>>) /\ TLCGet(1) = N
=============================================================================
