CONSTANTS
  Verbs = {"get", "post", "put", "delete", "patch"}
  Rotate = TRUE
  PathIds = {"none", "name2", "nameT", "par2", "in2", "in4c"}
  Bodies = {"", "*", "inner"}
  MaxExtra = 1
  ReqSetIds = {"mixed", "scalars"}
  PathValIds = {"i2", "s4"}
  VarLeaves = {"name", "parent", "inner.name", "inner.kind"}
  Numerics = {FALSE, TRUE}
  RespTypes = {"A", "B"}
  ReplyIds = {"part"}
  Calls = 1
  Mutant = "none"
SPECIFICATION Spec
INVARIANT Emit
