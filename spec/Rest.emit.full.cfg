CONSTANTS
  Verbs = {"get", "post", "put", "delete", "patch"}
  Rotate = TRUE
  PathIds = {"none", "name2", "par2", "in2"}
  Bodies = {"", "*", "inner"}
  MaxExtra = 1
  ReqSetIds = {"mixed"}
  PathValIds = {"i2", "s2"}
  VarLeaves = {"name", "parent", "inner.name", "inner.kind"}
  Numerics = {FALSE, TRUE}
  RespTypes = {"A", "P"}
  ReplyIds = {"part"}
  Calls = 1
  Mutant = "none"
SPECIFICATION Spec
INVARIANT Emit
