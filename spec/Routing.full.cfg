CONSTANTS MaxParams = 1 MaxVars = 2 Pool = "large" MaxCalls = 1 OptFields = {} MaxPages = 1 Mutant = "none"
SPECIFICATION Spec
INVARIANT Inv_Explicit
INVARIANT Inv_NoHeaderWhenNothing
INVARIANT Inv_Implicit
INVARIANT Inv_KeysOriginal
INVARIANT Inv_Encoded
INVARIANT Inv_Agree
INVARIANT Inv_Fold
INVARIANT Inv_FoldDecl
INVARIANT Inv_MatchGen
INVARIANT Inv_Bounded
