CONSTANTS MaxPages = 5 MaxSize = 3 Mutant = "none"
SPECIFICATION Spec
INVARIANT Inv_Once
INVARIANT Inv_Order
INVARIANT Inv_Tokens
INVARIANT Inv_Unchanged
INVARIANT Inv_Stop
INVARIANT Inv_NoOverrun
INVARIANT Inv_Attr
PROPERTY Live
