CONSTANTS MaxPages = 5 MaxSize = 3 Mutant = "none"
SPECIFICATION Spec
INVARIANT Emit
