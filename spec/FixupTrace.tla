----------------------------- MODULE FixupTrace -----------------------------
(***************************************************************************)
(* Batched trace validation for Fixup (code -> spec).  TRACE_FILE holds    *)
(*   [ {key, method, params: [..],                                         *)
(*      events: [ {ev: "out",   attr, name, pos: [..], kw: [[k, id]..],    *)
(*                 rattr, rname, rpos, rkw: [[k, id]..], rdict: [[k, id]..]}*)
(*                {ev: "again", rattr, rname, rpos, rkw, rdict} .. ]} .. ] *)
(* one trace per source file that was run through the REAL emitted         *)
(* <Name>CallTransformer (method / params: the script's own                *)
(* METHOD_TO_PARAMS entry), two events per call of that file:              *)
(*   out    the call as written (attribute or plain name, positional       *)
(*          argument ids, keyword pairs) and the call the script wrote in  *)
(*          its place, read back with `ast` (r...: positional ids, keyword *)
(*          pairs with the dict literal written "D", the dict's            *)
(*          key/value pairs = request keys/values; the pairs after         *)
(*          `request` are the control kwargs),                             *)
(*   again  what the script made of its own output.                        *)
(* Every event is the LAST step of a pass of the machine (the step that    *)
(* sets pc = "done"); the steps before it are not observable from outside  *)
(* and are taken silently.  The logged result must be the primed `out`.    *)
(* Total = FALSE: the batch stops at the first trace no action accepts     *)
(* (README convention).  Total = TRUE: such a trace is reported with       *)
(* <<"REJECTED", tid, l>> and the batch goes on (total verdicts, one run). *)
(***************************************************************************)
EXTENDS Fixup, IOUtils, TLCExt
CONSTANT Total
VARIABLES tid, l
Traces == JsonDeserialize(IOEnv.TRACE_FILE)
N == Len(Traces)
tvars == <<vars, tid, l>>
Ev == Traces[tid].events

CallOf(e) == [attr |-> e.attr, name |-> e.name, pos |-> e.pos, kw |-> e.kw, dict |-> <<>>]
ResOf(e) == [attr |-> e.rattr, name |-> e.rname, pos |-> e.rpos, kw |-> e.rkw, dict |-> e.rdict]

TInit == /\ tid = 1 /\ l = 1 /\ TLCSet(1, 0) /\ TLCSet(2, <<0, 0>>)
         /\ method = Traces[1].method /\ params = Traces[1].params
         /\ orig = NoCall /\ call = NoCall /\ pass = 1 /\ pc = "idle"
         /\ entry = <<>> /\ args = <<>> /\ kwargs = <<>> /\ ctrlKw = <<>> /\ fieldPos = <<>> /\ request = <<>>
         /\ out = NoCall /\ first = NoCall
Blank == /\ entry' = <<>> /\ args' = <<>> /\ kwargs' = <<>> /\ ctrlKw' = <<>> /\ fieldPos' = <<>> /\ request' = <<>>
         /\ out' = NoCall /\ first' = NoCall /\ pass' = 1
ResetFor(t) == /\ method' = Traces[t].method /\ params' = Traces[t].params
               /\ orig' = NoCall /\ call' = NoCall /\ pc' = "idle" /\ Blank

IsEvent(e) == tid <= N /\ l <= Len(Ev) /\ Ev[l].ev = e /\ l' = l + 1 /\ tid' = tid
Idle == pc = "idle" \/ Done
\* the next call of the file enters the machine
TLoad == /\ tid <= N /\ l <= Len(Ev) /\ Ev[l].ev = "out" /\ Idle
         /\ orig' = CallOf(Ev[l]) /\ call' = CallOf(Ev[l]) /\ pc' = "lookup" /\ Blank
         /\ UNCHANGED <<method, params, tid, l>>
TSilent == /\ tid <= N /\ ~Idle /\ (Machine \/ Again) /\ pc' # "done" /\ UNCHANGED <<tid, l>>
TOut   == IsEvent("out") /\ pass = 1 /\ orig = CallOf(Ev[l]) /\ Machine /\ pc' = "done" /\ out' = ResOf(Ev[l])
TAgain == IsEvent("again") /\ pass = 2 /\ Machine /\ pc' = "done" /\ out' = ResOf(Ev[l])
TStep == TLoad \/ TSilent \/ TOut \/ TAgain

Terminal == l = Len(Ev) + 1 /\ Idle
Advance == /\ TLCSet(1, tid) /\ tid' = tid + 1 /\ l' = 1
           /\ IF tid + 1 <= N THEN ResetFor(tid + 1) ELSE UNCHANGED vars
TNextTrace == tid <= N /\ Terminal /\ Advance
TReject == /\ Total /\ tid <= N /\ ~Terminal /\ ~ENABLED TStep
           /\ PrintT(<<"REJECTED", tid, l>>) /\ Advance
TNext == TStep \/ TNextTrace \/ TReject
TSpec == TInit /\ [][TNext]_tvars
Progress == TLCSet(2, <<tid, l>>)          \* CONSTRAINT: remembers how far the batch got (workers 1)
Accepted == PrintT(<<"ACCEPTED", TLCGet(1)>>) /\ PrintT(<<"REACHED", TLCGet(2)>>) /\ TLCGet(1) = N
=============================================================================
