CONSTANTS Scope = "table" TableLo = 1 NTable = 2 MaxLen = 3 RunCalls = TRUE Transports = {"grpc", "grpc_asyncio", "rest"} FreeJitter = FALSE Mutant = "none"
SPECIFICATION Spec
INVARIANT EmitRun
