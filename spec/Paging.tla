------------------------------- MODULE Paging -------------------------------
(***************************************************************************)
(* C07, first sentence: WHICH methods are exposed as paginated, and over   *)
(* which response field.  Written from the property text (AIP-4233):       *)
(*   request : string page_token  AND  ( integer page_size  OR  legacy     *)
(*             max_results that is an integer or Int32Value/UInt32Value )  *)
(*   response: string next_page_token AND at least one repeated field;     *)
(*   the pager iterates the FIRST repeated response field (declaration     *)
(*   order; map fields are repeated fields).                               *)
(* A shape is a choice of type for each of the four magic fields plus a    *)
(* layout of the response's other fields.  A wrapper-typed page_size       *)
(* without a valid max_results is a don't-care (the property attaches the  *)
(* wrapper allowance to max_results only): such shapes are not generated.  *)
(***************************************************************************)
EXTENDS Naturals, Sequences, FiniteSets, TLC, Json

CONSTANT Mutant
\* "opt_*" = proto3 optional (explicit presence; the descriptor puts the field into a synthetic oneof) - still a string / an integer
PageTokenKinds == {"absent", "string", "opt_string", "int32", "bytes"}
PageSizeKinds == {"absent", "int32", "opt_int32", "int64", "uint32", "string", "bool", "Int32Value", "UInt32Value"}
MaxResultsKinds == {"absent", "int32", "uint32", "opt_uint32", "string", "Int32Value", "UInt32Value", "Int64Value"}
NextTokenKinds == {"absent", "string", "int32"}
\* response layouts: sequence of [name, kind] in declaration order; kinds: rep_msg, rep_scalar, map, single_msg, scalar
Layouts == { <<>>,
             <<[name |-> "items", kind |-> "rep_msg"]>>,
             <<[name |-> "names", kind |-> "rep_scalar"]>>,
             <<[name |-> "by", kind |-> "map"]>>,
             <<[name |-> "names", kind |-> "rep_scalar"], [name |-> "items", kind |-> "rep_msg"]>>,
             <<[name |-> "items", kind |-> "rep_msg"], [name |-> "names", kind |-> "rep_scalar"]>>,
             <<[name |-> "item", kind |-> "single_msg"]>>,
             <<[name |-> "item", kind |-> "single_msg"], [name |-> "by", kind |-> "map"], [name |-> "items", kind |-> "rep_msg"]>>,
             <<[name |-> "others", kind |-> "rep_other_file"]>> }
IntKinds == {"int32", "int64", "uint32", "opt_int32", "opt_uint32"}
StringKinds == {"string", "opt_string"}
WrapperOk == {"Int32Value", "UInt32Value"}

VARIABLES shape, verdict, stage
vars == <<shape, verdict, stage>>
Shapes == [pt : PageTokenKinds, ps : PageSizeKinds, mr : MaxResultsKinds, npt : NextTokenKinds, layout : Layouts]
DontCare(s) == s.ps \in WrapperOk /\ ~(s.mr \in IntKinds \cup WrapperOk)
Init == shape \in {s \in Shapes : ~DontCare(s)} /\ verdict = "" /\ stage = "declared"

Repeated(k) == k \in {"rep_msg", "rep_scalar", "map", "rep_other_file"}
FirstRepeated(l) == IF \E i \in 1..Len(l) : Repeated(l[i].kind)
                    THEN l[CHOOSE i \in 1..Len(l) : Repeated(l[i].kind) /\ \A j \in 1..(i-1) : ~Repeated(l[j].kind)].name
                    ELSE ""
SizeOk(s) == CASE Mutant = "string_page_size" -> s.ps \in IntKinds \cup {"string"} \/ s.mr \in IntKinds \cup WrapperOk
               [] OTHER -> s.ps \in IntKinds \/ s.mr \in IntKinds \cup WrapperOk
IsPaged(s) == s.pt \in StringKinds /\ s.npt = "string" /\ SizeOk(s) /\ FirstRepeated(s.layout) # ""
LastRepeated(l) == l[CHOOSE i \in 1..Len(l) : Repeated(l[i].kind) /\ \A j \in (i+1)..Len(l) : ~Repeated(l[j].kind)].name
ItemField(s) == IF ~IsPaged(s) THEN "" ELSE IF Mutant = "last_repeated" THEN LastRepeated(s.layout) ELSE FirstRepeated(s.layout)

Classify == stage = "declared" /\ verdict' = ItemField(shape) /\ stage' = "classified" /\ UNCHANGED shape
Next == Classify
Spec == Init /\ [][Next]_vars /\ WF_vars(Next)

\* the property, restated on the verdict
Inv_ExactlyWhen == stage = "classified" =>
   ((verdict # "") <=> ( shape.pt \in StringKinds /\ shape.npt = "string"
                         /\ (shape.ps \in IntKinds \/ shape.mr \in IntKinds \cup WrapperOk)
                         /\ \E i \in 1..Len(shape.layout) : Repeated(shape.layout[i].kind) ))
Inv_FirstRepeated == stage = "classified" /\ verdict # "" =>
   \E i \in 1..Len(shape.layout) : shape.layout[i].name = verdict /\ Repeated(shape.layout[i].kind)
                                   /\ \A j \in 1..(i-1) : ~Repeated(shape.layout[j].kind)
Live == <>(stage = "classified")
Case == [shape |-> shape, paged_field |-> verdict]
Emit == stage = "classified" => PrintT(<<"CASE", ToJson(Case)>>)
=============================================================================
