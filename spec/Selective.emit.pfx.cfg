CONSTANTS Scope = "pfx" OneByOne = FALSE Mutant = "none" Pick = {}
SPECIFICATION Spec
INVARIANT Emit
