CONSTANTS Scope = "thorough" Mutant = "none"
SPECIFICATION Spec
INVARIANT Emit
CONSTRAINT EmitOnly
