CONSTANTS
  Mutant = "none"
  Lvals = {}
  LoopVals = {}
  Roots = {}
  RootSels = {}
  Attrs1 = {}
  Sels1 = {}
  Attrs2 = {}
  Len2 = 0
  Kinds = {}
  LoopForms = {}
  ReqKeys = {}
  MaxReq = 0
  MaxLen = 99
  MaxDepth = 9
SPECIFICATION TSpec
CONSTRAINT Progress
INVARIANT Inv_Type
INVARIANT Inv_Verdict
INVARIANT Inv_ReadsDefined
INVARIANT Inv_LexicalScope
INVARIANT Inv_LoopVarLeaves
INVARIANT Inv_NoRedefinition
INVARIANT Inv_Reserved
INVARIANT Inv_Binds
INVARIANT Inv_LoopForm
INVARIANT Inv_FormatArity
INVARIANT Inv_NoInvalid
INVARIANT Inv_ErrSound
INVARIANT Inv_Request
POSTCONDITION Accepted
CHECK_DEADLOCK FALSE
