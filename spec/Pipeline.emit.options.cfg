CONSTANT Scope = "options"
SPECIFICATION Spec
INVARIANT Emit
