----------------------------- MODULE RetryTrace -----------------------------
(***************************************************************************)
(* Batched trace validation for Retry (code -> spec).  TRACE_FILE holds    *)
(*   [ {cid, cfg, run, script, events:[{ev, ..}..]} .. ]                   *)
(* Two kinds of trace:                                                     *)
(*   run = FALSE  generation: cfg is the abstract service config (cid = 0) *)
(*                or cid names ConfigTab[cid]; events are one `load` per   *)
(*                method, projected from the Method hook events of the     *)
(*                real API.build (fields retry / timeout);                 *)
(*   run = TRUE   one client call against the library generated from       *)
(*                ConfigTab[cid], recorded by harness/drivers/retry.py     *)
(*                (invoke attempt fault reply sleep return raise) over grpc *)
(*                (sync, asyncio) or rest (invoke.transport); the          *)
(*                trace starts in the state reached by the LoadMethod      *)
(*                steps (Inv_Loaded), script is the server's input.        *)
(* Every action is  IsEvent(name) /\ <spec action> /\ <logged fields =     *)
(* primed variables>,  so each invariant of Retry is evaluated after every *)
(* recorded step of the real code.                                         *)
(***************************************************************************)
EXTENDS Retry, IOUtils, TLCExt
VARIABLES tid, l
Traces == JsonDeserialize(IOEnv.TRACE_FILE)
NT == Len(Traces)
tvars == <<vars, tid, l>>
Ev == Traces[tid].events

SetOf(s) == {s[i] : i \in 1..Len(s)}
EntryOf(j) == [names |-> {[svc |-> j.names[i].svc, meth |-> j.names[i].meth] : i \in 1..Len(j.names)},
               timeout |-> j.timeout,
               policy |-> [on |-> j.policy.on, init |-> j.policy.init, max |-> j.policy.max, mult |-> j.policy.mult,
                           codes |-> SetOf(j.policy.codes), maxAttempts |-> j.policy.maxAttempts]]
CfgOf(t) == IF Traces[t].cid > 0 THEN ConfigTab[Traces[t].cid]
            ELSE [i \in 1..Len(Traces[t].cfg) |-> EntryOf(Traces[t].cfg[i])]
ScriptOf(t) == [i \in 1..Len(Traces[t].script) |-> Traces[t].script[i]]

ResetFor(t) == /\ cid' = Traces[t].cid /\ cfg' = CfgOf(t)
               /\ stage' = IF Traces[t].run THEN "loaded" ELSE "config"
               /\ res' = IF Traces[t].run THEN ResolveAll(CfgOf(t)) ELSE <<>>
               /\ target' = N("", "") /\ transport' = "grpc" /\ ovr' = NoOvr /\ eff' = [retry |-> NoRetry, timeout |-> No]
               /\ script0' = <<>> /\ script' = <<>> /\ jit' = <<1, 1>>
               /\ attempt' = 0 /\ now' = 0 /\ bound' = 0 /\ pc' = "idle" /\ fault' = "" /\ sleeps' = <<>>
               /\ rpcTimeouts' = <<>> /\ faults' = <<>> /\ outcome' = "pending" /\ refused' = No
TInit == /\ tid = 1 /\ l = 1 /\ TLCSet(1, 0) /\ TLCSet(2, <<0, 0>>)
         /\ cid = Traces[1].cid /\ cfg = CfgOf(1)
         /\ stage = IF Traces[1].run THEN "loaded" ELSE "config"
         /\ res = IF Traces[1].run THEN ResolveAll(CfgOf(1)) ELSE <<>>
         /\ target = N("", "") /\ transport = "grpc" /\ ovr = NoOvr /\ eff = [retry |-> NoRetry, timeout |-> No]
         /\ script0 = <<>> /\ script = <<>> /\ jit = <<1, 1>>
         /\ attempt = 0 /\ now = 0 /\ bound = 0 /\ pc = "idle" /\ fault = "" /\ sleeps = <<>>
         /\ rpcTimeouts = <<>> /\ faults = <<>> /\ outcome = "pending" /\ refused = No

IsEvent(e) == tid <= NT /\ l <= Len(Ev) /\ Ev[l].ev = e /\ l' = l + 1 /\ tid' = tid

\* the Method hook event of the real API.build: retry / timeout of the next method in declaration order
TLoad == /\ IsEvent("load") /\ LoadMethod
         /\ LET k == Len(res') r == res'[Len(res')] e == Ev[l] IN
            /\ Selectors[k] = [svc |-> e.svc, meth |-> e.meth]
            /\ r.timeout = e.timeout
            /\ r.policy.on = e.r_on /\ r.policy.init = e.r_init /\ r.policy.max = e.r_max
            /\ r.policy.mult = e.r_mult /\ r.policy.codes = SetOf(e.r_codes)
OvrOf(e) == [rmode |-> e.rmode,
             r |-> [on |-> e.r_on, init |-> e.r_init, max |-> e.r_max, mult |-> e.r_mult, codes |-> SetOf(e.r_codes),
                    deadline |-> e.r_deadline],
             timeout |-> e.timeout]
TInvoke  == IsEvent("invoke") /\ Traces[tid].run
            /\ Invoke([svc |-> Ev[l].svc, meth |-> Ev[l].meth], Ev[l].transport, OvrOf(Ev[l]), ScriptOf(tid), <<1, 1>>)
TAttempt == IsEvent("attempt") /\ Attempt /\ Last(rpcTimeouts') = Ev[l].timeout
TFault   == IsEvent("fault") /\ ServerFault /\ fault' = Ev[l].code
TReply   == IsEvent("reply") /\ ServerOk
TSleep   == IsEvent("sleep") /\ Backoff(Ev[l].slept) /\ Ev[l].asked = bound
TReturn  == IsEvent("return") /\ Return
TRaise   == /\ IsEvent("raise")
            /\ IF Ev[l].code = "RetryError" THEN GiveUp(Ev[l].slept) /\ Ev[l].asked = bound
               ELSE Surface /\ outcome' = Ev[l].code
TNextTrace == /\ tid <= NT /\ l = Len(Ev) + 1
              /\ IF Traces[tid].run THEN stage = "done" ELSE stage = "loaded"
              /\ TLCSet(1, tid)
              /\ tid' = tid + 1 /\ l' = 1
              /\ IF tid + 1 <= NT THEN ResetFor(tid + 1) ELSE UNCHANGED vars
TNext == TLoad \/ TInvoke \/ TAttempt \/ TFault \/ TReply \/ TSleep \/ TReturn \/ TRaise \/ TNextTrace
TSpec == TInit /\ [][TNext]_tvars
Progress == TLCSet(2, <<tid, l>>)          \* CONSTRAINT: remembers how far the batch got (workers 1)
Accepted == PrintT(<<"ACCEPTED", TLCGet(1)>>) /\ PrintT(<<"REACHED", TLCGet(2)>>) /\ TLCGet(1) = NT
=============================================================================
