CONSTANTS Mutant = "none" NPs = {3, 4} MaxPos = 5 MaxArgs = 6 MaxArgsOther = 3 MaxKwFixed = 3
SPECIFICATION Spec
INVARIANT Emit
