CONSTANTS MaxFeatures = 9 MinFeatures = 5 Avoid = {"f_subpackage", "f_upper_file"}
SPECIFICATION Spec
INVARIANT Inv_WF
INVARIANT Inv_Default
INVARIANT Inv_RegistryRequested
INVARIANT Inv_OneSyncClientPerService
INVARIANT Inv_AsyncIffGrpc
INVARIANT Inv_PagedLroDisjoint
