CONSTANTS Scope = "full" Mutant = "none" DepEnumOffered = FALSE
SPECIFICATION Spec
INVARIANT Emit
