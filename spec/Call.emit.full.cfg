CONSTANTS Scope = "full" Mutant = "none"
SPECIFICATION Spec
INVARIANT Emit
