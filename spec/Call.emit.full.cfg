CONSTANTS Scope = "full" Mutant = "none" DepEnumOffered = FALSE DepMapOffered = FALSE
SPECIFICATION Spec
INVARIANT Emit
