CONSTANT Mutant = "none"
SPECIFICATION Spec
INVARIANT Inv_OverrideWins
INVARIANT Inv_InstanceHost
INVARIANT Inv_InstanceExclusive
INVARIANT Inv_KeyXorCredentials
INVARIANT Inv_NoCertUnlessAsked
INVARIANT Inv_ProvidedBeatsDefault
INVARIANT Inv_OptionBeatsEnv
INVARIANT Inv_MtlsOnlyDefaultUniverse
INVARIANT Inv_NeverMeansNever
INVARIANT Inv_UniverseNotBlank
PROPERTY Live
