------------------------------- MODULE Retry -------------------------------
(***************************************************************************)
(* Default retry and timeout of a method of the emitted library (C09).     *)
(*                                                                         *)
(* Two layers, one state machine:                                          *)
(*                                                                         *)
(*  generation   LoadMethod  (pass 2 of API.build, _get_retry_and_timeout) *)
(*               looks every method up in the gRPC service config: the     *)
(*               FIRST methodConfig entry whose `name` list contains       *)
(*               {service, method} EXACTLY; duration strings -> ticks,     *)
(*               status names -> canonical codes.  A name with only        *)
(*               `service` names no method.                                *)
(*  run time     one client call through the wrapped-method table:         *)
(*     Invoke      client.m(request, retry=, timeout=)                     *)
(*     Attempt     one RPC on the channel, timeout kwarg = remaining budget*)
(*     ServerFault / ServerOk   the scripted server answers                *)
(*     Surface     a fault that is not retryable reaches the caller        *)
(*     GiveUp(d)   retryable, but now + d > deadline: RetryError, checked  *)
(*                 BEFORE sleeping                                         *)
(*     Backoff(d)  sleep d in [0, bound]; bound' = Min(bound*mult, max)    *)
(*     Return      the reply reaches the caller                            *)
(*                                                                         *)
(* Durations are integers in ticks, U = 512000 ticks per second            *)
(* (2^12 * 5^3: decimal milliseconds and dyadic fractions down to 1/4096 s *)
(* are integral; 60 s * 13 still fits 32 bit).  Multipliers are rationals  *)
(* <<num, den>>.  No = -1 stands for None, Dflt = -2 for "argument not      *)
(* given".                                                                 *)
(*                                                                         *)
(* Named deviations (what the code does and the property does not forbid): *)
(*   ApiCoreDefault   a zero/absent initialBackoff, maxBackoff or          *)
(*                    backoffMultiplier is not rendered into the table and *)
(*                    api-core's default applies (1 s, 60 s, 2);           *)
(*   MaxAttemptsIgnored  maxAttempts is parsed but never limits attempts;  *)
(*   ApiCoreFloor     TimeToDeadlineTimeout hands the WHOLE timeout to an  *)
(*                    attempt again when the remaining budget is < 1 s,    *)
(*                    and treats an elapsed time < 1 ms as 0;              *)
(*   TimeoutOverrideKeepsRetryDeadline  an explicit timeout= replaces the  *)
(*                    call deadline only; the overall retry deadline is    *)
(*                    part of the retry object (default or explicit).      *)
(*   RestStatusMapping  over REST the server answers HTTP statuses and     *)
(*                    api-core picks the exception class by HTTP status    *)
(*                    alone; only for the codes in RestExact is that the   *)
(*                    class the retry predicate of the table lists (for    *)
(*                    the others it is a parent class, e.g. 504 ->         *)
(*                    GatewayTimeout, never DeadlineExceeded).  REST fault *)
(*                    scripts are drawn from RestExact.                    *)
(*                                                                         *)
(*   AsyncStreamNoRetry  the asyncio client hands a client-streaming / bidi *)
(*                    call object back before any status exists (grpc.aio; *)
(*                    api-core's async error wrapper only awaits the       *)
(*                    connection), so the retry wrapper has returned when  *)
(*                    the fault arrives: over grpc_asyncio a streaming     *)
(*                    call is NEVER retried - a divergence from "retried   *)
(*                    exactly on the entry's codes" that is modelled, named *)
(*                    in Inv_Surface and reported, not asserted.           *)
(*                                                                         *)
(* The transport (grpc | grpc_asyncio | rest), the method's arity and      *)
(* whether its http rule has a body are INPUT dimensions only: the property is the same for all of     *)
(* them - every attempt carries RpcTimeoutAt(effective timeout, elapsed)   *)
(* as the `timeout` of the channel call (gRPC) or of the HTTP session call *)
(* (REST), None when there is no effective timeout.                        *)
(***************************************************************************)
EXTENDS Integers, Sequences, FiniteSets, TLC, SequencesExt, FiniteSetsExt, Json

CONSTANTS Scope,       \* which configs Init draws from: "table" | "sel_small" | "sel_full" | "sel3" | "values"
          TableLo, NTable,   \* "table": configs ConfigTab[TableLo..NTable]
          MaxLen,      \* longest server fault script
          RunCalls,    \* FALSE: resolution only (the behaviour ends once every method is loaded)
          Transports,  \* subset of {"grpc", "grpc_asyncio", "rest"} the calls are made over
          FreeJitter,  \* TRUE: every sleep picks its own jitter; FALSE: one jitter per call (case emission)
          Mutant       \* "none" for the real design; the others are self-test mutants TLC must reject

VARIABLES cid, cfg, stage, res, target, transport, ovr, eff, script0, script, jit,
          attempt, now, bound, pc, fault, sleeps, rpcTimeouts, faults, outcome, refused
vars == <<cid, cfg, stage, res, target, transport, ovr, eff, script0, script, jit,
          attempt, now, bound, pc, fault, sleeps, rpcTimeouts, faults, outcome, refused>>

U == 512000
No == -1
Dflt == -2
Min2(a, b) == IF a <= b THEN a ELSE b

-----------------------------------------------------------------------------
(* Vocabulary: duration strings, multipliers, canonical status codes.      *)
DurTab == ("" :> 0) @@ ("0s" :> 0) @@ ("0.001s" :> 512) @@ ("0.1s" :> 51200) @@ ("0.125s" :> 64000)
          @@ ("0.25s" :> 128000) @@ ("0.5s" :> 256000) @@ ("0.75s" :> 384000) @@ ("1s" :> 512000)
          @@ ("1.5s" :> 768000) @@ ("2s" :> 1024000) @@ ("2.5s" :> 1280000) @@ ("3s" :> 1536000)
          @@ ("4s" :> 2048000) @@ ("8s" :> 4096000) @@ ("16s" :> 8192000) @@ ("30s" :> 15360000)
          @@ ("60s" :> 30720000) @@ ("100000000n" :> 51200) @@ ("250000000n" :> 128000)
          @@ ("1500000000n" :> 768000) @@ ("2000000000n" :> 1024000) @@ ("1000000n" :> 512)
Ticks(tok) == DurTab[tok]
MultTab == ("" :> <<0, 1>>) @@ ("0" :> <<0, 1>>) @@ ("1" :> <<1, 1>>) @@ ("2" :> <<2, 1>>) @@ ("3" :> <<3, 1>>)
           @@ ("1.5" :> <<3, 2>>) @@ ("1.25" :> <<5, 4>>) @@ ("1.3" :> <<13, 10>>)
MultOf(tok) == MultTab[tok]

CodeSeq == <<"CANCELLED", "UNKNOWN", "INVALID_ARGUMENT", "DEADLINE_EXCEEDED", "NOT_FOUND", "ALREADY_EXISTS",
             "PERMISSION_DENIED", "RESOURCE_EXHAUSTED", "FAILED_PRECONDITION", "ABORTED", "OUT_OF_RANGE",
             "UNIMPLEMENTED", "INTERNAL", "UNAVAILABLE", "DATA_LOSS", "UNAUTHENTICATED">>
AllCodes == Range(CodeSeq)
CodeIdx(c) == CHOOSE i \in 1..Len(CodeSeq) : CodeSeq[i] = c
MinCode(S) == CodeSeq[Min({CodeIdx(c) : c \in S})]
MaxCode(S) == CodeSeq[Max({CodeIdx(c) : c \in S})]

(* The carrier API: two services; method names related by suffix / prefix; *)
(* the same method name in both services.  Order = declaration order.      *)
RT == "acme.rt.v1.Rt"
AD == "acme.rt.v1.RtAdmin"
N(s, m) == [svc |-> s, meth |-> m]
Selectors == <<N(RT, "Get"), N(RT, "BatchGet"), N(RT, "GetMore"), N(RT, "Put"), N(RT, "Drop"), N(RT, "Scan"),
               N(RT, "Poll"), N(RT, "Touch"), N(RT, "Upload"), N(RT, "Chat"), N(AD, "Get"), N(AD, "Put")>>
\* Upload is client-streaming (stream -> unary), Chat bidirectional; every other method is unary.  A streaming call
\* is retried like a unary one: the retry wrapper issues the call again (with the same, by then consumed, request
\* iterator), so "retried" means another call on the channel after a sleep.  No http rule: not available over REST.
ClientStreamMeths == {N(RT, "Upload")}
BidiMeths == {N(RT, "Chat")}
StreamMeths == ClientStreamMeths \cup BidiMeths
SuffixPairs == {<<"Get", "BatchGet">>}          \* <<a, b>>: b ends with a (used by a mutant only)
\* http rules of the carrier: these are bound with a request body (post, body "*"), the others without (get, delete)
BodyMeths == {N(RT, "BatchGet"), N(RT, "Put"), N(RT, "Touch"), N(AD, "Put")}
DeleteMeths == {N(RT, "Drop")}
\* codes whose HTTP status api-core maps back to exactly the exception class of the code (RestStatusMapping)
RestExact == {"CANCELLED", "NOT_FOUND", "UNIMPLEMENTED", "INTERNAL", "UNAVAILABLE"}
SessionDefault == 120 * U                        \* what the HTTP session applies when no timeout is passed (mutant only)

-----------------------------------------------------------------------------
(* Abstract gRPC service config: a sequence of entries                     *)
(*   [names : set of [svc, meth] (meth = "" : service-level name),         *)
(*    timeout : duration string or "" (absent),                            *)
(*    policy : [on, init, max : duration string or "", mult : string,      *)
(*              codes : set of status names, maxAttempts : Nat]]           *)
Pol(i, mx, mu, cs, ma) == [on |-> TRUE, init |-> i, max |-> mx, mult |-> mu, codes |-> cs, maxAttempts |-> ma]
NoPol == [on |-> FALSE, init |-> "", max |-> "", mult |-> "", codes |-> {}, maxAttempts |-> 0]
E(ns, t, p) == [names |-> ns, timeout |-> t, policy |-> p]

(* Configs that are generated in full and exercised at run time.           *)
ConfigTab == <<
  \* 1: several entries, an entry naming two methods, timeout with/without retryPolicy, retryPolicy without
  \*    timeout, a service-level name, api-core defaults, a later duplicate entry that must lose
  << E({N(RT, "Get"), N(RT, "Scan"), N(RT, "Upload")}, "8s", Pol("0.25s", "1s", "2", {"UNAVAILABLE", "DEADLINE_EXCEEDED"}, 5)),
     E({N(RT, "Put")}, "4s", NoPol),
     E({N(RT, "Drop"), N(RT, "Chat")}, "", Pol("0.5s", "4s", "1.5", {"ABORTED"}, 0)),
     E({N(RT, "")}, "2s", Pol("0.125s", "0.25s", "2", {"NOT_FOUND"}, 0)),
     E({N(AD, "Get")}, "1s", Pol("", "", "", {"INTERNAL"}, 3)),
     E({N(RT, "Get"), N(RT, "Poll")}, "1s", Pol("1s", "2s", "3", {"NOT_FOUND"}, 0)) >>,
  \* 2: tight deadlines (RetryError, the boundary now + sleep = deadline), Get named but not BatchGet/GetMore,
  \*    the same method name in the other service with another policy
  << E({N(RT, "Get")}, "1.5s", Pol("0.5s", "8s", "2", {"UNAVAILABLE"}, 0)),
     E({N(AD, "Get")}, "2s", Pol("0.5s", "1s", "1.5", {"RESOURCE_EXHAUSTED", "ABORTED"}, 0)),
     E({N(RT, "Put"), N(AD, "Put")}, "0.75s", Pol("0.25s", "0.5s", "2", {"INTERNAL", "UNKNOWN"}, 2)),
     E({N(RT, "Drop")}, "3s", Pol("2s", "0.5s", "2", {"CANCELLED"}, 0)),
     E({N(RT, "Scan"), N(RT, "Chat")}, "250000000n", NoPol),
     E({N(RT, "Upload")}, "2s", Pol("0.5s", "1s", "2", {"UNAVAILABLE", "INTERNAL"}, 0)),
     E({N(RT, "Poll")}, "2000000000n", Pol("250000000n", "1500000000n", "1.25", {"DATA_LOSS"}, 0)) >>,
  \* 3 and 4: every canonical status code as the single retryable code of some method
  << E({N(RT, "Get")}, "4s", Pol("0.25s", "1s", "2", {"CANCELLED"}, 0)),
     E({N(RT, "BatchGet")}, "4s", Pol("0.25s", "1s", "2", {"UNKNOWN"}, 0)),
     E({N(RT, "GetMore")}, "4s", Pol("0.25s", "1s", "2", {"INVALID_ARGUMENT"}, 0)),
     E({N(RT, "Put")}, "4s", Pol("0.25s", "1s", "2", {"DEADLINE_EXCEEDED"}, 0)),
     E({N(RT, "Drop")}, "4s", Pol("0.25s", "1s", "2", {"NOT_FOUND"}, 0)),
     E({N(RT, "Scan")}, "4s", Pol("0.25s", "1s", "2", {"ALREADY_EXISTS"}, 0)),
     E({N(RT, "Poll")}, "4s", Pol("0.25s", "1s", "2", {"PERMISSION_DENIED"}, 0)),
     E({N(RT, "Touch")}, "4s", Pol("0.25s", "1s", "2", {"RESOURCE_EXHAUSTED"}, 0)) >>,
  << E({N(RT, "Get")}, "2s", Pol("0.5s", "0.75s", "1.5", {"FAILED_PRECONDITION"}, 0)),
     E({N(RT, "BatchGet")}, "2s", Pol("0.5s", "0.75s", "1.5", {"ABORTED"}, 0)),
     E({N(RT, "GetMore")}, "2s", Pol("0.5s", "0.75s", "1.5", {"OUT_OF_RANGE"}, 0)),
     E({N(RT, "Put")}, "2s", Pol("0.5s", "0.75s", "1.5", {"UNIMPLEMENTED"}, 0)),
     E({N(RT, "Drop")}, "2s", Pol("0.5s", "0.75s", "1.5", {"INTERNAL"}, 0)),
     E({N(RT, "Scan")}, "2s", Pol("0.5s", "0.75s", "1.5", {"UNAVAILABLE"}, 0)),
     E({N(RT, "Poll")}, "2s", Pol("0.5s", "0.75s", "1.5", {"DATA_LOSS"}, 0)),
     E({N(RT, "Touch")}, "2s", Pol("0.5s", "0.75s", "1.5", {"UNAUTHENTICATED"}, 0)) >>,
  \* 5: zero / absent back-off values one at a time (ApiCoreDefault), empty code list
  << E({N(RT, "Get")}, "16s", Pol("0s", "4s", "2", {"UNAVAILABLE"}, 0)),
     E({N(RT, "BatchGet")}, "16s", Pol("0.5s", "", "2", {"UNAVAILABLE"}, 0)),
     E({N(RT, "GetMore")}, "16s", Pol("0.5s", "4s", "0", {"UNAVAILABLE"}, 0)),
     E({N(RT, "Put")}, "16s", Pol("", "0s", "", {"UNAVAILABLE", "INTERNAL"}, 0)),
     E({N(RT, "Drop")}, "16s", Pol("0.5s", "4s", "", {"UNAVAILABLE"}, 0)),
     E({N(RT, "Scan")}, "8s", Pol("0.25s", "1s", "2", {}, 0)),
     E({N(RT, "Poll")}, "", Pol("", "", "", {"ABORTED"}, 0)),
     E({N(AD, "Put")}, "", NoPol) >>,
  \* 6: pairs of codes, multipliers 1.25 / 3 / 1, maximum below initial, entry order against declaration order
  << E({N(AD, "Put"), N(AD, "Get")}, "3s", Pol("0.25s", "2s", "3", {"UNAUTHENTICATED", "CANCELLED"}, 0)),
     E({N(RT, "Touch"), N(RT, "Upload")}, "2.5s", Pol("0.5s", "0.25s", "2", {"OUT_OF_RANGE", "UNIMPLEMENTED"}, 0)),
     E({N(RT, "Poll")}, "4s", Pol("1s", "8s", "1.25", {"PERMISSION_DENIED", "ALREADY_EXISTS"}, 0)),
     E({N(RT, "BatchGet")}, "2s", Pol("0.5s", "2s", "1", {"INVALID_ARGUMENT", "FAILED_PRECONDITION"}, 0)),
     E({N(RT, "Get")}, "30s", Pol("1s", "4s", "2", {"UNKNOWN", "DATA_LOSS"}, 0)),
     E({N(RT, "GetMore"), N(RT, "BatchGet")}, "1s", NoPol) >>,
  \* 7: service-level names before and beside exact ones, an entry naming three methods of two services, timeouts
  \*    below one second (ApiCoreFloor), api-core defaults under a long deadline, constant back-off
  << E({N(RT, "")}, "1s", Pol("0.125s", "0.25s", "2", {"UNAVAILABLE"}, 0)),
     E({N(RT, ""), N(RT, "Get")}, "0.5s", Pol("0.125s", "0.5s", "2", {"INTERNAL", "UNAVAILABLE"}, 0)),
     E({N(RT, "BatchGet"), N(AD, "Get"), N(RT, "Touch")}, "60s", Pol("", "", "", {"UNAVAILABLE", "ABORTED"}, 0)),
     E({N(RT, "Get"), N(AD, "")}, "8s", Pol("1s", "1s", "2", {"NOT_FOUND"}, 0)),
     E({N(RT, "Put")}, "1s", Pol("0.5s", "0.5s", "1", {"DEADLINE_EXCEEDED"}, 0)),
     E({N(RT, "Drop")}, "0.125s", NoPol),
     E({N(RT, "Scan")}, "2.5s", Pol("0.75s", "3s", "1.5", {"UNKNOWN", "CANCELLED"}, 0)) >>
>>

Dyadic(t) == t % 125 = 0        \* a whole number of 1/4096 s: binary floating point is exact on these
ASSUME \A i \in 1..Len(ConfigTab) : \A k \in 1..Len(ConfigTab[i]) :
         LET e == ConfigTab[i][k] IN
         /\ Dyadic(Ticks(e.timeout)) /\ Dyadic(Ticks(e.policy.init)) /\ Dyadic(Ticks(e.policy.max))
         /\ MultOf(e.policy.mult)[2] \in {1, 2, 4}
         /\ e.timeout # "0s"

(* Enumerated configs for the selector-matching part.                      *)
PA == Pol("0.25s", "1s", "2", {"UNAVAILABLE"}, 0)
PB == Pol("0.1s", "30s", "1.3", {"ABORTED", "INTERNAL"}, 4)
UpTo2(Ent) == {<<e>> : e \in Ent} \cup {<<e1, e2>> : e1 \in Ent, e2 \in Ent}
SelSmall ==
  LET alpha == {N(RT, "Get"), N(RT, "BatchGet"), N(RT, ""), N(AD, "Get")}
      ent == [names : {S \in SUBSET alpha : Cardinality(S) \in 1..2}, timeout : {"", "1s"}, policy : {NoPol, PA}]
  IN UpTo2(ent)
SelFull ==
  LET alpha == {N(RT, "Get"), N(RT, "BatchGet"), N(RT, "Put"), N(RT, ""), N(AD, "Get"), N(AD, "")}
      ent == [names : {S \in SUBSET alpha : Cardinality(S) \in 1..2}, timeout : {"", "1s", "0.5s"},
              policy : {NoPol, PA, PB}]
  IN UpTo2(ent)
Sel3 ==
  LET ent == [names : {{N(RT, "Get")}, {N(RT, "")}, {N(AD, "Get")}}, timeout : {"", "1s"}, policy : {NoPol, PA}]
  IN {<<e1, e2, e3>> : e1 \in ent, e2 \in ent, e3 \in ent}
(* One value at a time around a base entry: every duration spelling, every *)
(* multiplier, every canonical code alone and in pairs.                    *)
Values ==
  LET durs == DOMAIN DurTab
      base(t, i, mx, mu, cs, ma) == <<E({N(RT, "Get")}, t, Pol(i, mx, mu, cs, ma))>>
  IN    {base(t, "0.5s", "8s", "2", {"UNAVAILABLE"}, 0) : t \in durs \ {"0s"}}
   \cup {base("30s", d, "8s", "2", {"UNAVAILABLE"}, 0) : d \in durs}
   \cup {base("30s", "0.5s", d, "2", {"UNAVAILABLE"}, 0) : d \in durs}
   \cup {base("30s", "0.5s", "8s", m, {"UNAVAILABLE"}, 0) : m \in DOMAIN MultTab}
   \cup {base("30s", "0.5s", "8s", "2", {c1, c2}, 0) : c1 \in AllCodes, c2 \in AllCodes}
   \cup {base("30s", "0.5s", "8s", "2", {}, k) : k \in 0..3}
   \cup {<<E({N(RT, "Get")}, t, NoPol)>> : t \in durs \ {"0s"}}

ConfigPairs == CASE Scope = "table"     -> {<<i, ConfigTab[i]>> : i \in TableLo..NTable}
                 [] Scope = "sel_small" -> {<<0, c>> : c \in SelSmall}
                 [] Scope = "sel_full"  -> {<<0, c>> : c \in SelFull}
                 [] Scope = "sel3"      -> {<<0, c>> : c \in Sel3}
                 [] Scope = "values"    -> {<<0, c>> : c \in Values}

-----------------------------------------------------------------------------
(* Generation: selector matching and conversion.                           *)
Matches(e, sel) ==
  CASE Mutant = "service_level" -> \E n \in e.names : n.svc = sel.svc /\ (n.meth = sel.meth \/ n.meth = "")
    [] Mutant = "suffix_match"  -> \E n \in e.names : n.svc = sel.svc
                                       /\ (n.meth = sel.meth \/ <<n.meth, sel.meth>> \in SuffixPairs)
    [] Mutant = "any_service"   -> \E n \in e.names : n.meth = sel.meth
    [] OTHER                    -> sel \in e.names
RECURSIVE Scan(_, _, _)
Scan(c, sel, i) == IF i > Len(c) THEN 0 ELSE IF Matches(c[i], sel) THEN i ELSE Scan(c, sel, i + 1)
RECURSIVE ScanLast(_, _, _)
ScanLast(c, sel, i) == IF i < 1 THEN 0 ELSE IF Matches(c[i], sel) THEN i ELSE ScanLast(c, sel, i - 1)
Pick(c, sel) == IF Mutant = "last_match" THEN ScanLast(c, sel, Len(c)) ELSE Scan(c, sel, 1)

RNoPol == [on |-> FALSE, init |-> 0, max |-> 0, mult |-> <<0, 1>>, codes |-> {}, maxAttempts |-> 0]
Resolve(c, sel) ==
  LET i == Pick(c, sel) IN
  IF i = 0 THEN [timeout |-> No, policy |-> RNoPol]
  ELSE LET p == c[i].policy IN
       [timeout |-> IF c[i].timeout = "" THEN No ELSE Ticks(c[i].timeout),
        policy  |-> IF p.on THEN [on |-> TRUE, init |-> Ticks(p.init), max |-> Ticks(p.max), mult |-> MultOf(p.mult),
                                  codes |-> p.codes, maxAttempts |-> p.maxAttempts]
                    ELSE RNoPol]
ResolveAll(c) == [k \in 1..Len(Selectors) |-> Resolve(c, Selectors[k])]
SelIdx(sel) == CHOOSE k \in 1..Len(Selectors) : Selectors[k] = sel

(* The wrapped-method table entry rendered from a resolved method.         *)
DefInit == U
DefMax == 60 * U
DefMult == <<2, 1>>
NoRetry == [on |-> FALSE, init |-> 0, max |-> 0, mult |-> <<1, 1>>, codes |-> {}, deadline |-> No]
TableEntry(r) ==
  LET p == r.policy IN
  [retry |-> IF p.on THEN [on |-> TRUE,
                           init |-> IF p.init = 0 THEN DefInit ELSE p.init,                 \* ApiCoreDefault
                           max  |-> IF p.max = 0 THEN DefMax ELSE p.max,
                           mult |-> IF p.mult[1] = 0 THEN DefMult ELSE p.mult,
                           codes |-> p.codes,                                               \* MaxAttemptsIgnored
                           deadline |-> IF Mutant = "no_deadline" THEN No ELSE r.timeout]
             ELSE NoRetry,
   timeout |-> r.timeout]
NoOvr == [rmode |-> "default", r |-> NoRetry, timeout |-> Dflt]
Effective(r, o) ==
  IF Mutant = "ignore_override" THEN TableEntry(r) ELSE
  [retry |-> CASE o.rmode = "default" -> TableEntry(r).retry
               [] o.rmode = "none"    -> NoRetry
               [] o.rmode = "custom"  -> o.r,
   timeout |-> IF o.timeout = Dflt THEN TableEntry(r).timeout ELSE o.timeout]   \* TimeoutOverrideKeepsRetryDeadline

-----------------------------------------------------------------------------
(* Arithmetic of the call.                                                 *)
Mul(b, m) == (b * m[1]) \div m[2]
Scale(b, phi) == (b * phi[1]) \div phi[2]
Jitter == {<<0, 1>>, <<1, 2>>, <<1, 1>>}
NextBound(b, r) == IF Mutant = "no_cap" THEN Mul(b, r.mult) ELSE Min2(Mul(b, r.mult), r.max)
FirstBound(r) == IF ~r.on THEN 0 ELSE IF Mutant = "init_uncapped" THEN r.init ELSE Min2(r.init, r.max)
RECURSIVE B(_, _)
B(r, i) == IF i = 1 THEN Min2(r.init, r.max) ELSE Min2(Mul(B(r, i - 1), r.mult), r.max)
RpcTimeoutAt(t, elapsed) ==
  IF t = No THEN No
  ELSE IF Mutant = "stale_timeout" THEN t
  ELSE LET el == IF elapsed < U \div 1000 THEN 0 ELSE elapsed
           rem == t - el
       IN IF rem < U THEN t ELSE rem                                                        \* ApiCoreFloor
\* the `timeout` one attempt carries: keyword of the channel call (grpc) / of the HTTP session call (rest)
AttemptTimeout ==
  IF Mutant = "rest_no_body_no_timeout" /\ transport = "rest" /\ target \notin BodyMeths THEN SessionDefault
  ELSE RpcTimeoutAt(eff.timeout, now)
AsyncStreamNoRetry == transport = "grpc_asyncio" /\ target \in StreamMeths
Retryable(c) == CASE AsyncStreamNoRetry -> FALSE
                  [] Mutant = "stream_no_default_retry" /\ target \in ClientStreamMeths /\ ovr.rmode = "default" -> FALSE
                  [] Mutant = "retry_all" -> eff.retry.on
                  [] OTHER -> eff.retry.on /\ c \in eff.retry.codes
Expired(d) == /\ eff.retry.deadline # No
              /\ IF Mutant = "check_after_sleep" THEN now > eff.retry.deadline ELSE now + d > eff.retry.deadline

(* Test inputs chosen by the specification: the fault alphabet of a call   *)
(* (two retryable codes and one that is not - preferably retryable for     *)
(* ANOTHER entry of the same config) and the explicit overrides.           *)
CfgCodes(c) == UNION {c[i].policy.codes : i \in 1..Len(c)}
Pal(c, r) ==
  LET own == r.policy.codes
      rs == IF own # {} THEN own ELSE IF CfgCodes(c) # {} THEN CfgCodes(c) ELSE {"UNAVAILABLE"}
      pref == CfgCodes(c) \ rs
      oth == IF pref # {} THEN pref ELSE IF "NOT_FOUND" \notin rs THEN {"NOT_FOUND"} ELSE AllCodes \ rs
  IN [r1 |-> MinCode(rs), r2 |-> MaxCode(rs), n |-> MinCode(oth)]
Custom(pal) == [on |-> TRUE, init |-> U \div 2, max |-> U, mult |-> <<2, 1>>, codes |-> {pal.n}, deadline |-> 2 * U]
Overrides(pal) ==
  { NoOvr,
    [rmode |-> "default", r |-> NoRetry, timeout |-> 3 * U],
    [rmode |-> "default", r |-> NoRetry, timeout |-> No],
    [rmode |-> "none", r |-> NoRetry, timeout |-> Dflt],
    [rmode |-> "custom", r |-> Custom(pal), timeout |-> Dflt],
    [rmode |-> "custom", r |-> Custom(pal), timeout |-> 3 * U] }
Scripts(pal) == SeqOf({pal.r1, pal.r2, pal.n}, MaxLen)

-----------------------------------------------------------------------------
Init == /\ \E p \in ConfigPairs : cid = p[1] /\ cfg = p[2]
        /\ stage = "config" /\ res = <<>> /\ target = N("", "") /\ transport = "grpc" /\ ovr = NoOvr
        /\ eff = [retry |-> NoRetry, timeout |-> No]
        /\ script0 = <<>> /\ script = <<>> /\ jit = <<1, 1>>
        /\ attempt = 0 /\ now = 0 /\ bound = 0 /\ pc = "idle" /\ fault = "" /\ sleeps = <<>> /\ rpcTimeouts = <<>>
        /\ faults = <<>> /\ outcome = "pending" /\ refused = No

callvars == <<attempt, now, bound, pc, fault, sleeps, rpcTimeouts, faults, outcome, refused>>

\* pass 2 of API.build: one method after the other, in declaration order
LoadMethod == /\ stage = "config"
              /\ res' = Append(res, Resolve(cfg, Selectors[Len(res) + 1]))
              /\ stage' = IF Len(res') = Len(Selectors) THEN "loaded" ELSE "config"
              /\ UNCHANGED <<cid, cfg, target, transport, ovr, eff, script0, script, jit>> /\ UNCHANGED callvars

Invoke(sel, tr, o, s, j) ==
  /\ stage = "loaded" /\ RunCalls
  /\ target' = sel /\ transport' = tr /\ ovr' = o /\ script0' = s /\ script' = s /\ jit' = j
  /\ eff' = Effective(res[SelIdx(sel)], o)
  /\ bound' = FirstBound(eff'.retry)
  /\ stage' = "calling"
  /\ UNCHANGED <<cid, cfg, res, attempt, now, pc, fault, sleeps, rpcTimeouts, faults, outcome, refused>>

Attempt == /\ stage = "calling" /\ pc = "idle"
           /\ attempt' = attempt + 1
           /\ rpcTimeouts' = Append(rpcTimeouts, AttemptTimeout)
           /\ pc' = "inflight"
           /\ UNCHANGED <<cid, cfg, stage, res, target, transport, ovr, eff, script0, script, jit, now, bound, fault, sleeps,
                          faults, outcome, refused>>

ServerOk == /\ stage = "calling" /\ pc = "inflight" /\ script = <<>>
            /\ pc' = "replied"
            /\ UNCHANGED <<cid, cfg, stage, res, target, transport, ovr, eff, script0, script, jit, attempt, now, bound, fault,
                           sleeps, rpcTimeouts, faults, outcome, refused>>

ServerFault == /\ stage = "calling" /\ pc = "inflight" /\ script # <<>>
               /\ fault' = Head(script) /\ script' = Tail(script) /\ faults' = Append(faults, Head(script))
               /\ pc' = "fault"
               /\ UNCHANGED <<cid, cfg, stage, res, target, transport, ovr, eff, script0, jit, attempt, now, bound, sleeps,
                              rpcTimeouts, outcome, refused>>

Finish(o) == /\ outcome' = o /\ stage' = "done" /\ pc' = "end"

Return == /\ stage = "calling" /\ pc = "replied"
          /\ Finish("ok")
          /\ UNCHANGED <<cid, cfg, res, target, transport, ovr, eff, script0, script, jit, attempt, now, bound, fault, sleeps,
                         rpcTimeouts, faults, refused>>

Surface == /\ stage = "calling" /\ pc = "fault" /\ ~Retryable(fault)
           /\ Finish(fault)
           /\ UNCHANGED <<cid, cfg, res, target, transport, ovr, eff, script0, script, jit, attempt, now, bound, fault, sleeps,
                          rpcTimeouts, faults, refused>>

GiveUp(d) == /\ stage = "calling" /\ pc = "fault" /\ Retryable(fault)
             /\ d \in 0..bound /\ Expired(d)
             /\ Finish("RetryError") /\ refused' = d
             /\ UNCHANGED <<cid, cfg, res, target, transport, ovr, eff, script0, script, jit, attempt, now, bound, fault, sleeps,
                            rpcTimeouts, faults>>

Backoff(d) == /\ stage = "calling" /\ pc = "fault" /\ Retryable(fault)
              /\ d \in 0..bound /\ ~Expired(d)
              /\ sleeps' = Append(sleeps, [asked |-> bound, slept |-> d])
              /\ now' = now + d
              /\ bound' = NextBound(bound, eff.retry)
              /\ pc' = "idle"
              /\ UNCHANGED <<cid, cfg, stage, res, target, transport, ovr, eff, script0, script, jit, attempt, fault,
                             rpcTimeouts, faults, outcome, refused>>

JitterNow == IF FreeJitter THEN Jitter ELSE {jit}
FirstRetryable(e, s) == s # <<>> /\ e.retry.on /\ s[1] \in e.retry.codes
InvokeAny ==
  /\ stage = "loaded" /\ RunCalls
  /\ \E k \in 1..Len(Selectors) :
       LET pal == Pal(cfg, res[k]) IN
       \E o \in Overrides(pal), s \in Scripts(pal) :
         \E j \in (IF ~FreeJitter /\ FirstRetryable(Effective(res[k], o), s) THEN Jitter ELSE {<<1, 1>>}) :
           \E tr \in Transports :
             /\ tr = "rest" => Range(s) \subseteq RestExact /\ Selectors[k] \notin StreamMeths
             /\ (tr = "grpc_asyncio" /\ Selectors[k] \in StreamMeths) => j = <<1, 1>>
             /\ Invoke(Selectors[k], tr, o, s, j)

Next == \/ LoadMethod \/ InvokeAny \/ Attempt \/ ServerOk \/ ServerFault \/ Return \/ Surface
        \/ \E phi \in JitterNow : GiveUp(Scale(bound, phi)) \/ Backoff(Scale(bound, phi))
Spec == Init /\ [][Next]_vars /\ WF_vars(Next)

Terminal == IF RunCalls THEN stage = "done" ELSE stage = "loaded"

-----------------------------------------------------------------------------
(* The property, clause by clause.  The clauses about defaults are stated  *)
(* against the config ENTRY (declaratively: least index whose name list    *)
(* contains the exact selector), not against the resolved table.           *)
Naming(c, sel) == {i \in 1..Len(c) : sel \in c[i].names}
Named(c, sel) == Naming(c, sel) # {}
Entry(c, sel) == c[Min(Naming(c, sel))]

\* generation: every method gets the values of the first entry naming it, nothing otherwise
Inv_Resolve ==
  \A k \in 1..Len(res) :
    LET sel == Selectors[k] r == res[k] IN
    IF ~Named(cfg, sel) THEN r.timeout = No /\ ~r.policy.on
    ELSE LET e == Entry(cfg, sel) IN
         /\ r.timeout = (IF e.timeout = "" THEN No ELSE Ticks(e.timeout))
         /\ r.policy.on = e.policy.on
         /\ e.policy.on => /\ r.policy.codes = e.policy.codes
                           /\ r.policy.init = Ticks(e.policy.init) /\ r.policy.max = Ticks(e.policy.max)
                           /\ r.policy.mult = MultOf(e.policy.mult)
Inv_Loaded == stage \in {"loaded", "calling", "done"} => res = ResolveAll(cfg)

Calling == stage \in {"calling", "done"}
DefaultRetry == Calling /\ ovr.rmode = "default"
DefaultTimeout == Calling /\ ovr.timeout = Dflt
HasPolicy == Named(cfg, target) /\ Entry(cfg, target).policy.on
EntryTimeout == IF Named(cfg, target) /\ Entry(cfg, target).timeout # "" THEN Ticks(Entry(cfg, target).timeout) ELSE No
Elapsed(i) == FoldSet(LAMBDA k, acc : sleeps[k].slept + acc, 0, 1..(i - 1))      \* time slept before attempt i

\* retried exactly on the entry's codes: a fault followed by another attempt is one of them ...
Inv_OnlyRetryable ==
  DefaultRetry => \A i \in 1..Len(faults) :
                    (i < attempt \/ (i = attempt /\ pc = "idle")) => HasPolicy /\ faults[i] \in Entry(cfg, target).policy.codes
\* ... and any other error surfaces after exactly that attempt
Inv_Surface ==
  (Calling /\ outcome \notin {"pending", "ok", "RetryError"}) =>
      /\ outcome = faults[attempt] /\ Len(faults) = attempt
      /\ (DefaultRetry /\ ~AsyncStreamNoRetry) => ~(HasPolicy /\ outcome \in Entry(cfg, target).policy.codes)
\* waits follow initialBackoff, maxBackoff, backoffMultiplier
Inv_Bound ==
  Calling => \A i \in 1..Len(sleeps) :
      /\ 0 <= sleeps[i].slept /\ sleeps[i].slept <= sleeps[i].asked
      /\ sleeps[i].asked = B(eff.retry, i)
Inv_DefaultBackoff ==
  (DefaultRetry /\ HasPolicy) =>
     LET p == Entry(cfg, target).policy IN
     /\ Ticks(p.init) # 0 => eff.retry.init = Ticks(p.init)
     /\ Ticks(p.max) # 0 => eff.retry.max = Ticks(p.max)
     /\ MultOf(p.mult)[1] # 0 => eff.retry.mult = MultOf(p.mult)
     /\ eff.retry.init > 0 /\ eff.retry.max > 0 /\ eff.retry.mult[1] > 0
\* the entry's timeout is the call deadline (every attempt carries the remaining budget) ...
Inv_RpcTimeout ==
  Calling => /\ Len(rpcTimeouts) = attempt
             /\ \A i \in 1..Len(rpcTimeouts) :
                  IF eff.timeout = No THEN rpcTimeouts[i] = No
                  ELSE LET rem == eff.timeout - (IF Elapsed(i) < U \div 1000 THEN 0 ELSE Elapsed(i)) IN
                       rpcTimeouts[i] = IF rem < U THEN eff.timeout ELSE rem
Inv_DefaultTimeout == (DefaultTimeout /\ attempt >= 1) => rpcTimeouts[1] = EntryTimeout
\* ... and the overall retry deadline: no sleep ends after it; RetryError exactly when the next sleep would
Inv_Deadline ==
  Calling => /\ (eff.retry.on /\ eff.retry.deadline # No /\ sleeps # <<>>) => now <= eff.retry.deadline
             /\ outcome = "RetryError" => /\ eff.retry.on /\ eff.retry.deadline # No
                                          /\ now + refused > eff.retry.deadline
                                          /\ faults[attempt] \in eff.retry.codes
Inv_DefaultDeadline == (DefaultRetry /\ HasPolicy) => eff.retry.deadline = EntryTimeout
\* methods not named: a single attempt and no default deadline
Inv_Unnamed ==
  (Calling /\ ~Named(cfg, target)) =>
     /\ DefaultRetry => attempt <= 1 /\ sleeps = <<>> /\ outcome # "RetryError"
     /\ DefaultTimeout => \A i \in 1..Len(rpcTimeouts) : rpcTimeouts[i] = No
Inv_NoPolicy == (DefaultRetry /\ ~HasPolicy) => attempt <= 1 /\ sleeps = <<>>
\* an explicit per-call retry or timeout overrides the default
Inv_Override ==
  Calling => /\ ovr.timeout # Dflt => eff.timeout = ovr.timeout
             /\ ovr.rmode = "none" => attempt <= 1 /\ sleeps = <<>>
             /\ ovr.rmode = "custom" => eff.retry = ovr.r
Inv_Counts == Calling => /\ Len(sleeps) \in {attempt - 1, attempt} \/ attempt = 0
                         /\ now = Elapsed(Len(sleeps) + 1)
                         /\ stage = "done" => attempt = Len(sleeps) + 1
\* REST calls only see faults api-core maps to the class of the code
Inv_RestDomain == (Calling /\ transport = "rest") => Range(faults) \subseteq RestExact
Inv_Exact == Calling /\ eff.retry.on => (bound * eff.retry.mult[1]) % eff.retry.mult[2] = 0
Live == <>Terminal

-----------------------------------------------------------------------------
(* spec -> code: cases with the observables the specification predicts.    *)
EmitResolve == (stage = "loaded" /\ ~RunCalls) =>
                 PrintT(<<"CASE", ToJson([kind |-> "resolve", cid |-> cid, cfg |-> cfg, resolved |-> res])>>)
ASSUME PrintT(<<"SELECTORS", ToJson(Selectors)>>)       \* the method order `resolved` refers to
ASSUME PrintT(<<"HTTPRULES", ToJson([body |-> BodyMeths, delete |-> DeleteMeths, cstream |-> ClientStreamMeths,
                                     bidi |-> BidiMeths])>>)
EmitRun == (stage = "done") =>
             PrintT(<<"CASE", ToJson([kind |-> "run", cid |-> cid, sel |-> target, transport |-> transport, ovr |-> ovr, script |-> script0,
                                      jit |-> jit, pal |-> Pal(cfg, res[SelIdx(target)]),
                                      expect |-> [attempts |-> attempt, rpcTimeouts |-> rpcTimeouts,
                                                  sleeps |-> sleeps, faults |-> faults, outcome |-> outcome,
                                                  refused |-> refused]])>>)
=============================================================================
