------------------------------ MODULE CallTrace ------------------------------
(***************************************************************************)
(* Validates calls recorded at the loopback servers against Call.          *)
(* TRACE_FILE: [ {method, transport, form, args, script, events:[..]} ]    *)
(* events: sent{path, kind, msgs} | return{values, is_none} | raise{type}  *)
(* The client-side steps Coerce, ApplyFlattened and AutoPopulate are not   *)
(* observable from outside; a `sent` event is matched by their composition *)
(* with Send (one observed step = four specification steps).  A second     *)
(* `sent` event, a `sent` after a rejection or a missing one leaves no     *)
(* enabled action: the trace is rejected.                                  *)
(***************************************************************************)
EXTENDS Call, IOUtils, TLCExt
VARIABLES tid, l
Traces == JsonDeserialize(IOEnv.TRACE_FILE)
N == Len(Traces)
tvars == <<vars, tid, l>>
Ev == Traces[tid].events

Val(r) == [f \in Fields |-> r[f]]
ArgsOf(t) == [reqs |-> [i \in 1..Len(Traces[t].args.reqs) |-> Val(Traces[t].args.reqs[i])], kw |-> Val(Traces[t].args.kw)]
MethodOf(t) == CHOOSE mm \in Methods : mm.name = Traces[t].method
ScriptOf(t) == [i \in 1..Len(Traces[t].script) |-> [name |-> Traces[t].script[i].name, count |-> Traces[t].script[i].count]]
ResetFor(t) == /\ m' = MethodOf(t) /\ transport' = Traces[t].transport /\ form' = Traces[t].form /\ args' = ArgsOf(t)
               /\ script' = ScriptOf(t) /\ phase' = "invoked" /\ req' = <<>> /\ sent' = <<>> /\ result' = <<>> /\ raised' = "none"
TInit == /\ tid = 1 /\ l = 1 /\ TLCSet(1, 0) /\ TLCSet(2, <<0, 0>>)
         /\ m = MethodOf(1) /\ transport = Traces[1].transport /\ form = Traces[1].form /\ args = ArgsOf(1)
         /\ script = ScriptOf(1) /\ phase = "invoked" /\ req = <<>> /\ sent = <<>> /\ result = <<>> /\ raised = "none"

IsEvent(e) == tid <= N /\ l <= Len(Ev) /\ Ev[l].ev = e /\ l' = l + 1 /\ tid' = tid
\* what the composition Coerce . ApplyFlattened . AutoPopulate puts on the wire
Outgoing == LET r1 == args.reqs
                r2 == IF form \in {"kwargs", "both"} /\ ~m.cs THEN <<Overlay(r1[1], args.kw)>> ELSE r1
            IN IF m.cs THEN r2 ELSE <<Populate(r2[1])>>
Observed(i) == [j \in 1..Len(Ev[i].msgs) |-> Val(Ev[i].msgs[j])]
TSent == /\ IsEvent("sent") /\ phase = "invoked" /\ form # "both"
         /\ Len(Ev[l].msgs) = Len(Outgoing)
         /\ \A j \in 1..Len(Outgoing) : Wire(Outgoing[j]) = Observed(l)[j]       \* logged payload = what the spec sends
         /\ (transport # "rest" => Ev[l].path = Path(m) /\ Ev[l].kind = Kind(m))
         /\ Ev[l].own                          \* the call went out on the channel of the client it was made on
         /\ req' = Outgoing
         /\ sent' = Append(sent, [path |-> Path(m), kind |-> Kind(m), msgs |-> Outgoing])
         /\ phase' = "sent"
         /\ UNCHANGED <<m, transport, form, args, script, result, raised>>
TReturn == /\ IsEvent("return") /\ ServerReply
           /\ Len(Ev[l].values) = Len(result')
           /\ \A j \in 1..Len(result') : result'[j] = [name |-> Ev[l].values[j].name, count |-> Ev[l].values[j].count]
           /\ (m.void => Ev[l].is_none)
TRaise == /\ IsEvent("raise") /\ RejectMixed /\ Ev[l].type = raised'
TNextTrace == /\ tid <= N /\ l = Len(Ev) + 1 /\ Done
              /\ TLCSet(1, tid)
              /\ tid' = tid + 1 /\ l' = 1
              /\ IF tid + 1 <= N THEN ResetFor(tid + 1) ELSE UNCHANGED vars
TNext == TSent \/ TReturn \/ TRaise \/ TNextTrace
TSpec == TInit /\ [][TNext]_tvars
Progress == TLCSet(2, <<tid, l>>)
Accepted == PrintT(<<"ACCEPTED", TLCGet(1)>>) /\ PrintT(<<"REACHED", TLCGet(2)>>) /\ TLCGet(1) = N
=============================================================================
