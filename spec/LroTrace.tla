------------------------------ MODULE LroTrace ------------------------------
(***************************************************************************)
(* Batched trace validation for Lro (code -> spec).  TRACE_FILE holds      *)
(*   [ {c:{ann,out,rsp:{kind,site,encl},mta:{..},fld,form}, h:{k,outcome,  *)
(*      value,code}, mode, inst, events:[{ev,kind,resp,meta,err,rpc,chan,  *)
(*      name,future,type,value,mtype,mvalue,code}..]} .. ]                 *)
(* events:  gen / genfail  from the generator (Method hook event, raised    *)
(* exception);  start / poll  from the loopback server + the log of the    *)
(* one recorded channel;  wrap / resolve / fail / return  from the caller  *)
(* of the emitted client.  Pass 1 (LoadTypes) is internal: it is taken     *)
(* without consuming an event.  Every action is  IsEvent(name) /\ <spec    *)
(* action> /\ <logged fields = primed variables>,  so each invariant of    *)
(* Lro is evaluated after every recorded step of the real code.            *)
(***************************************************************************)
EXTENDS Lro, IOUtils, TLCExt, SequencesExt
VARIABLES tid, l
Traces == JsonDeserialize(IOEnv.TRACE_FILE)
N == Len(Traces)
tvars == <<vars, tid, l>>
Ev == Traces[tid].events

CaseOf(t) == [ann |-> Traces[t].c.ann, out |-> Traces[t].c.out,
              rsp |-> [kind |-> Traces[t].c.rsp.kind, site |-> Traces[t].c.rsp.site, encl |-> Traces[t].c.rsp.encl],
              mta |-> [kind |-> Traces[t].c.mta.kind, site |-> Traces[t].c.mta.site, encl |-> Traces[t].c.mta.encl],
              fld |-> Traces[t].c.fld, form |-> Traces[t].c.form]
HistOf(t) == [k |-> Traces[t].h.k, outcome |-> Traces[t].h.outcome, value |-> Traces[t].h.value, code |-> Traces[t].h.code]
ResetFor(t) == /\ c' = CaseOf(t) /\ h' = HistOf(t) /\ mode' = Traces[t].mode /\ inst' = Traces[t].inst
               /\ stage' = "load" /\ pos' = 0 /\ known' = {} /\ genres' = "pending" /\ lro' = [resp |-> "", meta |-> ""]
               /\ phase' = "idle" /\ cur' = 0 /\ calls' = <<>> /\ future' = ""
               /\ seenMeta' = [type |-> "", value |-> 0] /\ result' = [type |-> "", value |-> 0] /\ raised' = 0
TInit == /\ tid = 1 /\ l = 1 /\ TLCSet(1, 0) /\ TLCSet(2, <<0, 0>>)
         /\ c = CaseOf(1) /\ h = HistOf(1) /\ mode = Traces[1].mode /\ inst = Traces[1].inst
         /\ stage = "load" /\ pos = 0 /\ known = {} /\ genres = "pending" /\ lro = [resp |-> "", meta |-> ""]
         /\ phase = "idle" /\ cur = 0 /\ calls = <<>> /\ future = ""
         /\ seenMeta = [type |-> "", value |-> 0] /\ result = [type |-> "", value |-> 0] /\ raised = 0

IsEvent(e) == tid <= N /\ l <= Len(Ev) /\ Ev[l].ev = e /\ l' = l + 1 /\ tid' = tid
Meta(e) == [type |-> e.mtype, value |-> e.mvalue]
TLoad    == tid <= N /\ LoadTypes /\ UNCHANGED <<tid, l>>
TGen     == IsEvent("gen") /\ ResolveLro /\ genres' = Ev[l].kind
            /\ lro' = [resp |-> Ev[l].resp, meta |-> Ev[l].meta]
TGenFail == IsEvent("genfail") /\ ResolveLro /\ stage' = "failed" /\ genres' = Ev[l].err
TStart   == IsEvent("start") /\ Start
            /\ Last(calls') = [rpc |-> Ev[l].rpc, chan |-> Ev[l].chan, name |-> Ev[l].name]
TWrap    == IsEvent("wrap") /\ Wrap /\ future' = Ev[l].future /\ seenMeta' = Meta(Ev[l])
TReturn  == IsEvent("return") /\ Return /\ future' = Ev[l].future
            /\ result' = [type |-> Ev[l].type, value |-> Ev[l].value]
TPoll    == IsEvent("poll") /\ Poll
            /\ Last(calls') = [rpc |-> Ev[l].rpc, chan |-> Ev[l].chan, name |-> Ev[l].name]
TResolve == IsEvent("resolve") /\ Resolve
            /\ result' = [type |-> Ev[l].type, value |-> Ev[l].value] /\ seenMeta = Meta(Ev[l])
TFail    == IsEvent("fail") /\ Fail /\ raised' = Ev[l].code /\ seenMeta = Meta(Ev[l])
TNextTrace == /\ tid <= N /\ l = Len(Ev) + 1 /\ Terminal
              /\ TLCSet(1, tid)
              /\ tid' = tid + 1 /\ l' = 1
              /\ IF tid + 1 <= N THEN ResetFor(tid + 1) ELSE UNCHANGED vars
TNext == TLoad \/ TGen \/ TGenFail \/ TStart \/ TWrap \/ TReturn \/ TPoll \/ TResolve \/ TFail \/ TNextTrace
TSpec == TInit /\ [][TNext]_tvars
Progress == TLCSet(2, <<tid, l>>)          \* CONSTRAINT: remembers how far the batch got (workers 1)
Accepted == PrintT(<<"ACCEPTED", TLCGet(1)>>) /\ PrintT(<<"REACHED", TLCGet(2)>>) /\ TLCGet(1) = N
=============================================================================
