----------------------------- MODULE PagerTrace -----------------------------
(***************************************************************************)
(* Batched trace validation for Pager (code -> spec).  TRACE_FILE holds    *)
(*   [ {history:[{n,more}..], ordered, events:[{ev,item,attr,token,others, *)
(*      opts}..]} .. ]                                                     *)
(* recorded from the emitted pager behind the loopback server.  Every      *)
(* action is  IsEvent(name) /\ <spec action> /\ <logged fields = primed    *)
(* variables>,  so each invariant of Pager is evaluated after every        *)
(* recorded step of the real code.                                         *)
(***************************************************************************)
EXTENDS Pager, Json, IOUtils, TLCExt
VARIABLES tid, l
Traces == JsonDeserialize(IOEnv.TRACE_FILE)
N == Len(Traces)
tvars == <<vars, tid, l>>
Ev == Traces[tid].events

Hist(t) == [i \in 1..Len(Traces[t].history) |-> [n |-> Traces[t].history[i].n, more |-> Traces[t].history[i].more]]
ResetFor(t) == /\ history' = Hist(t) /\ ordered' = Traces[t].ordered
               /\ base' = "" /\ opts' = "" /\ cursor' = 0 /\ pending' = <<>> /\ yielded' = <<>> /\ reqs' = <<>>
               /\ done' = FALSE /\ exposed' = 0
TInit == /\ tid = 1 /\ l = 1 /\ TLCSet(1, 0) /\ TLCSet(2, <<0, 0>>)
         /\ history = Hist(1) /\ ordered = Traces[1].ordered
         /\ base = "" /\ opts = "" /\ cursor = 0 /\ pending = <<>> /\ yielded = <<>> /\ reqs = <<>>
         /\ done = FALSE /\ exposed = 0

IsEvent(e) == tid <= N /\ l <= Len(Ev) /\ Ev[l].ev = e /\ l' = l + 1 /\ tid' = tid
TInvoke == IsEvent("invoke") /\ Invoke(Ev[l].others, Ev[l].opts)
TFirst  == IsEvent("first") /\ FirstCall
           /\ Last(reqs') = [token |-> Ev[l].token, others |-> Ev[l].others, opts |-> Ev[l].opts]
TYield  == IsEvent("yield") /\ YieldItem /\ Last(yielded') = Ev[l].item /\ exposed = Ev[l].attr
TFetch  == IsEvent("fetch") /\ FetchNext
           /\ Last(reqs') = [token |-> Ev[l].token, others |-> Ev[l].others, opts |-> Ev[l].opts]
TStop   == IsEvent("stop") /\ Stop /\ exposed = Ev[l].attr
TNextTrace == /\ tid <= N /\ l = Len(Ev) + 1 /\ done
              /\ TLCSet(1, tid)
              /\ tid' = tid + 1 /\ l' = 1
              /\ IF tid + 1 <= N THEN ResetFor(tid + 1) ELSE UNCHANGED vars
TNext == TInvoke \/ TFirst \/ TYield \/ TFetch \/ TStop \/ TNextTrace
TSpec == TInit /\ [][TNext]_tvars
Progress == TLCSet(2, <<tid, l>>)          \* CONSTRAINT: remembers how far the batch got (workers 1)
Accepted == PrintT(<<"ACCEPTED", TLCGet(1)>>) /\ PrintT(<<"REACHED", TLCGet(2)>>) /\ TLCGet(1) = N
=============================================================================
