CONSTANTS MaxFeatures = 2 MinFeatures = 0
SPECIFICATION Spec
INVARIANT Emit
