CONSTANTS MaxFeatures = 2 MinFeatures = 0 Avoid = {}
SPECIFICATION Spec
INVARIANT Emit
