\* comment texts for wrap/rst, exhaustive up to 3 tokens
CONSTANTS
  Fns = {"wrap"}
  Alphabet = {"w3", "w9", "long", "sp", "sps", "tab", "nl", "blank", "li", "star", "plus", "num", "colon", "quote", "tquote", "bslash"}
  MinLen = 0
  MaxLen = 3
  Widths = {10, 20, 40, 72}
  Indents = {0, 4, 8}
  Offsets = {0, 4, 9, 15, 45}
  RstWidths = {20, 40, 72}
  RstIndents = {0, 4, 12, 16}
  Kinds = {"stmt", "stmt_t", "und", "imp", "pass", "cmt", "deco", "def", "class", "if", "doc", "strb"}
  Gaps = {"0", "1", "2", "3", "4", "2s", "3s"}
  MaxItems = 2
  MaxLvl = 2
  Origins = {"message", "response", "field", "enum", "value", "service", "method"}
  Mutant = "none"
INIT Init
NEXT NextInputs
INVARIANT EmitInput
