CONSTANTS MaxParams = 2 MaxVars = 1 Pool = "presence" MaxCalls = 1 OptFields = {"name", "other"} MaxPages = 1 Mutant = "none"
SPECIFICATION Spec
INVARIANT Emit
