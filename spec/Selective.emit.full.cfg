CONSTANTS Scope = "full" OneByOne = FALSE Mutant = "none"
SPECIFICATION Spec
INVARIANT Emit
