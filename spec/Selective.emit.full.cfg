CONSTANTS Scope = "full" OneByOne = FALSE Mutant = "none" Pick = {}
SPECIFICATION Spec
INVARIANT Emit
