CONSTANTS K = 2 MaxElems = 3 Mutant = "none"
SPECIFICATION Spec
INVARIANT Inv_Deterministic
PROPERTY Live
