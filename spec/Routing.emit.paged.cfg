CONSTANTS MaxParams = 1 MaxVars = 1 Pool = "small" MaxCalls = 1 OptFields = {} MaxPages = 2 Mutant = "none"
SPECIFICATION Spec
INVARIANT Emit
