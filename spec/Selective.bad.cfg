CONSTANTS Scope = "bad" OneByOne = FALSE Mutant = "none" Pick = {}
SPECIFICATION Spec
INVARIANT TypeOK
INVARIANT Inv_Fail
INVARIANT Inv_Seeds
INVARIANT Inv_ClosedDown
INVARIANT Inv_ClosedUp
INVARIANT Inv_Least
INVARIANT Inv_Decl
INVARIANT Inv_Interval
INVARIANT Inv_Mono
INVARIANT Inv_Rpcs
INVARIANT Inv_Svcs
INVARIANT Inv_Deps
INVARIANT Inv_Unrelated
INVARIANT Inv_Internal
INVARIANT Inv_InternalStillWorks
INVARIANT Inv_Behave
INVARIANT Inv_Files
INVARIANT Inv_Off
