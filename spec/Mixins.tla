------------------------------- MODULE Mixins -------------------------------
(***************************************************************************)
(* Mixin RPCs of an emitted GAPIC library (property C17).                  *)
(*                                                                         *)
(* Inputs (chosen in Init):                                                *)
(*   apis        which of the three mixin APIs the service YAML lists      *)
(*               under `apis`                                              *)
(*   rules       for each of the ten mixin RPCs: 0 = no `http.rules` entry,*)
(*               1 / 2 = one of two entries (verb, path, body) of RuleOf   *)
(*   addl        every rule carries no additional binding ("none") or one  *)
(*               additional binding of the same resource pattern whose uri *)
(*               sorts before / after the primary one ("before" / "after") *)
(*   dup         every http rule is preceded in the YAML by an OLDER rule  *)
(*               for the same selector (prefix /v0old/, for GetOperation   *)
(*               also another verb and body); google.api.Http: the LAST    *)
(*               rule of a selector is the one that counts                 *)
(*   own         the set of IAM-named RPCs (SetIamPolicy / GetIamPolicy /  *)
(*               TestIamPermissions) the API declares itself, in service   *)
(*               Carrier                                                   *)
(*   layout      "single": the API has the one service Carrier;            *)
(*               "own_first" / "own_last": it has a second service Other   *)
(*               with ordinary RPCs only, declared after / before Carrier  *)
(*   transports  the `transport` plugin option                             *)
(*   legacy      the `add-iam-methods` plugin option                       *)
(*   tmpl        template set ("default" | "ads")                          *)
(*   clients     which client classes the library has (the Ads set and a   *)
(*               REST-only library have no asyncio client; the property    *)
(*               speaks about the clients that exist)                      *)
(*                                                                         *)
(* Actions (one per observable step):                                      *)
(*   SelectMixins      generation: which mixin methods each client of each *)
(*                     service exposes                                     *)
(*   CallMixin(s,m,k,i) a caller invokes mixin method m on client kind k   *)
(*                     of service s, on client INSTANCE i (two instances   *)
(*                     A, B of every client live in one process, each with *)
(*                     its own transport to its own server)                *)
(*                     (grpc = sync client over gRPC, grpc_asyncio =       *)
(*                     asyncio client over gRPC, rest = sync client over   *)
(*                     REST); `call` is what the server sees / the caller  *)
(*                     gets back                                           *)
(*   CallOwn(s,m,k,i)  a caller invokes an IAM RPC the API declares itself *)
(*   Return            the call is over                                    *)
(*                                                                         *)
(* Written from the property text; the invariants below restate it clause  *)
(* by clause.  Named restrictions of the input space: own # {} /\ legacy   *)
(* is not generated (the two clauses contradict each other there); with    *)
(* `legacy` the IAM methods have no http rule, so REST calls of them are   *)
(* outside the property (OutOfScope).                                      *)
(* Named reading (GroupYield, DESIGN 4/C17): "IAM mixins yield to          *)
(* same-named RPCs defined by the API itself" is read for the IAM mixin as *)
(* a whole - the IAM mixin RPCs are withdrawn iff the API declares an RPC  *)
(* with the name of a CONFIGURED IAM mixin RPC (IAMPolicy listed and an    *)
(* http rule for that name).  An own RPC whose name is not a configured    *)
(* mixin RPC withdraws nothing.                                            *)
(***************************************************************************)
EXTENDS Naturals, Sequences, FiniteSets, TLC, Json, SequencesExt

CONSTANTS Scope,     \* "small" | "full" | "quick" | "thorough"  (which rule sets / configurations Init admits)
          Mutant     \* "none" for the real design; anything else is a self-test mutant TLC must reject

\* ---- vocabulary ---------------------------------------------------------------------------------
ApiSeq == <<"google.longrunning.Operations", "google.iam.v1.IAMPolicy", "google.cloud.location.Locations">>
Apis == Range(ApiSeq)
OPS == ApiSeq[1]   IAM == ApiSeq[2]   LOC == ApiSeq[3]

RPCSeq == <<"ListOperations", "GetOperation", "DeleteOperation", "CancelOperation", "WaitOperation",
            "SetIamPolicy", "GetIamPolicy", "TestIamPermissions", "ListLocations", "GetLocation">>
RPCs == Range(RPCSeq)
IamRPCs == {"SetIamPolicy", "GetIamPolicy", "TestIamPermissions"}
LocRPCs == {"ListLocations", "GetLocation"}
ApiOf(m) == IF m \in IamRPCs THEN IAM ELSE IF m \in LocRPCs THEN LOC ELSE OPS

\* client method name (snake case of the RPC name)
Snake(m) == CASE m = "ListOperations" -> "list_operations" [] m = "GetOperation" -> "get_operation"
              [] m = "DeleteOperation" -> "delete_operation" [] m = "CancelOperation" -> "cancel_operation"
              [] m = "WaitOperation" -> "wait_operation" [] m = "SetIamPolicy" -> "set_iam_policy"
              [] m = "GetIamPolicy" -> "get_iam_policy" [] m = "TestIamPermissions" -> "test_iam_permissions"
              [] m = "ListLocations" -> "list_locations" [] m = "GetLocation" -> "get_location"

\* the standard request / response types (google/longrunning/operations.proto, google/iam/v1/iam_policy.proto,
\* google/cloud/location/locations.proto); Empty is surfaced to the caller as None
ReqType(m) == CASE m \in IamRPCs -> "google.iam.v1." \o m \o "Request"
                [] m \in LocRPCs -> "google.cloud.location." \o m \o "Request"
                [] OTHER -> "google.longrunning." \o m \o "Request"
RespType(m) == CASE m = "ListOperations" -> "google.longrunning.ListOperationsResponse"
                 [] m \in {"GetOperation", "WaitOperation"} -> "google.longrunning.Operation"
                 [] m \in {"DeleteOperation", "CancelOperation"} -> "None"
                 [] m \in {"SetIamPolicy", "GetIamPolicy"} -> "google.iam.v1.Policy"
                 [] m = "TestIamPermissions" -> "google.iam.v1.TestIamPermissionsResponse"
                 [] m = "ListLocations" -> "google.cloud.location.ListLocationsResponse"
                 [] m = "GetLocation" -> "google.cloud.location.Location"
WireRespType(m) == IF RespType(m) = "None" THEN "google.protobuf.Empty" ELSE RespType(m)

\* the routed field: `resource` for IAM, `name` for Operations and Locations
Field(m) == IF ApiOf(m) = IAM THEN "resource" ELSE "name"
\* the value the caller puts there (matches the path pattern of both rules of m)
Value(m) == CASE m \in {"ListOperations"} \cup IamRPCs -> "things/t1"
              [] m = "ListLocations" -> "projects/p1"
              [] m = "GetLocation" -> "projects/p1/locations/l1"
              [] OTHER -> "things/t1/operations/o1"
Pattern(m) == CASE m \in {"ListOperations"} \cup IamRPCs -> "things/*"
                [] m = "ListLocations" -> "projects/*"
                [] m = "GetLocation" -> "projects/*/locations/*"
                [] OTHER -> "things/*/operations/*"
\* does the request carry fields besides the routed one (the harness fills them for these RPCs)?
HasExtra(m) == m \in {"ListOperations", "WaitOperation", "ListLocations"} \cup IamRPCs

\* the two http rules per RPC: uri = pre {field=pattern} suf ; body "*" or none
R(v, p, s, b) == [verb |-> v, pre |-> p, suf |-> s, body |-> b]
RuleOf(m, i) ==
  CASE m = "ListOperations"  -> IF i = 1 THEN R("get", "/v1/", "/operations", "")     ELSE R("post", "/v2/", "/operations:list", "*")
    [] m = "GetOperation"    -> IF i = 1 THEN R("get", "/v1/", "", "")                ELSE R("post", "/v2/", ":fetch", "*")
    [] m = "DeleteOperation" -> IF i = 1 THEN R("delete", "/v1/", "", "")             ELSE R("post", "/v2/", ":remove", "")
    [] m = "CancelOperation" -> IF i = 1 THEN R("post", "/v1/", ":cancel", "*")       ELSE R("post", "/v2/", ":cancel", "")
    [] m = "WaitOperation"   -> IF i = 1 THEN R("post", "/v1/", ":wait", "*")         ELSE R("get", "/v2/", ":wait", "")
    [] m = "SetIamPolicy"    -> IF i = 1 THEN R("post", "/v1/", ":setIamPolicy", "*") ELSE R("put", "/v2/", "/policy", "*")
    [] m = "GetIamPolicy"    -> IF i = 1 THEN R("get", "/v1/", ":getIamPolicy", "")   ELSE R("post", "/v2/", ":getIamPolicy", "*")
    [] m = "TestIamPermissions" -> IF i = 1 THEN R("post", "/v1/", ":testIamPermissions", "*") ELSE R("get", "/v2/", ":testIamPermissions", "")
    [] m = "ListLocations"   -> IF i = 1 THEN R("get", "/v1/", "/locations", "")      ELSE R("get", "/v2/", "/places", "")
    [] m = "GetLocation"     -> IF i = 1 THEN R("get", "/v1/", "", "")                ELSE R("post", "/v2/", ":get", "*")
BUri(m, b) == b.pre \o "{" \o Field(m) \o "=" \o Pattern(m) \o "}" \o b.suf
BExpanded(m, b) == b.pre \o Value(m) \o b.suf
\* additional bindings: same verb, pattern, suffix and body under another prefix; google.api.http bindings are tried in
\* declaration order (primary pattern first, then additional_bindings in order).  Rank = lexicographic order of the prefixes.
Addls == {"none", "before", "after"}
AddlPre(x) == IF x = "before" THEN "/v0/" ELSE "/v9/"
Rank(pre) == CASE pre = "/v0/" -> 0 [] pre = "/v1/" -> 1 [] pre = "/v2/" -> 2 [] OTHER -> 9

\* the carrier API: package acme.mx.v1; service Carrier (declares the three IAM RPCs itself when `own`) and,
\* in the two-service layouts, service Other
Svcs == {"Carrier", "Other"}
OwnService == "Carrier"
ServicePath(sv) == "/acme.mx.v1." \o sv \o "/"
Kinds == {"grpc", "grpc_asyncio", "rest"}
ClientKinds == {"sync", "asyncio"}
ClientOf(k) == IF k = "grpc_asyncio" THEN "asyncio" ELSE "sync"
NoCall == [inst |-> "-", server |-> "-", svc |-> "-", m |-> "-", kind |-> "-", via |-> "-", path |-> "-", reqtype |-> "-", resptype |-> "-",
           hkey |-> "-", hval |-> "-", verb |-> "-", body |-> "-", extra |-> "-"]
NoneExposed == [sv \in Svcs |-> [c \in ClientKinds |-> {}]]

VARIABLES apis, rules, addl, dup, own, layout, transports, legacy, tmpl, clients, phase, exposed, call
vars == <<apis, rules, addl, dup, own, layout, transports, legacy, tmpl, clients, phase, exposed, call>>
cfgvars == <<apis, rules, addl, dup, own, layout, transports, legacy, tmpl, clients>>

\* ---- input space ----------------------------------------------------------------------------------
\* Pairwise-covering family of rule assignments: the 27 rows (a, b, c) of Z3^3 against ten pairwise
\* non-proportional vectors give an orthogonal array of strength 2 (every pair of RPCs sees all 9 value pairs).
Points == << <<1,0,0>>, <<0,1,0>>, <<0,0,1>>, <<1,1,0>>, <<1,2,0>>, <<1,0,1>>, <<1,0,2>>, <<0,1,1>>, <<0,1,2>>, <<1,1,1>> >>
Row(a, b, c) == [m \in RPCs |-> LET j == CHOOSE i \in 1..10 : RPCSeq[i] = m
                                 IN (a * Points[j][1] + b * Points[j][2] + c * Points[j][3]) % 3]
AllRules(v) == [m \in RPCs |-> v]
OARows(cs) == { Row(a, b, c) : a \in 0..2, b \in 0..2, c \in cs }
Single(m, v) == [x \in RPCs |-> IF x = m THEN v ELSE 0]
AllBut(m) == [x \in RPCs |-> IF x = m THEN 0 ELSE 1]
RuleSets == CASE Scope = "small"  -> {AllRules(0), AllRules(1), AllRules(2)} \cup OARows({0})
              [] Scope = "quick"  -> {AllRules(0), AllRules(1), AllRules(2)} \cup OARows({0}) \cup {Row(1, 2, 1), Row(2, 1, 2)}
              [] Scope = "thorough" -> {AllRules(1), AllRules(2)} \cup OARows({0, 1, 2})
              [] OTHER -> {AllRules(1), AllRules(2)} \cup OARows({0, 1, 2})
                          \cup {Single(m, 1) : m \in RPCs} \cup {AllBut(m) : m \in RPCs} \cup [RPCs -> {0, 1}]
PairwiseCovered(RS) == \A i, j \in 1..10 : i < j => \A a, b \in 0..2 :
                          \E r \in RS : r[RPCSeq[i]] = a /\ r[RPCSeq[j]] = b
ASSUME Scope \in {"thorough", "full"} => PairwiseCovered(RuleSets)
\* an eleventh column of the orthogonal array (vector <<1,1,2>>) decides the additional binding of the rows: every value of
\* every RPC's rule meets every kind of additional binding; the all-on rule sets come without and with one
AddlSeq == <<"none", "before", "after">>
IsRow(r) == r = Row(r[RPCSeq[1]], r[RPCSeq[2]], r[RPCSeq[3]])
AddlOfRow(r) == AddlSeq[((r[RPCSeq[1]] + r[RPCSeq[2]] + 2 * r[RPCSeq[3]]) % 3) + 1]
\* a twelfth column (vector <<1,2,1>>) decides which rows carry duplicated selectors; the all-on rule sets come with and without
DupOfRow(r) == (r[RPCSeq[1]] + 2 * r[RPCSeq[2]] + r[RPCSeq[3]]) % 3 = 1
DupChoices(r) == IF r \in {AllRules(1), AllRules(2)} THEN BOOLEAN ELSE IF IsRow(r) THEN {DupOfRow(r)} ELSE {FALSE}
AddlChoices(r) == IF r = AllRules(1) THEN {"none", "before"} ELSE IF r = AllRules(2) THEN {"none", "after"}
                  ELSE IF IsRow(r) THEN {AddlOfRow(r)} ELSE {"none"}
ASSUME Scope = "thorough" => \A i \in 1..10, a \in 0..2, x \in Addls :
                               \E r \in OARows({0, 1, 2}) : r[RPCSeq[i]] = a /\ AddlOfRow(r) = x
ASSUME Scope = "thorough" => \A i \in 1..10, a \in 0..2, d \in BOOLEAN :
                               \E r \in OARows({0, 1, 2}) : r[RPCSeq[i]] = a /\ DupOfRow(r) = d

TransportSets == {{"grpc"}, {"rest"}, {"grpc", "rest"}}
\* the Ads template set has its own copy of the mixin code: a reduced grid is enough
AdsOk == /\ apis \in {Apis, {OPS}, {IAM}, {LOC}, {OPS, LOC}}
         /\ rules \in {AllRules(1), AllRules(2), Row(1, 1, 0), Row(1, 2, 1), Row(2, 1, 2)}
         /\ transports \in {{"grpc"}, {"grpc", "rest"}}
         /\ layout \in {"single", "own_first"}
         /\ own \in {{}, IamRPCs, {"TestIamPermissions"}}
         /\ (own # {} \/ legacy) => addl = "none" \/ rules \notin {AllRules(1), AllRules(2)}
\* replay grid of the thorough tier: every rule set with both transports, single transports with a third of them;
\* the two-service layouts with both transports; own IAM RPCs with every rule set when the declaring service comes first
Light == {AllRules(1), AllRules(2)} \cup OARows({0})
ThoroughOk == /\ transports = {"grpc", "rest"} \/ (layout = "single" /\ rules \in Light /\ own = {})
              /\ own # {} => (IAM \in apis \/ apis = {})   \* own IAM RPCs matter where IAM mixins could be selected
              /\ own # {} => (layout = "own_first" \/ rules \in Light)
QuickOk == layout = "single" \/ (transports = {"grpc", "rest"} /\ rules \in Light)
\* a proper, non-empty subset of the three IAM names declared by the API: one service, both transports, IAM listed
PartialOwn == own # {} /\ own # IamRPCs
PartialOk == PartialOwn => /\ layout = "single" /\ transports = {"grpc", "rest"}
                           /\ apis \in {{IAM}, Apis} /\ rules \in Light /\ (rules = AllRules(2) => addl = "none")
                           /\ (apis = {IAM} => rules \in {AllRules(1), Row(1, 0, 0), Row(0, 1, 0)})
\* the exhaustive rule space of the "full" scope is explored for the single-service layout
FullOk == layout = "single" \/ rules \notin ([RPCs -> {0, 1}] \ ({AllRules(1)} \cup OARows({0, 1, 2})))
\* duplicated selectors with the all-on rule sets: plain or legacy single-service configurations
DupOk == (dup /\ rules \in {AllRules(1), AllRules(2)}) =>
            /\ own = {} /\ layout = "single" /\ (tmpl = "ads" => ~legacy)
            /\ addl = (IF rules = AllRules(1) THEN "none" ELSE "after")
Init == /\ apis \in SUBSET Apis /\ rules \in RuleSets /\ addl \in AddlChoices(rules) /\ dup \in DupChoices(rules)
        /\ own \in SUBSET IamRPCs /\ legacy \in BOOLEAN
        /\ ~(own # {} /\ legacy)
        /\ layout \in (IF own # {} THEN {"single", "own_first", "own_last"} ELSE {"single"})
        /\ PartialOk
        /\ transports \in TransportSets
        /\ (Scope = "thorough" => ThoroughOk)
        /\ (Scope = "quick" => QuickOk)
        /\ (Scope = "full" => FullOk)
        /\ tmpl \in (IF Scope = "small" THEN {"default"} ELSE {"default", "ads"})
        /\ (tmpl = "ads" => AdsOk)
        /\ DupOk
        /\ clients \in {{"sync"}, {"sync", "asyncio"}}
        /\ phase = "generated" /\ exposed = NoneExposed /\ call = NoCall

\* the services of the API, in declaration order
ServiceSeq == CASE layout = "own_first" -> <<"Carrier", "Other">>
                [] layout = "own_last" -> <<"Other", "Carrier">>
                [] OTHER -> <<"Carrier">>
Services == Range(ServiceSeq)

\* ---- SelectMixins ---------------------------------------------------------------------------------
Listed(m) == ApiOf(m) \in apis
HasRule(m) == rules[m] # 0
OwnRPCs == own                                              \* IAM-named RPCs declared by the API itself (any service)
OwnOn(sv) == IF sv = OwnService THEN OwnRPCs ELSE {}        \* ... by service sv
\* the IAM mixin RPCs the YAML configures
ConfiguredIam == { m \in IamRPCs : Listed(m) /\ HasRule(m) }
\* GroupYield (named reading, see the header): the IAM mixin yields as a whole iff the API declares an RPC with the name of a
\* configured IAM mixin RPC (whichever service declares it)
GroupYield == OwnRPCs \cap ConfiguredIam # {}
Yields(m) == /\ m \in IamRPCs
             /\ CASE Mutant = "no_yield" -> FALSE
                  [] Mutant = "yield_to_any_iam_name" -> OwnRPCs # {}
                  [] Mutant = "last_service_decides" /\ Last(ServiceSeq) # OwnService -> FALSE
                  [] OTHER -> GroupYield
FromYaml == { m \in RPCs : /\ (Listed(m) \/ Mutant = "ignore_apis")
                           /\ (HasRule(m) \/ (Mutant = "expose_without_rule" /\ m = "GetOperation"))
                           /\ ~Yields(m) }
FromLegacy == IF legacy THEN IamRPCs ELSE {}
Selected == FromYaml \cup FromLegacy
SelectedFor(c) == CASE c = "asyncio" /\ Mutant = "async_lacks_one" -> Selected \ {"ListLocations"}
                    [] c = "asyncio" /\ Mutant = "legacy_sync_only" -> FromYaml
                    [] OTHER -> Selected
SelectMixins == /\ phase = "generated"
                /\ exposed' = [sv \in Svcs |-> [c \in ClientKinds |->
                                  IF sv \in Services /\ c \in clients THEN SelectedFor(c) ELSE {}]]
                /\ phase' = "selected"
                /\ UNCHANGED <<cfgvars, call>>

\* names a caller finds on client c of service sv among the ten mixin method names (the service's own IAM RPCs included)
Present(sv, c) == IF sv \in Services /\ c \in clients THEN exposed[sv][c] \cup OwnOn(sv) ELSE {}

\* ---- calls ----------------------------------------------------------------------------------------
KindUsable(k) == /\ ClientOf(k) \in clients
                 /\ IF k = "rest" THEN "rest" \in transports ELSE "grpc" \in transports
\* REST calls of the legacy IAM methods are outside the property (no http rule exists for them)
OutOfScope(m, k) == k = "rest" /\ legacy /\ m \in IamRPCs
CanonicalPath(m) == "/" \o ApiOf(m) \o "/" \o m
\* two client instances per (service, client kind, transport), each on its own server; the model-checking scopes explore the
\* second instance for the legacy option and the all-on rule sets (bound on the state space, not on the replayed cases)
InstSeq == <<"A", "B">>
Insts == IF Scope \in {"small", "full"} /\ ~legacy /\ rules \notin {AllRules(1), AllRules(2)} THEN {"A"} ELSE {"A", "B"}
GrpcCall(sv, m, k, i) ==
  [inst |-> i,
   server |-> IF Mutant = "shared_wrapped_methods" /\ legacy /\ m \in IamRPCs /\ k = "grpc" THEN "A" ELSE i,
   svc |-> sv, m |-> m, kind |-> k, via |-> "mixin",
   path |-> IF Mutant = "wrong_path" /\ m = "CancelOperation" THEN "/google.longrunning.Operations/CancelOperations"
            ELSE CanonicalPath(m),
   reqtype |-> ReqType(m),
   resptype |-> IF Mutant = "raw_response" /\ m = "WaitOperation" THEN "bytes" ELSE RespType(m),
   hkey |-> IF Mutant = "header_name_for_iam" THEN "name"
            ELSE IF Mutant = "no_header" /\ m = "WaitOperation" THEN "" ELSE Field(m),
   hval |-> IF Mutant = "no_header" /\ m = "WaitOperation" THEN "" ELSE Value(m),
   verb |-> "-", body |-> "-", extra |-> "-"]
\* the bindings of m's rule in declaration order; every one carries Pattern(m), so each matches Value(m) and the call uses
\* the first one: the primary pattern
\* The http.rules of the YAML, in order: when `dup`, an older block of rules (a shared fragment) comes first, then the rules
\* proper.  An entry = [m, b: primary binding, add: additional bindings].
OldRule(m) == LET r == RuleOf(m, rules[m]) IN
              IF m = "GetOperation"
              THEN [r EXCEPT !.pre = "/v0old/", !.verb = (IF r.body = "*" THEN "get" ELSE "post"), !.body = (IF r.body = "*" THEN "" ELSE "*")]
              ELSE [r EXCEPT !.pre = "/v0old/"]
Configured == SelectSeq(RPCSeq, LAMBDA m : rules[m] # 0)
YamlRules == (IF dup THEN [i \in 1..Len(Configured) |-> [m |-> Configured[i], b |-> OldRule(Configured[i]), add |-> <<>>]] ELSE <<>>)
             \o [i \in 1..Len(Configured) |->
                   LET m == Configured[i]  r == RuleOf(m, rules[m]) IN
                   [m |-> m, b |-> r, add |-> IF addl = "none" THEN <<>> ELSE << [r EXCEPT !.pre = AddlPre(addl)] >>]]
\* google.api.Http: "last one wins" - the last rule of a selector is the one that counts
Effective(m) == LET es == SelectSeq(YamlRules, LAMBDA e : e.m = m) IN
                IF Mutant = "first_rule_wins" THEN es[1] ELSE es[Len(es)]
Bindings(m) == <<Effective(m).b>> \o Effective(m).add
Chosen(m) == LET bs == Bindings(m) IN
             IF Mutant = "sorted_bindings"
             THEN bs[CHOOSE i \in 1..Len(bs) : \A j \in 1..Len(bs) : Rank(bs[i].pre) <= Rank(bs[j].pre)]
             ELSE bs[1]
RestCall(sv, m, i) ==
  LET r == Chosen(m) IN
  [inst |-> i, server |-> i, svc |-> sv, m |-> m, kind |-> "rest", via |-> "mixin", path |-> BExpanded(m, r), reqtype |-> "-", resptype |-> "-",
   hkey |-> "-", hval |-> "-",
   verb |-> IF Mutant = "rest_wrong_verb" /\ r.verb = "put" THEN "post" ELSE r.verb,
   body |-> IF r.body = "*" /\ Mutant # "rest_drops_body" THEN "json" ELSE "none",
   extra |-> IF ~HasExtra(m) THEN "none" ELSE IF r.body = "*" /\ Mutant # "rest_drops_body" THEN "body" ELSE "query"]
CallRec(sv, m, k, i) == IF k = "rest" THEN RestCall(sv, m, i) ELSE GrpcCall(sv, m, k, i)
\* the API's own RPC is reached (the property says nothing else about it; its REST form is C04's business)
OwnRec(sv, m, k, i) == [NoCall EXCEPT !.inst = i, !.server = i, !.svc = sv, !.m = m, !.kind = k, !.via = "own",
                                   !.path = IF k = "rest" THEN "-" ELSE ServicePath(sv) \o m]

CanCallMixin(sv, m, k) == sv \in Services /\ KindUsable(k) /\ m \in exposed[sv][ClientOf(k)] /\ ~OutOfScope(m, k)
CanCallOwn(sv, m, k) == sv \in Services /\ KindUsable(k) /\ m \in OwnOn(sv) /\ m \notin exposed[sv][ClientOf(k)]
CallMixin(sv, m, k, i) == /\ phase = "selected" /\ CanCallMixin(sv, m, k) /\ i \in Insts
                          /\ call' = CallRec(sv, m, k, i)
                       /\ UNCHANGED <<cfgvars, phase, exposed>>
CallOwn(sv, m, k, i) == /\ phase = "selected" /\ CanCallOwn(sv, m, k) /\ i \in Insts
                        /\ call' = OwnRec(sv, m, k, i)
                     /\ UNCHANGED <<cfgvars, phase, exposed>>

\* the caller has its answer; the next call starts from there (keeps the state graph linear in the number of calls; a trace
\* step "call after call" is Return followed by the call)
Return == /\ phase = "selected" /\ call # NoCall /\ call' = NoCall /\ UNCHANGED <<cfgvars, phase, exposed>>
Next == \/ SelectMixins \/ Return
        \/ call = NoCall /\ \E sv \in Svcs, m \in RPCs, k \in Kinds, i \in {"A", "B"} : CallMixin(sv, m, k, i) \/ CallOwn(sv, m, k, i)
Spec == Init /\ [][Next]_vars /\ WF_vars(SelectMixins)

-----------------------------------------------------------------------------
(* The property, clause by clause; "the clients" = every client class of every service of the API. *)
Sel == phase = "selected"
\* "for each API named under `apis`, the clients expose exactly those mixin RPCs that have an HTTP rule"
Inv_OnlyWithRule == Sel => \A sv \in Services, c \in clients : \A m \in exposed[sv][c] :
                       (legacy /\ m \in IamRPCs) \/ (ApiOf(m) \in apis /\ rules[m] \in {1, 2})
\* own RPCs that carry the name of an IAM mixin RPC the YAML configures
OwnConfigured == { m \in own : IAM \in apis /\ rules[m] \in {1, 2} }
Inv_AllWithRule == Sel => \A sv \in Services, c \in clients : \A m \in RPCs :
                       (ApiOf(m) \in apis /\ rules[m] \in {1, 2} /\ (ApiOf(m) = IAM => OwnConfigured = {})) => m \in exposed[sv][c]
\* "none are exposed when the API is not listed"
Inv_NotListedNone == Sel => \A sv \in Services, c \in clients : \A a \in Apis \ apis :
                       ~(legacy /\ a = IAM) => \A m \in exposed[sv][c] : ApiOf(m) # a
\* "IAM mixins yield to same-named RPCs defined by the API itself": on no client of any service is a mixin method exposed
\* under the name of an RPC the API declares, wherever the declaring service stands among the services of the API ...
Inv_IamYields == Sel => \A sv \in Services, c \in clients : exposed[sv][c] \cap own = {}
\* ... and only to SAME-NAMED ones: own RPCs whose names are not configured IAM mixin RPCs withdraw nothing
Inv_YieldOnlyToSameNamed == Sel /\ OwnConfigured = {} => \A sv \in Services, c \in clients :
                              \A m \in IamRPCs : (IAM \in apis /\ rules[m] \in {1, 2}) => m \in exposed[sv][c]
\* GroupYield (named reading): a same-named own RPC withdraws the IAM mixin as a whole
Inv_GroupYield == Sel /\ OwnConfigured # {} => \A sv \in Services, c \in clients : exposed[sv][c] \cap IamRPCs = {}
\* "the legacy add-iam-methods option exposes the three IAM RPCs on sync and asyncio clients alike"
Inv_Legacy == Sel /\ legacy => \A sv \in Services, c \in clients : IamRPCs \subseteq exposed[sv][c]
\* every client of every service exposes the same set
Inv_Alike == Sel => \A sv, tv \in Services : \A c, d \in clients : exposed[sv][c] = exposed[tv][d]
Inv_NoClientNoMethods == \A sv \in Svcs, c \in ClientKinds : (sv \notin Services \/ c \notin clients) => exposed[sv][c] = {}

IsGrpcMixin == call.via = "mixin" /\ call.kind \in {"grpc", "grpc_asyncio"}
\* "over gRPC they call the canonical /google.<...>/<Method> path"   (the ten paths, written out)
CanonicalTable == [ListOperations |-> "/google.longrunning.Operations/ListOperations",
                   GetOperation |-> "/google.longrunning.Operations/GetOperation",
                   DeleteOperation |-> "/google.longrunning.Operations/DeleteOperation",
                   CancelOperation |-> "/google.longrunning.Operations/CancelOperation",
                   WaitOperation |-> "/google.longrunning.Operations/WaitOperation",
                   SetIamPolicy |-> "/google.iam.v1.IAMPolicy/SetIamPolicy",
                   GetIamPolicy |-> "/google.iam.v1.IAMPolicy/GetIamPolicy",
                   TestIamPermissions |-> "/google.iam.v1.IAMPolicy/TestIamPermissions",
                   ListLocations |-> "/google.cloud.location.Locations/ListLocations",
                   GetLocation |-> "/google.cloud.location.Locations/GetLocation"]
Inv_CanonicalPath == IsGrpcMixin => call.path = CanonicalTable[call.m]
\* "with the standard request and response types"
Inv_StandardTypes == IsGrpcMixin => call.reqtype = ReqType(call.m) /\ call.resptype = RespType(call.m)
\* "and a routing header for the name/resource field"
Inv_RoutingHeader == IsGrpcMixin => /\ call.hkey = (IF call.m \in IamRPCs THEN "resource" ELSE "name")
                                    /\ call.hval = Value(call.m)
\* "over REST they use the rule's verb, path and body"
Inv_Rest == (call.via = "mixin" /\ call.kind = "rest") =>
              LET r == RuleOf(call.m, rules[call.m]) IN
              /\ rules[call.m] # 0
              /\ call.verb = r.verb /\ call.path = r.pre \o Value(call.m) \o r.suf
              /\ call.body = (IF r.body = "*" THEN "json" ELSE "none")
              /\ (HasExtra(call.m) => call.extra = (IF r.body = "*" THEN "body" ELSE "query"))
\* only exposed methods are callable as mixins, the API's own RPCs keep their own path
Inv_CallsExposed == call.via = "mixin" => call.svc \in Services /\ call.m \in exposed[call.svc][ClientOf(call.kind)]
\* a call made on a client instance travels over THAT instance's transport: it reaches the server of the instance it was made on
Inv_OwnTransport == call.via \in {"mixin", "own"} => call.inst \in {"A", "B"} /\ call.server = call.inst
Inv_OwnWins == call.via = "own" => call.m \in own /\ call.svc = "Carrier" /\
                 (call.kind # "rest" => call.path = "/acme.mx.v1.Carrier/" \o call.m)
Live == <>Sel

\* ---- spec -> code: one case per configuration with everything the specification predicts ------------
RpcSeqOf(S) == SelectSeq(RPCSeq, LAMBDA m : m \in S)
KindSeq == <<"grpc", "grpc_asyncio", "rest">>
SvcSeq == <<"Carrier", "Other">>
TriplesSeq(P(_, _, _)) ==      \* all <<sv, m, k>> with P(sv, m, k), in the fixed order SvcSeq x RPCSeq x KindSeq
  LET all == [i \in 1..60 |-> <<SvcSeq[((i - 1) \div 30) + 1], RPCSeq[(((i - 1) % 30) \div 3) + 1], KindSeq[((i - 1) % 3) + 1]>>]
  IN SelectSeq(all, LAMBDA p : P(p[1], p[2], p[3]))
\* what a call of m on instance i of client kind k of service sv looks like, NoCall when no such call can be made
CallOrNone(sv, m, k, i) == IF CanCallMixin(sv, m, k) THEN CallRec(sv, m, k, i)
                           ELSE IF CanCallOwn(sv, m, k) THEN OwnRec(sv, m, k, i) ELSE NoCall
RuleJson(e) == [selector |-> ApiOf(e.m) \o "." \o e.m, verb |-> e.b.verb, uri |-> BUri(e.m, e.b), body |-> e.b.body,
                additional |-> [j \in 1..Len(e.add) |-> [verb |-> e.add[j].verb, uri |-> BUri(e.m, e.add[j]), body |-> e.add[j].body]]]
MapSeq(F(_), sq) == [i \in 1..Len(sq) |-> F(sq[i])]
Case ==
  [ apis |-> SelectSeq(ApiSeq, LAMBDA a : a \in apis),
    rulecode |-> rules,
    rules |-> MapSeq(RuleJson, YamlRules),
    dup |-> dup,
    addl |-> addl, own |-> RpcSeqOf(own), layout |-> layout, services |-> ServiceSeq, legacy |-> legacy, tmpl |-> tmpl,
    transports |-> SelectSeq(<<"grpc", "rest">>, LAMBDA t : t \in transports),
    clients |-> SelectSeq(<<"sync", "asyncio">>, LAMBDA c : c \in clients),
    table |-> [i \in 1..10 |-> [rpc |-> RPCSeq[i], snake |-> Snake(RPCSeq[i]), reqtype |-> ReqType(RPCSeq[i]),
                                resptype |-> WireRespType(RPCSeq[i]), field |-> Field(RPCSeq[i]), value |-> Value(RPCSeq[i])]],
    expect |-> [ present |-> [sv \in Svcs |-> [sync |-> RpcSeqOf(Present(sv, "sync")), asyncio |-> RpcSeqOf(Present(sv, "asyncio"))]],
                 calls |-> SelectSeq([q \in 1..120 |-> CallOrNone(SvcSeq[((q - 1) \div 60) + 1], RPCSeq[(((q - 1) % 60) \div 6) + 1],
                                                                    KindSeq[(((q - 1) % 6) \div 2) + 1], InstSeq[((q - 1) % 2) + 1])],
                                     LAMBDA c : c.via # "-"),
                 outofscope |-> LET ps == TriplesSeq(LAMBDA sv, m, k : sv \in Services /\ OutOfScope(m, k)) IN
                                [i \in 1..Len(ps) |-> [svc |-> ps[i][1], m |-> ps[i][2], kind |-> ps[i][3]]] ] ]
\* emitted once per configuration and set of client classes (the harness picks the one the emitted library has)
\* CONSTRAINT of the emission configurations: cases are printed on the `selected` states, calls need not be explored there
EmitOnly == call = NoCall
Emit == (Sel /\ call = NoCall) => PrintT(<<"CASE", ToJson(Case)>>)
=============================================================================
