CONSTANTS MinVars = 1 MaxVars = 2 MaxLen = 2
  Seps = {"/", "-", "."} Letters = {"a", "b"} ValueSeps = {"-", ".", "/"}
  Tails = {"plain", "multi", "single"} Leads = {TRUE, FALSE} WithCommon = TRUE WithWild = TRUE
  Perturbs = {"del", "app"} ValueMode = "all" Part = "paths" VRes = {} NaiveMax = 5 Mutant = "none"
SPECIFICATION Spec
INVARIANT TypeOK
INVARIANT Inv_PatternWF
INVARIANT Inv_RoundTrip
INVARIANT Inv_Inverse
INVARIANT Inv_NoMatch
INVARIANT Inv_InDom
INVARIANT Inv_Wild
INVARIANT Inv_Multi
INVARIANT Inv_Unique
INVARIANT Inv_Enumerator
