\* C20 specification sanity (thorough)
CONSTANTS
  Fns = {"wrap", "rst", "fixws", "embed"}
  Alphabet = {"w3", "w9", "long", "sp", "sps", "tab", "nl", "blank", "li", "star", "plus", "num", "colon", "quote", "tquote", "bslash"}
  MinLen = 0
  MaxLen = 3
  Widths = {10, 20, 40, 72}
  Indents = {0, 4, 8}
  Offsets = {0, 4, 9, 15, 45}
  RstWidths = {20, 40, 72}
  RstIndents = {0, 4, 12, 16}
  Kinds = {"stmt", "stmt_t", "und", "imp", "pass", "cmt", "deco", "def", "class", "if", "doc", "strb"}
  Gaps = {"0", "2", "3", "3s"}
  MaxItems = 3
  MaxLvl = 2
  Origins = {"message", "response", "field", "enum", "value", "service", "method"}
  Mutant = "none"
SPECIFICATION Spec
INVARIANT Inv_Post
INVARIANT Inv_Space
