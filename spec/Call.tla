-------------------------------- MODULE Call --------------------------------
(***************************************************************************)
(* One invocation of an emitted client method (sync, asyncio or REST):     *)
(*                                                                         *)
(*   Invoke -> RejectMixed | Coerce -> ApplyFlattened -> AutoPopulate ->   *)
(*   Send -> ServerReply -> Return | Raise                                 *)
(*                                                                         *)
(* Requests and replies are ABSTRACT VALUATIONS: functions from field      *)
(* paths to small naturals (0 = unset / default, 1 and 2 = two distinct    *)
(* concrete values chosen by the harness per field, 3 = explicitly set to  *)
(* the empty string (only meaningful for fields with presence), 9 = a      *)
(* fresh RFC-4122 version-4 UUID).  The harness maps concrete messages to  *)
(* valuations by decoding the bytes seen at the server with the INPUT      *)
(* descriptors.                                                            *)
(*                                                                         *)
(* Serves C03 (exactly one channel call, path, arity, payload, reply,      *)
(* request forms), C05 (flattened arguments), C18 (auto-populated ids).    *)
(***************************************************************************)
EXTENDS Naturals, Sequences, FiniteSets, TLC, Json, SequencesExt

CONSTANTS Scope,     \* "small" | "full"
          Mutant,    \* "none" or a self-test mutant
          DepMapOffered,  \* the same for the MAP field (only seen with option proto-plus-deps, where the request is a proto-plus type)
          DepEnumOffered  \* whether the emitted clients offer the ENUM field of a dependency-package request as a flattened
                          \* parameter (today they do not: non-primitive entries are dropped for such requests - a named deviation;
                          \* the harness reads it off inspect.signature, and if a client offers it, it must work like any other)

Fields == {"name", "count", "flag", "tags", "labels", "inner.name", "inner.tags", "kind", "class", "blob", "vals", "request_id", "opt_request_id",
           "extra"}      \* a whole singular MESSAGE field as a flattened parameter: variant 1 = the EMPTY message (present all the same)
PresenceFields == {"opt_request_id"}        \* explicit presence (proto3 optional)
NoVal == [f \in Fields |-> 0]

\* The methods of the carrier API (harness/props/call_common.py builds exactly these).
\* flat: flattened parameter keys in declared order (union of the method signatures);  auto: auto-populated fields
\* several signatures: a field named by more than one of them is offered ONCE, at the position of its first occurrence
FirstOccurrence(seq) == SelectSeq([i \in 1..Len(seq) |-> IF \E j \in 1..(i - 1) : seq[j] = seq[i] THEN "" ELSE seq[i]], LAMBDA x : x # "")
FlatOf(sigs) == FirstOccurrence(FlattenSeq(sigs))
Methods ==
  { [name |-> "GetThing",    cs |-> FALSE, ss |-> FALSE, void |-> FALSE, dep |-> FALSE, flat |-> <<"name", "count">>, auto |-> {}],
    [name |-> "DeleteThing", cs |-> FALSE, ss |-> FALSE, void |-> TRUE,  dep |-> FALSE, flat |-> <<"name">>, auto |-> {}],
    [name |-> "UpdateThing", cs |-> FALSE, ss |-> FALSE, void |-> FALSE, dep |-> FALSE,
       flat |-> <<"inner.name", "tags", "labels", "kind", "class", "flag", "opt_request_id", "extra">>, auto |-> {}],
    [name |-> "CreateThing", cs |-> FALSE, ss |-> FALSE, void |-> FALSE, dep |-> FALSE, flat |-> <<"name", "request_id">>,   \* an auto-populated field may also be flattened
       auto |-> {"request_id", "opt_request_id"}],
    \* overlapping signatures (the second omits a field of the first), and a repeated google.protobuf.Value field
    [name |-> "TouchThing",  cs |-> FALSE, ss |-> FALSE, void |-> FALSE, dep |-> FALSE,
       flat |-> FlatOf(<< <<>>, <<"name", "tags", "count">>, <<"name", "count">>, <<"vals">> >>), auto |-> {}],   \* the first signature is empty
    [name |-> "PlainThing",  cs |-> FALSE, ss |-> FALSE, void |-> FALSE, dep |-> FALSE, flat |-> <<>>, auto |-> {}],
    \* replies with the API's own message named Empty (it has fields): void means google.protobuf.Empty, nothing else
    [name |-> "NullThing",   cs |-> FALSE, ss |-> FALSE, void |-> FALSE, dep |-> FALSE, flat |-> <<"inner.tags">>, auto |-> {}],   \* dotted path to a REPEATED leaf
    \* RPC names that need disambiguation in the surface (Python keyword; a name the transport uses itself): the wire path keeps them
    [name |-> "Import",      cs |-> FALSE, ss |-> FALSE, void |-> FALSE, dep |-> FALSE, flat |-> <<>>, auto |-> {}],
    [name |-> "CreateChannel", cs |-> FALSE, ss |-> TRUE, void |-> FALSE, dep |-> FALSE, flat |-> <<>>, auto |-> {}],
    [name |-> "WatchThings", cs |-> FALSE, ss |-> TRUE,  void |-> FALSE, dep |-> FALSE, flat |-> <<"name">>, auto |-> {}],
    [name |-> "UploadThings", cs |-> TRUE, ss |-> FALSE, void |-> FALSE, dep |-> FALSE, flat |-> <<>>, auto |-> {}],
    [name |-> "ChatThings",  cs |-> TRUE,  ss |-> TRUE,  void |-> FALSE, dep |-> FALSE, flat |-> <<>>, auto |-> {}],
    [name |-> "CheckDep",    cs |-> FALSE, ss |-> FALSE, void |-> FALSE, dep |-> TRUE,
       flat |-> <<"name", "tags">> \o (IF DepEnumOffered THEN <<"kind">> ELSE <<>>) \o (IF DepMapOffered THEN <<"labels">> ELSE <<>>),
       auto |-> {"request_id"}] }
\* fields each request type actually has (the dependency-package request is smaller)
Inv_FlatFirstOccurrence == FlatOf(<< <<"name", "tags", "count">>, <<"name", "count">>, <<"vals">> >>) = <<"name", "tags", "count", "vals">>
HasField(m, f) == IF m.dep THEN f \in {"name", "tags", "labels", "count", "kind", "blob", "request_id"} ELSE TRUE

Forms == {"msg", "dict", "none", "kwargs", "both"}
Transports == {"grpc", "grpc_asyncio", "rest"}

VARIABLES m, transport, form, args, phase, req, sent, script, result, raised
vars == <<m, transport, form, args, phase, req, sent, script, result, raised>>

\* ---- input space ---------------------------------------------------------------------------------
SetsUpTo(S, k) == {T \in SUBSET S : Cardinality(T) <= k}
MaxSet == IF Scope = "full" THEN 3 ELSE 2
IdFields == {"request_id", "opt_request_id"}
\* constructive: the fields of S get variant 1 (those in T variant 2); id fields in E are explicitly empty (3)
Mk(S, T, E) == [f \in Fields |-> IF f \notin S THEN 0 ELSE IF f \in E THEN 3 ELSE IF f \in T THEN 2 ELSE 1]
ValsFor(mm, S) == { Mk(S, T, E) : T \in (IF Scope = "full" THEN SUBSET S ELSE {{}, S}), E \in SUBSET (S \cap IdFields) }
UsableFields(mm) == {f \in Fields : HasField(mm, f)}
Valuations(mm) == UNION { ValsFor(mm, S) : S \in SetsUpTo(UsableFields(mm), MaxSet) }
FlatSet(mm) == Range(mm.flat)
KwVals(mm) == UNION { ValsFor(mm, S) : S \in (SetsUpTo(FlatSet(mm), MaxSet) \ {{}}) }
ReplyVals == IF Scope = "full" THEN { [name |-> a, count |-> b] : a \in 0..2, b \in 0..1 }
             ELSE { [name |-> 1, count |-> 0], [name |-> 2, count |-> 1], [name |-> 0, count |-> 0] }
Scripts(mm) == IF mm.ss THEN {<<>>} \cup {<<r>> : r \in ReplyVals} \cup {<<[name |-> 1, count |-> 0], [name |-> 2, count |-> 1]>>,
                                   <<[name |-> 1, count |-> 1], [name |-> 1, count |-> 1], [name |-> 2, count |-> 0]>>}
               ELSE {<<r>> : r \in ReplyVals}

\* args: a sequence of request valuations (one for unary requests; 0..2 for client streaming) and, for the flattened
\* forms, the keyword valuation
ArgChoices(mm, fm) ==
  CASE mm.cs -> { [reqs |-> rs, kw |-> NoVal] : rs \in {<<>>} \cup {<<v>> : v \in Valuations(mm)}
                                                      \cup {<<v, NoVal>> : v \in Valuations(mm)} }
    [] fm \in {"msg", "dict"} -> { [reqs |-> <<v>>, kw |-> NoVal] : v \in Valuations(mm) }
    [] fm = "none" -> { [reqs |-> <<NoVal>>, kw |-> NoVal] }
    [] fm = "kwargs" -> { [reqs |-> <<NoVal>>, kw |-> k] : k \in KwVals(mm) }
    [] OTHER -> { [reqs |-> <<v>>, kw |-> k] : v \in {NoVal, [NoVal EXCEPT !["name"] = 1], [NoVal EXCEPT !["count"] = 2]}, k \in KwVals(mm) }
FormsOf(mm) == IF mm.cs THEN {"msg"} ELSE IF mm.flat = <<>> THEN {"msg", "dict", "none"} ELSE Forms
TransportsOf(mm) == IF mm.cs THEN {"grpc", "grpc_asyncio"} ELSE Transports

Init == /\ m \in Methods /\ transport \in TransportsOf(m) /\ form \in FormsOf(m)
        /\ args \in ArgChoices(m, form) /\ script \in Scripts(m)
        /\ phase = "invoked" /\ req = <<>> /\ sent = <<>> /\ result = <<>> /\ raised = "none"

\* ---- actions ------------------------------------------------------------------------------------
RejectMixed == /\ phase = "invoked" /\ form = "both" /\ Mutant # "no_mixed_check"
               /\ raised' = "ValueError" /\ phase' = "raised"
               /\ UNCHANGED <<m, transport, form, args, req, sent, script, result>>

Coerce == /\ phase = "invoked" /\ (form # "both" \/ Mutant = "no_mixed_check")
          /\ req' = args.reqs /\ phase' = "coerced"
          /\ UNCHANGED <<m, transport, form, args, sent, script, result, raised>>

\* keyword arguments overwrite the corresponding request fields (a None argument leaves the field alone)
OverlayOk(v, k) == [f \in Fields |-> IF k[f] # 0 THEN k[f] ELSE v[f]]
Overlay(v, k) == [f \in Fields |-> IF k[f] # 0 /\ ~(Mutant = "drop_falsy_kw" /\ k[f] = 3) THEN k[f] ELSE v[f]]
ApplyFlattened == /\ phase = "coerced"
                  /\ req' = IF form \in {"kwargs", "both"} /\ ~m.cs THEN <<Overlay(req[1], args.kw)>> ELSE req
                  /\ phase' = "flattened"
                  /\ UNCHANGED <<m, transport, form, args, sent, script, result, raised>>

\* AIP-4235: populate iff the caller left the field unset (or empty, for fields without presence)
NeedsId(v, f) == IF f \in PresenceFields THEN v[f] = 0 ELSE v[f] \in {0, 3}
Populate(v) == [f \in Fields |-> IF f \in m.auto /\ NeedsId(v, f) /\ Mutant # "never_populate" THEN 9
                                 ELSE IF f \in m.auto /\ Mutant = "always_populate" THEN 9 ELSE v[f]]
AutoPopulate == /\ phase = "flattened"
                /\ req' = IF m.cs THEN req ELSE <<Populate(req[1])>>
                /\ phase' = "populated"
                /\ UNCHANGED <<m, transport, form, args, sent, script, result, raised>>

Kind(mm) == (IF mm.cs THEN "stream" ELSE "unary") \o "_" \o (IF mm.ss THEN "stream" ELSE "unary")
Path(mm) == (IF mm.name = "CheckDep" THEN "/acme.call.v1.Things/" ELSE "/acme.call.v1.Things/") \o mm.name
Send == /\ phase = "populated"
        /\ sent' = Append(sent, [path |-> Path(m), kind |-> Kind(m), msgs |-> req])
        /\ phase' = IF Mutant = "double_send" /\ Len(sent) = 0 THEN "populated" ELSE "sent"
        /\ UNCHANGED <<m, transport, form, args, req, script, result, raised>>

\* on the wire a field without presence that is "explicitly empty" is indistinguishable from unset
Wire(v) == [f \in Fields |-> IF v[f] = 3 /\ f \notin PresenceFields THEN 0 ELSE v[f]]

ServerReply == /\ phase = "sent"
               /\ result' = IF m.void THEN <<>> ELSE script
               /\ phase' = "returned"
               /\ UNCHANGED <<m, transport, form, args, req, sent, script, raised>>

Next == RejectMixed \/ Coerce \/ ApplyFlattened \/ AutoPopulate \/ Send \/ ServerReply
Spec == Init /\ [][Next]_vars /\ WF_vars(Next)

-----------------------------------------------------------------------------
Done == phase \in {"returned", "raised"}
\* the request the caller meant: explicit message, or the flattened fields set on an empty request
Intended == IF m.cs THEN args.reqs
            ELSE IF form \in {"kwargs"} THEN <<OverlayOk(NoVal, args.kw)>> ELSE args.reqs

\* C03
Inv_ExactlyOneCall == (phase = "returned" => Len(sent) = 1) /\ (phase = "raised" => Len(sent) = 0) /\ Len(sent) <= 1
Inv_PathArity == \A i \in 1..Len(sent) : sent[i].path = Path(m) /\ sent[i].kind = Kind(m)
Inv_Payload == phase = "returned" =>
                 /\ Len(sent[1].msgs) = Len(Intended)
                 /\ \A i \in 1..Len(Intended) : \A f \in Fields :
                        f \notin m.auto => Wire(sent[1].msgs[i])[f] = Wire(Intended[i])[f]
Inv_Reply == phase = "returned" => result = (IF m.void THEN <<>> ELSE script)
\* C05
Inv_MixedRejected == (Done /\ form = "both") => (raised = "ValueError" /\ Len(sent) = 0)
Inv_OnlyMixedRejected == raised # "none" => form = "both"
\* C18
Inv_AutoPopulate == phase = "returned" /\ ~m.cs => \A f \in m.auto :
                      LET given == Intended[1][f] IN
                      IF NeedsId(Intended[1], f) THEN sent[1].msgs[1][f] = 9
                      ELSE sent[1].msgs[1][f] = given
Inv_NoUuidElsewhere == \A i \in 1..Len(sent) : \A j \in 1..Len(sent[i].msgs) : \A f \in Fields :
                         sent[i].msgs[j][f] = 9 => f \in m.auto
Live == <>Done

Case == [ method |-> m.name, cs |-> m.cs, ss |-> m.ss, void |-> m.void, transport |-> transport, form |-> form, args |-> args,
          script |-> script, flat |-> m.flat, auto |-> m.auto,
          expect |-> [ raised |-> raised, nsent |-> Len(sent),
                       sent |-> IF Len(sent) = 1 THEN [path |-> sent[1].path, kind |-> sent[1].kind,
                                                       msgs |-> [i \in 1..Len(sent[1].msgs) |-> Wire(sent[1].msgs[i])]]
                                ELSE [path |-> "", kind |-> "", msgs |-> <<>>],
                       result |-> result ] ]
Emit == Done => PrintT(<<"CASE", ToJson(Case)>>)
=============================================================================
