----------------------------- MODULE MixinsTrace -----------------------------
(***************************************************************************)
(* Batched trace validation for Mixins (code -> spec).  TRACE_FILE holds   *)
(*   [ {cfg: {apis:[..], rulecode:{rpc: 0..2}, addl, dup, own:[rpc..],  *)
(*            layout,                                                      *)
(*            legacy, tmpl,                                                *)
(*            transports:[..], clients:[..]},                              *)
(*      events: [ {ev:"select", present: {Carrier: {sync:[rpc..],          *)
(*                 asyncio:[rpc..]}, Other: {sync:[..], asyncio:[..]}}}    *)
(*              | {ev:"call", inst, server, svc, m, kind, via, path,       *)
(*                 reqtype, resptype, hkey, hval, verb, body, extra} .. ]} *)
(*     .. ]                                                                *)
(* recorded from a library emitted by the real generator for that          *)
(* configuration: `select` = the mixin method names found on the imported  *)
(* client classes, `call` = what the loopback gRPC / HTTP server saw and    *)
(* what the caller got back.  Every action is                              *)
(*   IsEvent(name) /\ <action of Mixins> /\ <logged fields = primed vars>  *)
(* so every invariant of Mixins is evaluated after every recorded step.    *)
(***************************************************************************)
EXTENDS Mixins, IOUtils, TLCExt
VARIABLES tid, l
Traces == JsonDeserialize(IOEnv.TRACE_FILE)
N == Len(Traces)
tvars == <<vars, tid, l>>
Ev == Traces[tid].events
SetOf(s) == {s[i] : i \in 1..Len(s)}

C(t) == Traces[t].cfg
RulesOf(t) == [m \in RPCs |-> C(t).rulecode[m]]
ResetFor(t) == /\ apis' = SetOf(C(t).apis) /\ rules' = RulesOf(t) /\ addl' = C(t).addl /\ dup' = C(t).dup /\ own' = SetOf(C(t).own) /\ layout' = C(t).layout /\ transports' = SetOf(C(t).transports)
               /\ legacy' = C(t).legacy /\ tmpl' = C(t).tmpl /\ clients' = SetOf(C(t).clients)
               /\ phase' = "generated" /\ exposed' = NoneExposed /\ call' = NoCall
TInit == /\ tid = 1 /\ l = 1 /\ TLCSet(1, 0) /\ TLCSet(2, <<0, 0>>)
         /\ apis = SetOf(C(1).apis) /\ rules = RulesOf(1) /\ addl = C(1).addl /\ dup = C(1).dup /\ own = SetOf(C(1).own) /\ layout = C(1).layout /\ transports = SetOf(C(1).transports)
         /\ legacy = C(1).legacy /\ tmpl = C(1).tmpl /\ clients = SetOf(C(1).clients)
         /\ phase = "generated" /\ exposed = NoneExposed /\ call = NoCall

IsEvent(e) == tid <= N /\ l <= Len(Ev) /\ Ev[l].ev = e /\ l' = l + 1 /\ tid' = tid
\* the names found on each existing client of each service = what the specification exposes there (plus the service's own IAM RPCs)
TSelect == /\ IsEvent("select") /\ SelectMixins
           /\ \A sv \in Services :
                /\ SetOf(Ev[l].present[sv].sync) = exposed'[sv]["sync"] \cup OwnOn(sv)
                /\ ("asyncio" \in clients => SetOf(Ev[l].present[sv].asyncio) = exposed'[sv]["asyncio"] \cup OwnOn(sv))
Logged == [inst |-> Ev[l].inst, server |-> Ev[l].server, svc |-> Ev[l].svc, m |-> Ev[l].m, kind |-> Ev[l].kind, via |-> Ev[l].via, path |-> Ev[l].path, reqtype |-> Ev[l].reqtype,
           resptype |-> Ev[l].resptype, hkey |-> Ev[l].hkey, hval |-> Ev[l].hval, verb |-> Ev[l].verb,
           body |-> Ev[l].body, extra |-> Ev[l].extra]
TCall == /\ IsEvent("call") /\ Ev[l].svc \in Svcs /\ Ev[l].m \in RPCs /\ Ev[l].kind \in Kinds
         /\ Ev[l].inst \in {"A", "B"}
         /\ (CallMixin(Ev[l].svc, Ev[l].m, Ev[l].kind, Ev[l].inst) \/ CallOwn(Ev[l].svc, Ev[l].m, Ev[l].kind, Ev[l].inst))
         /\ call' = Logged
TNextTrace == /\ tid <= N /\ l = Len(Ev) + 1 /\ phase = "selected"
              /\ TLCSet(1, tid)
              /\ tid' = tid + 1 /\ l' = 1
              /\ IF tid + 1 <= N THEN ResetFor(tid + 1) ELSE UNCHANGED vars
TNext == TSelect \/ TCall \/ TNextTrace
TSpec == TInit /\ [][TNext]_tvars
Progress == TLCSet(2, <<tid, l>>)          \* CONSTRAINT: remembers how far the batch got (workers 1)
Accepted == PrintT(<<"ACCEPTED", TLCGet(1)>>) /\ PrintT(<<"REACHED", TLCGet(2)>>) /\ TLCGet(1) = N
=============================================================================
