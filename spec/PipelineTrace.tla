---------------------------- MODULE PipelineTrace ----------------------------
(***************************************************************************)
(* Validates traces recorded by the env-guarded hooks in /repo against     *)
(* Pipeline.  TRACE_FILE: [ {req: <abstract request>, events: [...]} ]     *)
(* Event kinds (fields are projections made by the hooks / harness):       *)
(*   Options {transport, metadata, snippets, numeric}                      *)
(*   Package {package: segs}      Naming {ns, name, version, versioned}    *)
(*   Protos  {targets: [module names], deps: n}                            *)
(*   File    {name: segs}   (disposition = emitted)                        *)
(*   Response {lost, proto3_optional}                                              *)
(* One Render step of the specification is observed as several File        *)
(* events: each must be Allowed (unique, normalised, inside the gating and *)
(* naming rules) and at Response everything Required must be there.        *)
(***************************************************************************)
EXTENDS Pipeline, IOUtils, TLCExt
VARIABLES tid, l
Traces == JsonDeserialize(IOEnv.TRACE_FILE)
N == Len(Traces)
tvars == <<vars, tid, l>>
Ev == Traces[tid].events

ReqOf(t) == LET r == Traces[t].req IN
  [ pkg |-> <<r.pkg[1], r.pkg[2], r.pkg[3]>>, files |-> r.files, svcs |-> r.svcs, kinds |-> r.kinds, dep |-> r.dep, items |-> r.items, extra |-> r.extra ]
ResetFor(t) == /\ req' = ReqOf(t) /\ stage' = "start" /\ opts' = None /\ package' = <<>> /\ naming' = None /\ protos' = <<>>
               /\ todo' = <<>> /\ emitted' = <<>> /\ features' = {} /\ subs' = <<>>
TInit == /\ tid = 1 /\ l = 1 /\ TLCSet(1, 0) /\ TLCSet(2, <<0, 0>>)
         /\ req = ReqOf(1) /\ stage = "start" /\ opts = None /\ package = <<>> /\ naming = None /\ protos = <<>>
         /\ todo = <<>> /\ emitted = <<>> /\ features = {} /\ subs = <<>>

IsEvent(e) == tid <= N /\ l <= Len(Ev) /\ Ev[l].ev = e /\ l' = l + 1 /\ tid' = tid
TOptions == IsEvent("Options") /\ ParseOptions
            /\ opts'.transport = Ev[l].transport /\ opts'.metadata = Ev[l].metadata
            /\ opts'.snippets = Ev[l].snippets /\ opts'.numeric = Ev[l].numeric
TPackage == IsEvent("Package") /\ SelectPackage /\ package' = Ev[l].package
TNaming  == IsEvent("Naming") /\ BuildNaming
            /\ naming' = [ns |-> Ev[l].ns, name |-> Ev[l].name, version |-> Ev[l].version, versioned |-> Ev[l].versioned]
TProtos  == IsEvent("Protos") /\ LoadProtos
            /\ {protos'[i].mod : i \in {j \in 1..Len(protos') : protos'[j].target}} \cup {subs'[i].mod : i \in 1..Len(subs')} = Range(Ev[l].targets)
            /\ Len(Ev[l].targets) = Len(req.files) + Len(subs')
TFile    == /\ IsEvent("File") /\ stage = "render"
            /\ Allowed(Ev[l].name)
            /\ emitted' = IF Ev[l].name \in Emitted THEN emitted ELSE Append(emitted, Ev[l].name)
            /\ UNCHANGED <<req, stage, opts, package, naming, protos, todo, features, subs>>
TResponse == /\ IsEvent("Response") /\ stage = "render"
             /\ Required \subseteq Emitted
             /\ Ev[l].lost = 0                             \* every rendered File is in the response (nothing merged away)
             /\ Ev[l].proto3_optional
             /\ features' = {"PROTO3_OPTIONAL"} /\ stage' = "done"
             /\ UNCHANGED <<req, opts, package, naming, protos, todo, emitted, subs>>
TNextTrace == /\ tid <= N /\ l = Len(Ev) + 1 /\ stage = "done"
              /\ TLCSet(1, tid)
              /\ tid' = tid + 1 /\ l' = 1
              /\ IF tid + 1 <= N THEN ResetFor(tid + 1) ELSE UNCHANGED vars
TNext == TOptions \/ TPackage \/ TNaming \/ TProtos \/ TFile \/ TResponse \/ TNextTrace
TSpec == TInit /\ [][TNext]_tvars
Progress == TLCSet(2, <<tid, l>>)
Accepted == PrintT(<<"ACCEPTED", TLCGet(1)>>) /\ PrintT(<<"REACHED", TLCGet(2)>>) /\ TLCGet(1) = N
\* invariants of Pipeline that make sense on a partially rendered response
TInv_InitPy == stage = "done" => \A n \in Emitted : (Under(Root, n) /\ IsPy(n)) => \A d \in DirsOf(n) : d \o <<"__init__.py">> \in Emitted
TInv_TypesExact == stage = "done" => Cardinality(TypesModules) = Len(req.files) + Len(subs)
TInv_ServicesExact == stage = "done" => Cardinality(ServicePkgs) = Len(req.svcs)
=============================================================================
