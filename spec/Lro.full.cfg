CONSTANTS MaxK = 6 Values = {1, 2, 3} Codes = {2, 5, 10} Insts = {1, 2} Scope = "all" Mutant = "none"
SPECIFICATION Spec
INVARIANT Inv_Reject
INVARIANT Inv_RejectKind
INVARIANT Inv_Resolved
INVARIANT Inv_Plain
INVARIANT Inv_FutureKind
INVARIANT Inv_OneStart
INVARIANT Inv_Polls
INVARIANT Inv_SameChannel
INVARIANT Inv_Result
INVARIANT Inv_Metadata
INVARIANT Inv_Error
PROPERTY Live
