-------------------------------- MODULE Rest --------------------------------
(***************************************************************************)
(* REST transcoding of one RPC of the emitted library (C04), written from  *)
(* the property text and the google.api.http / AIP-127 rules.              *)
(*                                                                         *)
(* A method is a SHAPE: an ordered list of bindings (primary first, then   *)
(* additional_bindings), each [verb, path template, body], the set of      *)
(* REQUIRED scalar fields of its request message, the numeric-enum flag of *)
(* the generated library and the declared response type.  A client session *)
(* makes calls; one action per step of a call:                             *)
(*                                                                         *)
(*   AddBinding, Seal  an API author writes the rule / annotations (shape)  *)
(*   BuildLeaf         the caller fills the request, one leaf at a time    *)
(*   Invoke            the caller hands over a request (abstract valuation) *)
(*   RefuseNoBinding   method without binding: NotImplementedError         *)
(*   SelectBinding     first binding all of whose path variables are set   *)
(*                     to non-empty values matching their segment patterns  *)
(*   RejectNoMatch     no binding is eligible: error, nothing is sent      *)
(*   ExpandPath        template tokens -> URL path segments                *)
(*   SplitBody         body "*": whole remainder; body f: exactly field f  *)
(*   RemainderToQuery  every other set field becomes a query parameter     *)
(*   AddRequiredDefaults  required scalar placed in the query and unset    *)
(*                     travels default-valued                              *)
(*   EncodeEnums       JSON names (lowerCamel), enums as names or as       *)
(*                     numbers + $alt=json;enum-encoding=int               *)
(*   SendHttp, ServerReply, ParseReply, Return | Raise                     *)
(*                                                                         *)
(* Abstract values: every leaf of the request has a value that is a        *)
(* sequence of strings; <<>> = unset.  For path-capable string leaves the  *)
(* sequence lists the "/"-separated segments of the text; for repeated     *)
(* leaves it lists the elements; otherwise it has one element.             *)
(* Identifiers are never taken apart: every name comes from LeafTab with   *)
(* its spellings (DESIGN 3.1).                                             *)
(***************************************************************************)
EXTENDS Naturals, Sequences, FiniteSets, TLC, Json

CONSTANTS Verbs,       \* verbs the primary binding may use
          Rotate,      \* TRUE: additional binding i uses the verb after the one of binding i-1 (cyclic); FALSE: any of Verbs
          PathIds,     \* path shapes (keys of PathTab) bindings may use
          Bodies,      \* subset of {"", "*", "inner"}
          MaxExtra,    \* number of additional_bindings: 0..MaxExtra   (a method may also have no rule at all)
          ReqSetIds,   \* keys of ReqSetTab
          PathValIds,  \* keys of PV: values path-capable leaves may take
          VarLeaves,   \* leaves the request builder varies (all others stay unset)
          Numerics,    \* subset of BOOLEAN
          RespTypes,   \* subset of {"A", "B", "P"}: two messages of the API itself; P = a message of a dependency package (a plain protobuf class in the emitted code)
          ReplyIds,    \* keys of ReplyTab
          Calls,       \* calls per session
          Mutant       \* "none" for the real design; anything else is a self-test mutant TLC must reject

-----------------------------------------------------------------------------
(* Vocabulary                                                              *)
Lf(top, json, jrel, kind, ptype) == [top |-> top, json |-> json, jrel |-> jrel, kind |-> kind, ptype |-> ptype]
\* leaf -> top-level field, JSON (lowerCamel) key path, JSON key relative to the top-level field, abstract kind,
\* proto type of the leaf field.  Message layout: Request{..., inner: Inner{name, sub_title, kind, tags}}
LeafTab ==
     "name"            :> Lf("name",       "name",           "",         "segs",  "string")
  @@ "parent"          :> Lf("parent",     "parent",         "",         "segs",  "string")
  @@ "class"           :> Lf("class",      "class",          "",         "segs",  "string")
  @@ "inner.name"      :> Lf("inner",      "inner.name",     "name",     "segs",  "string")
  @@ "inner.sub_title" :> Lf("inner",      "inner.subTitle", "subTitle", "str",   "string")
  @@ "inner.kind"      :> Lf("inner",      "inner.kind",     "kind",     "enum",  "enum")
  @@ "inner.tags"      :> Lf("inner",      "inner.tags",     "tags",     "reps",  "string")
  @@ "kind"            :> Lf("kind",       "kind",           "",         "enum",  "enum")
  @@ "flag"            :> Lf("flag",       "flag",           "",         "bool",  "bool")
  @@ "ids"             :> Lf("ids",        "ids",            "",         "repi",  "int32")
  @@ "opt_n"           :> Lf("opt_n",      "optN",           "",         "opt",   "int32")
  @@ "opt_s"           :> Lf("opt_s",      "optS",           "",         "opt",   "string")
  @@ "label_text"      :> Lf("label_text", "labelText",      "",         "str",   "string")
  @@ "r_double"        :> Lf("r_double",   "rDouble",        "",         "float", "double")
  @@ "r_float"         :> Lf("r_float",    "rFloat",         "",         "float", "float")
  @@ "r_int64"         :> Lf("r_int64",    "rInt64",         "",         "int",   "int64")
  @@ "r_uint64"        :> Lf("r_uint64",   "rUint64",        "",         "int",   "uint64")
  @@ "r_int32"         :> Lf("r_int32",    "rInt32",         "",         "int",   "int32")
  @@ "r_fixed64"       :> Lf("r_fixed64",  "rFixed64",       "",         "int",   "fixed64")
  @@ "r_fixed32"       :> Lf("r_fixed32",  "rFixed32",       "",         "int",   "fixed32")
  @@ "r_bool"          :> Lf("r_bool",     "rBool",          "",         "bool",  "bool")
  @@ "r_string"        :> Lf("r_string",   "rString",        "",         "str",   "string")
  @@ "r_bytes"         :> Lf("r_bytes",    "rBytes",         "",         "bytes", "bytes")
  @@ "r_uint32"        :> Lf("r_uint32",   "rUint32",        "",         "int",   "uint32")
  @@ "r_sfixed32"      :> Lf("r_sfixed32", "rSfixed32",      "",         "int",   "sfixed32")
  @@ "r_sfixed64"      :> Lf("r_sfixed64", "rSfixed64",      "",         "int",   "sfixed64")
  @@ "r_sint32"        :> Lf("r_sint32",   "rSint32",        "",         "int",   "sint32")
  @@ "r_sint64"        :> Lf("r_sint64",   "rSint64",        "",         "int",   "sint64")
Leaves == DOMAIN LeafTab
LeafSeq == << "name", "parent", "class", "inner.name", "inner.sub_title", "inner.kind", "inner.tags", "kind", "flag",
              "ids", "opt_n", "opt_s", "label_text", "r_double", "r_float", "r_int64", "r_uint64", "r_int32", "r_fixed64",
              "r_fixed32", "r_bool", "r_string", "r_bytes", "r_uint32", "r_sfixed32", "r_sfixed64", "r_sint32",
              "r_sint64" >>
Kind(l) == LeafTab[l].kind
ScalarKinds == {"segs", "str", "bool", "int", "float", "bytes"}     \* singular scalars without explicit presence
RScalars == { "r_double", "r_float", "r_int64", "r_uint64", "r_int32", "r_fixed64", "r_fixed32", "r_bool", "r_string",
              "r_bytes", "r_uint32", "r_sfixed32", "r_sfixed64", "r_sint32", "r_sint64" }   \* one per scalar kind of proto3
\* sets of REQUIRED fields a request message may declare (top-level singular scalars only; required enums and
\* required fields of nested messages are outside the clause "required scalar field" and are not generated)
ReqSetTab == [ none    |-> {},
               scalars |-> RScalars,
               names   |-> {"name", "parent", "label_text", "r_string"},
               mixed   |-> {"name", "flag", "r_int64", "r_bool", "r_bytes", "r_double", "opt_n"},   \* opt_n: REQUIRED and proto3-optional
               mixed2  |-> {"parent", "class", "label_text", "r_sint32", "r_fixed64", "r_float", "r_uint32"} ]

EnumNum  == [KIND_UNSPECIFIED |-> "0", BIG |-> "1", SMALL |-> "2"]
EnumNames == DOMAIN EnumNum
EnumNums == {EnumNum[n] : n \in EnumNames}
NameOfNum(x) == CHOOSE n \in EnumNames : EnumNum[n] = x

\* values of path-capable leaves: sequences of non-empty segments
PV == [ x1 |-> <<"x1">>, i2 |-> <<"items", "a1">>, s2 |-> <<"shelves", "s1">>, i3 |-> <<"items", "a1", "b2">>,
        s4 |-> <<"shelves", "s1", "items", "a1">>, sp |-> <<"items", "a b">>, j2 |-> <<"items", "c3">>,
        c2 |-> <<"class", "a1">> ]
SetVals(l) == CASE Kind(l) = "segs"  -> {PV[i] : i \in PathValIds}
                [] Kind(l) = "str"   -> {<<"t1">>}
                [] Kind(l) = "enum"  -> {<<"BIG">>, <<"SMALL">>}
                [] Kind(l) = "bool"  -> {<<"true">>}
                [] Kind(l) = "int"   -> {<<"7">>}
                [] Kind(l) = "float" -> {<<"1.5">>}
                [] Kind(l) = "bytes" -> {<<"YWI=">>}                 \* base64 text of the two bytes "ab"
                [] Kind(l) = "repi"  -> {<<"1", "2">>, <<"3">>}
                [] Kind(l) = "reps"  -> {<<"x", "y">>}
                [] Kind(l) = "opt"   -> IF LeafTab[l].ptype = "string" THEN {<<"">>, <<"t2">>}     \* a set empty string is not "unset" either
                                        ELSE {<<"0">>, <<"5">>}          \* explicit presence: a set 0 is not "unset"
Default(l) == CASE Kind(l) \in {"int", "float"} \/ (Kind(l) = "opt" /\ LeafTab[l].ptype # "string") -> "0"
                [] Kind(l) = "bool" -> "false"
                [] OTHER -> ""                                          \* segs, str, bytes

\* path templates: sequences of tokens; a token is a literal segment or a variable with a segment pattern
\* ("*" one segment, "**" one or more trailing segments) and an optional custom-verb suffix on its last segment
TL(s)         == [lit |-> s,  var |-> "", pat |-> <<>>, suf |-> ""]
TV(v, p, suf) == [lit |-> "", var |-> v,  pat |-> p,    suf |-> suf]
PathTab ==
     "none"  :> << TL("things") >>                                                     \* no variable
  @@ "name1" :> << TV("name", <<>>, "") >>                                             \* {name}
  @@ "name2" :> << TV("name", <<"items", "*">>, "") >>                                 \* {name=items/*}
  @@ "nameT" :> << TV("name", <<"items", "**">>, "") >>                                \* {name=items/**}
  @@ "par2"  :> << TV("parent", <<"shelves", "*">>, ""), TL("items") >>                \* {parent=shelves/*}/items
  @@ "two"   :> << TV("parent", <<"shelves", "*">>, ""), TL("items"), TV("name", <<>>, "") >>
  @@ "in2"   :> << TV("inner.name", <<"items", "*">>, "") >>                           \* nested {inner.name=items/*}
  @@ "in4c"  :> << TV("inner.name", <<"shelves", "*", "items", "*">>, ":del") >>       \* nested, 4 segments, :verb
  @@ "cls2"  :> << TV("class", <<"items", "*">>, "") >>                                \* reserved word as field name
  @@ "clsS"  :> << TV("class", <<"class", "*">>, "") >>                                \* ... whose template contains the word itself: {class=class/*}
  @@ "int1"  :> << TL("n"), TV("r_int32", <<>>, "") >>                                 \* n/{r_int32}: integer field
BLit == <<"b1", "b2", "b3", "b4">>           \* literal naming the position of the binding inside the rule
VerbSeq == <<"get", "post", "put", "delete", "patch">>
VerbNext == [get |-> "post", post |-> "put", put |-> "delete", delete |-> "patch", patch |-> "get"]

\* response valuations the scripted server may answer (leaves name, kind, big_n of the response message)
ReplyTab == [ full  |-> [name |-> <<"r1">>, kind |-> <<"SMALL">>, big_n |-> <<"7">>, unknown |-> TRUE],
              part  |-> [name |-> <<"r2">>, kind |-> <<"BIG">>,   big_n |-> <<>>,    unknown |-> FALSE],
              empty |-> [name |-> <<>>,     kind |-> <<>>,        big_n |-> <<>>,    unknown |-> TRUE] ]

-----------------------------------------------------------------------------
(* Text helpers (strings can be concatenated, never taken apart)           *)
RECURSIVE Join(_, _)
Join(s, sep) == IF Len(s) = 0 THEN "" ELSE IF Len(s) = 1 THEN s[1] ELSE s[1] \o sep \o Join(Tail(s), sep)
TokText(t) == IF t.var = "" THEN t.lit \o t.suf
              ELSE "{" \o t.var \o (IF t.pat = <<>> THEN "" ELSE "=" \o Join(t.pat, "/")) \o "}" \o t.suf
Toks(i, pid) == <<TL("v1"), TL(BLit[i])>> \o PathTab[pid]
Uri(toks) == "/" \o Join([i \in 1..Len(toks) |-> TokText(toks[i])], "/")

EffPat(t) == IF t.pat = <<>> THEN <<"*">> ELSE t.pat
IsMulti(p) == Len(p) > 0 /\ p[Len(p)] = "**"
MatchPat(p, v) == IF IsMulti(p)
                  THEN Len(v) >= Len(p) /\ \A i \in 1..(Len(p) - 1) : p[i] = "*" \/ p[i] = v[i]
                  ELSE Len(v) = Len(p) /\ \A i \in 1..Len(p) : p[i] = "*" \/ p[i] = v[i]
VarIdx(toks) == {i \in 1..Len(toks) : toks[i].var # ""}
PathVars(toks) == {toks[i].var : i \in VarIdx(toks)}
EligibleT(toks, r) == \A i \in VarIdx(toks) : r[toks[i].var] # <<>> /\ MatchPat(EffPat(toks[i]), r[toks[i].var])
WithSuf(segs, suf) == IF suf = "" \/ segs = <<>> THEN segs ELSE [segs EXCEPT ![Len(segs)] = @ \o suf]
TokSegs(t, r) == IF t.var = "" THEN <<t.lit \o t.suf>> ELSE WithSuf(r[t.var], t.suf)
RECURSIVE ExpandFrom(_, _, _)
ExpandFrom(toks, r, i) == IF i > Len(toks) THEN <<>> ELSE TokSegs(toks[i], r) \o ExpandFrom(toks, r, i + 1)

EmptyMap == <<>>                              \* the function with empty domain
Restrict(f, S) == [k \in S |-> f[k]]
SameMap(a, b) == DOMAIN a = DOMAIN b /\ \A k \in DOMAIN a : a[k] = b[k]

-----------------------------------------------------------------------------
VARIABLES bindings, required, numeric, rtype,          \* the shape (fixed once sealed)
          di,                                           \* next leaf the caller decides while building req
          req, phase, sel, path, hasBody, bodyL, queryL, dflt, msg, http, reply, result, outcome,
          calls, log
shapeVars == <<bindings, required, numeric, rtype>>
callVars == <<req, sel, path, hasBody, bodyL, queryL, dflt, msg, http, reply, result, outcome>>
vars == <<bindings, required, numeric, rtype, di, req, phase, sel, path, hasBody, bodyL, queryL, dflt, msg,
          http, reply, result, outcome, calls, log>>

Unset == [l \in Leaves |-> <<>>]
NoMsg == [verb |-> "", path |-> <<>>, query |-> EmptyMap, hasBody |-> FALSE, body |-> EmptyMap]
NoReply == [name |-> <<>>, kind |-> <<>>, big_n |-> <<>>, unknown |-> FALSE]
NoResult == [name |-> <<>>, kind |-> <<>>, big_n |-> <<>>]
LeafOrder == SelectSeq(LeafSeq, LAMBDA l : l \in VarLeaves)

BToks(i) == Toks(i, bindings[i].pid)
Eligible(i) == EligibleT(BToks(i), req)
Loc(i, l) == IF l \in PathVars(BToks(i)) THEN "path"
             ELSE IF bindings[i].body = "*" THEN "body"
             ELSE IF bindings[i].body # "" /\ LeafTab[l].top = bindings[i].body THEN "body"
             ELSE "query"
BodyKey(i, l) == IF bindings[i].body = "*" THEN LeafTab[l].json ELSE LeafTab[l].jrel
Wire0(l, v) == IF Kind(l) = "segs" /\ v # <<>> THEN <<Join(v, "/")>> ELSE v
Enc(l, v) == IF Kind(l) = "enum" /\ numeric THEN [i \in 1..Len(v) |-> EnumNum[v[i]]] ELSE v
Dec(l, w) == IF Kind(l) = "enum" /\ numeric /\ \A i \in 1..Len(w) : w[i] \in EnumNums
             THEN [i \in 1..Len(w) |-> NameOfNum(w[i])] ELSE w
AltParam == "$alt"
AltValue == <<"json;enum-encoding=int">>
SystemParams == {AltParam}

Init == /\ bindings = <<>> /\ required = {} /\ numeric = FALSE /\ rtype = "A"
        /\ di = 1 /\ req = Unset /\ phase = "shaping" /\ sel = 0 /\ path = <<>>
        /\ hasBody = FALSE /\ bodyL = EmptyMap /\ queryL = EmptyMap /\ dflt = {} /\ msg = NoMsg /\ http = <<>>
        /\ reply = NoReply /\ result = NoResult /\ outcome = "" /\ calls = 0 /\ log = <<>>

\* ---- building the shape (what an API author may write) ----
AddBinding(v, p, b) ==
  /\ phase = "shaping" /\ Len(bindings) < 1 + MaxExtra
  /\ IF Len(bindings) = 0 THEN v \in Verbs
     ELSE IF Rotate THEN v = VerbNext[bindings[Len(bindings)].verb] ELSE v \in Verbs
  /\ bindings' = Append(bindings, [verb |-> v, pid |-> p, body |-> b])
  /\ UNCHANGED <<required, numeric, rtype, di, phase, calls, log>> /\ UNCHANGED callVars
Seal(R, n, t) ==
  /\ phase = "shaping"
  /\ required' = R /\ numeric' = n /\ rtype' = t /\ phase' = "idle"
  /\ UNCHANGED <<bindings, di, calls, log>> /\ UNCHANGED callVars

\* ---- the caller ----
BuildLeaf == /\ phase = "idle" /\ di <= Len(LeafOrder)
             /\ \E v \in SetVals(LeafOrder[di]) \cup {<<>>} : req' = [req EXCEPT ![LeafOrder[di]] = v]
             /\ di' = di + 1
             /\ UNCHANGED <<phase, sel, path, hasBody, bodyL, queryL, dflt, msg, http, reply, result, outcome, calls, log>>
             /\ UNCHANGED shapeVars
Invoke(v) == /\ phase = "idle"
             /\ req' = v /\ phase' = "called"
             /\ UNCHANGED <<di, sel, path, hasBody, bodyL, queryL, dflt, msg, http, reply, result, outcome, calls, log>>
             /\ UNCHANGED shapeVars

\* ---- the transport ----
RefuseNoBinding ==
  /\ phase = "called" /\ Len(bindings) = 0
  /\ outcome' = "NotImplementedError" /\ phase' = "refused"
  /\ http' = IF Mutant = "send_when_refused" THEN <<NoMsg>> ELSE http
  /\ UNCHANGED <<di, req, sel, path, hasBody, bodyL, queryL, dflt, msg, reply, result, calls, log>> /\ UNCHANGED shapeVars
EligibleSet == {i \in 1..Len(bindings) : Eligible(i)}
Pick(S) == IF Mutant = "last_eligible" THEN CHOOSE i \in S : \A j \in S : j <= i
           ELSE CHOOSE i \in S : \A j \in S : i <= j
SelectBinding ==
  /\ phase = "called" /\ Len(bindings) > 0 /\ EligibleSet # {}
  /\ sel' = Pick(EligibleSet) /\ phase' = "selected"
  /\ UNCHANGED <<di, req, path, hasBody, bodyL, queryL, dflt, msg, http, reply, result, outcome, calls, log>> /\ UNCHANGED shapeVars
RejectNoMatch ==
  /\ phase = "called" /\ Len(bindings) > 0 /\ EligibleSet = {}
  /\ outcome' = "error" /\ phase' = "rejected"
  /\ http' = IF Mutant = "send_on_no_match" THEN <<NoMsg>> ELSE http
  /\ UNCHANGED <<di, req, sel, path, hasBody, bodyL, queryL, dflt, msg, reply, result, calls, log>> /\ UNCHANGED shapeVars
ExpandPath ==
  /\ phase = "selected"
  /\ path' = ExpandFrom(BToks(IF Mutant = "path_from_primary" THEN 1 ELSE sel), req, 1) /\ phase' = "expanded"
  /\ UNCHANGED <<di, req, sel, hasBody, bodyL, queryL, dflt, msg, http, reply, result, outcome, calls, log>> /\ UNCHANGED shapeVars
SetLeaves == {l \in Leaves : req[l] # <<>>}
BodySpecFor(i) == IF Mutant = "body_from_primary" THEN bindings[1].body ELSE bindings[i].body
SplitBody ==
  /\ phase = "expanded"
  /\ hasBody' = (BodySpecFor(sel) # "")
  /\ bodyL' = IF BodySpecFor(sel) = "" THEN EmptyMap
              ELSE Restrict(req, {l \in SetLeaves : Loc(sel, l) = "body"})
  /\ phase' = "split"
  /\ UNCHANGED <<di, req, sel, path, queryL, dflt, msg, http, reply, result, outcome, calls, log>> /\ UNCHANGED shapeVars
RemainderToQuery ==
  /\ phase = "split"
  /\ queryL' = Restrict(req, {l \in SetLeaves :
                    \/ Loc(sel, l) = "query"
                    \/ Mutant = "path_var_kept_in_query" /\ Loc(sel, l) = "path"
                    \/ Mutant = "body_field_also_in_query" /\ Loc(sel, l) = "body" /\ bindings[sel].body # "*"})
  /\ phase' = "placed"
  /\ UNCHANGED <<di, req, sel, path, hasBody, bodyL, dflt, msg, http, reply, result, outcome, calls, log>> /\ UNCHANGED shapeVars
DefaultLocBinding == IF Mutant = "defaults_from_primary" THEN 1 ELSE sel
AddRequiredDefaults ==
  /\ phase = "placed"
  /\ dflt' = IF Mutant = "no_defaults" THEN {}
             ELSE {r \in required : Loc(DefaultLocBinding, r) = "query" /\ r \notin DOMAIN queryL}
  /\ phase' = "defaulted"
  /\ UNCHANGED <<di, req, sel, path, hasBody, bodyL, queryL, msg, http, reply, result, outcome, calls, log>> /\ UNCHANGED shapeVars
QKey(l) == IF Mutant = "snake_defaults" /\ l \in dflt THEN l ELSE LeafTab[l].json
EncQ(l) == IF l \in dflt THEN <<Default(l)>>
           ELSE IF Mutant = "alt_without_int" THEN Wire0(l, queryL[l]) ELSE Enc(l, Wire0(l, queryL[l]))
EncodeEnums ==
  /\ phase = "defaulted"
  /\ LET qleaves == DOMAIN queryL \cup dflt
         qkeys == {QKey(l) : l \in qleaves}
         q == [k \in qkeys |-> EncQ(CHOOSE l \in qleaves : QKey(l) = k)]
         bkeys == {BodyKey(sel, l) : l \in DOMAIN bodyL}
         b == [k \in bkeys |-> LET l == CHOOSE x \in DOMAIN bodyL : BodyKey(sel, x) = k
                               IN IF Mutant = "alt_without_int" THEN Wire0(l, bodyL[l]) ELSE Enc(l, Wire0(l, bodyL[l]))]
     IN msg' = [verb |-> bindings[IF Mutant = "verb_from_primary" THEN 1 ELSE sel].verb, path |-> path,
                query |-> IF numeric THEN q @@ (AltParam :> AltValue) ELSE q,
                hasBody |-> hasBody, body |-> b]
  /\ phase' = "encoded"
  /\ UNCHANGED <<di, req, sel, path, hasBody, bodyL, queryL, dflt, http, reply, result, outcome, calls, log>> /\ UNCHANGED shapeVars
SendHttp ==
  /\ phase = "encoded"
  /\ http' = (IF Mutant = "send_twice" THEN <<msg, msg>> ELSE Append(http, msg)) /\ phase' = "sent"
  /\ UNCHANGED <<di, req, sel, path, hasBody, bodyL, queryL, dflt, msg, reply, result, outcome, calls, log>> /\ UNCHANGED shapeVars
ServerReply(rv) ==
  /\ phase = "sent"
  /\ reply' = rv /\ phase' = "replied"
  /\ UNCHANGED <<di, req, sel, path, hasBody, bodyL, queryL, dflt, msg, http, result, outcome, calls, log>> /\ UNCHANGED shapeVars
ParseReply ==
  /\ phase = "replied"
  /\ result' = [name |-> reply.name, big_n |-> reply.big_n,
                kind |-> IF Mutant = "reply_enum_dropped" THEN <<>> ELSE reply.kind]
  /\ outcome' = "ok" /\ phase' = "parsed"
  /\ UNCHANGED <<di, req, sel, path, hasBody, bodyL, queryL, dflt, msg, http, reply, calls, log>> /\ UNCHANGED shapeVars
Compact(f) == Restrict(f, {k \in DOMAIN f : f[k] # <<>>})
Finish ==
  /\ log' = Append(log, [req |-> Compact(req), outcome |-> outcome, sel |-> sel, sent |-> Len(http),
                         http |-> IF Len(http) > 0 THEN http[1] ELSE NoMsg,
                         reply |-> reply, result |-> result])
  /\ calls' = calls + 1
  /\ phase' = IF calls + 1 < Calls THEN "idle" ELSE "done"
  /\ di' = 1 /\ req' = Unset /\ sel' = 0 /\ path' = <<>> /\ hasBody' = FALSE /\ bodyL' = EmptyMap
  /\ queryL' = EmptyMap /\ dflt' = {} /\ msg' = NoMsg /\ http' = <<>> /\ reply' = NoReply /\ result' = NoResult
  /\ outcome' = ""
  /\ UNCHANGED shapeVars
Return == phase = "parsed" /\ Finish
Raise == phase \in {"refused", "rejected"} /\ Finish

Transport == RefuseNoBinding \/ SelectBinding \/ RejectNoMatch \/ ExpandPath \/ SplitBody \/ RemainderToQuery
             \/ AddRequiredDefaults \/ EncodeEnums
Next == \/ \E v \in DOMAIN VerbNext, p \in PathIds, b \in Bodies : AddBinding(v, p, b)
        \/ \E R \in ReqSetIds, n \in Numerics, t \in RespTypes : Seal(ReqSetTab[R], n, t)
        \/ BuildLeaf
        \/ (di > Len(LeafOrder) /\ Invoke(req))
        \/ Transport \/ SendHttp
        \/ (\E r \in ReplyIds : ServerReply(ReplyTab[r]))
        \/ ParseReply \/ Return \/ Raise
Spec == Init /\ [][Next]_vars

-----------------------------------------------------------------------------
(* The property, clause by clause (C04).  h = what went over the wire.     *)
Sent == Len(http) > 0 /\ phase = "sent"     \* what was sent never changes afterwards: judged once, when it is sent
WasSent == Len(http) > 0
h == http[1]
B == bindings[sel]
T == BToks(sel)

\* "the verb and URL path instantiate one of the method's declared bindings with each path variable replaced by
\*  the corresponding request field" - position of every token inside the observed path, written independently
\* of ExpandFrom: a token covers 1 segment (literal), Len(pattern) segments, or - "**" - whatever is left
FixedW(t) == IF t.var = "" THEN 1 ELSE IF IsMulti(EffPat(t)) THEN Len(EffPat(t)) - 1 ELSE Len(EffPat(t))
RECURSIVE SumFixed(_, _)
SumFixed(toks, i) == IF i > Len(toks) THEN 0 ELSE FixedW(toks[i]) + SumFixed(toks, i + 1)
Width(toks, i, n) == IF toks[i].var # "" /\ IsMulti(EffPat(toks[i])) THEN FixedW(toks[i]) + (n - SumFixed(toks, 1))
                     ELSE FixedW(toks[i])
RECURSIVE Offset(_, _, _)
Offset(toks, i, n) == IF i = 1 THEN 1 ELSE Offset(toks, i - 1, n) + Width(toks, i - 1, n)
Captured(toks, p, i) == SubSeq(p, Offset(toks, i, Len(p)), Offset(toks, i, Len(p)) + Width(toks, i, Len(p)) - 1)
Inv_Instantiates ==
  Sent => /\ sel \in 1..Len(bindings)
          /\ h.verb = B.verb
          /\ Len(h.path) >= SumFixed(T, 1)
          /\ Offset(T, Len(T), Len(h.path)) + Width(T, Len(T), Len(h.path)) - 1 = Len(h.path)
          /\ \A i \in 1..Len(T) :
               IF T[i].var = "" THEN Captured(T, h.path, i) = <<T[i].lit \o T[i].suf>>
               ELSE /\ req[T[i].var] # <<>>
                    /\ MatchPat(EffPat(T[i]), req[T[i].var])
                    /\ Captured(T, h.path, i) = WithSuf(req[T[i].var], T[i].suf)
\* first eligible binding wins, primary first
Inv_FirstWins == sel > 0 => Eligible(sel) /\ \A j \in 1..(sel - 1) : ~Eligible(j)
Inv_Rejected == outcome = "error" => Len(bindings) > 0 /\ ~WasSent /\ \A i \in 1..Len(bindings) : ~Eligible(i)
\* "methods without a binding refuse the REST transport with NotImplementedError"
Inv_Refused == /\ (outcome = "NotImplementedError" => Len(bindings) = 0 /\ ~WasSent)
               /\ (Len(bindings) = 0 => ~WasSent /\ outcome \in {"", "NotImplementedError"})
Inv_OneRequest == Len(http) <= 1 /\ (outcome = "ok" => WasSent)

\* where a leaf travels
InPath(l) == l \in PathVars(T)
InQuery(l) == LeafTab[l].json \in DOMAIN h.query
InBody(l) == /\ h.hasBody
             /\ \/ B.body = "*" /\ LeafTab[l].json \in DOMAIN h.body
                \/ B.body \notin {"", "*"} /\ LeafTab[l].top = B.body /\ LeafTab[l].jrel \in DOMAIN h.body
Where(l) == (IF InPath(l) THEN {"path"} ELSE {}) \cup (IF InQuery(l) THEN {"query"} ELSE {})
            \cup (IF InBody(l) THEN {"body"} ELSE {})
\* value of a leaf reassembled from query / body (path variables are covered by Inv_Instantiates)
Norm(l, w) == IF Kind(l) \in ScalarKinds /\ w = <<Default(l)>> THEN <<>> ELSE w     \* proto3: default = unset
FromQuery(l) == Norm(l, Dec(l, h.query[LeafTab[l].json]))
FromBody(l) == Norm(l, Dec(l, h.body[IF B.body = "*" THEN LeafTab[l].json ELSE LeafTab[l].jrel]))
\* "path, query and body together reconstruct the request without loss ..."
Inv_NoLoss ==
  Sent => \A l \in Leaves :
            /\ (req[l] # <<>> => Where(l) # {})
            /\ (InQuery(l) => \/ FromQuery(l) = Wire0(l, req[l])
                              \* a REQUIRED field with explicit presence that the caller left unset travels as its default value
                              \/ l \in required /\ Kind(l) = "opt" /\ req[l] = <<>> /\ FromQuery(l) = <<Default(l)>>)
            /\ (InBody(l) => FromBody(l) = Wire0(l, req[l]))
\* "... or duplication"
Inv_NoDup == Sent => \A l \in Leaves : Cardinality(Where(l)) <= 1
\* "the JSON body carries exactly the field named by body (or the whole remainder for *)"
Inv_BodyStar == Sent /\ B.body = "*" =>
                  /\ h.hasBody /\ DOMAIN h.query \subseteq SystemParams
                  /\ DOMAIN h.body = {LeafTab[l].json : l \in {x \in SetLeaves : ~InPath(x)}}
Inv_BodyField == Sent /\ B.body \notin {"", "*"} =>
                  /\ h.hasBody
                  /\ DOMAIN h.body = {LeafTab[l].jrel : l \in {x \in SetLeaves : LeafTab[x].top = B.body /\ ~InPath(x)}}
Inv_BodyAbsent == Sent /\ B.body = "" => ~h.hasBody /\ DOMAIN h.body = {}
\* "all other set fields, plus every required scalar field not bound to path or body even when default-valued,
\*  travel as query parameters"
Inv_QueryExact ==
  Sent => DOMAIN h.query \ SystemParams =
            {LeafTab[l].json : l \in {x \in Leaves : Loc(sel, x) = "query" /\ (x \in SetLeaves \/ x \in required)}}
Inv_RequiredTravel == Sent => \A r \in required : Loc(sel, r) = "query" => InQuery(r)
\* "JSON uses the proto field names" (lowerCamel JSON names of the descriptor)
Inv_Names == Sent => /\ DOMAIN h.query \subseteq {LeafTab[l].json : l \in Leaves} \cup SystemParams
                     /\ DOMAIN h.body \subseteq {LeafTab[l].json : l \in Leaves} \cup {LeafTab[l].jrel : l \in Leaves}
\* "enums travel as names (or as numbers together with $alt=json;enum-encoding=int when numeric enums are requested)"
EnumVals(l) == (IF InQuery(l) THEN {h.query[LeafTab[l].json]} ELSE {})
               \cup (IF InBody(l) THEN {h.body[IF B.body = "*" THEN LeafTab[l].json ELSE LeafTab[l].jrel]} ELSE {})
Inv_Alt == Sent => /\ (AltParam \in DOMAIN h.query) = numeric
                   /\ (numeric => h.query[AltParam] = AltValue)
                   /\ \A l \in {x \in Leaves : Kind(x) = "enum"} : \A w \in EnumVals(l) : \A i \in 1..Len(w) :
                         IF numeric THEN w[i] \in EnumNums ELSE w[i] \in EnumNames
\* "the JSON reply is decoded into the declared response type"
Inv_Reply == phase = "parsed" => /\ result.name = reply.name /\ result.kind = reply.kind /\ result.big_n = reply.big_n
                                 /\ outcome = "ok"

\* spec -> code: one case per finished session: the shape and, per call, the request and the predicted observables
ShapeRec == [bindings |-> [i \in 1..Len(bindings) |->
                             [verb |-> bindings[i].verb, pid |-> bindings[i].pid, body |-> bindings[i].body,
                              uri |-> Uri(BToks(i))]],
             required |-> required, numeric |-> numeric, rtype |-> rtype]
Emit == phase = "done" => PrintT(<<"CASE", ToJson([shape |-> ShapeRec, calls |-> log])>>)
\* the vocabulary, printed once per run for the harness (request message layout, value pools)
ASSUME PrintT(<<"LEAVES", ToJson([order |-> LeafSeq, tab |-> LeafTab,
                                   vals |-> [l \in Leaves |-> SetVals(l)],
                                   enum |-> EnumNum, replies |-> ReplyTab])>>)
=============================================================================
