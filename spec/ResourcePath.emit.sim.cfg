CONSTANTS MinVars = 1 MaxVars = 6 MaxLen = 3
  Seps = {"/", "-", "_", "~", "."} Letters = {"a", "b"} ValueSeps = {"/", "-", "_", "~", "."}
  Tails = {"plain", "multi", "single"} Leads = {TRUE, FALSE} WithCommon = FALSE WithWild = FALSE
  Perturbs = {"del", "app", "pre", "sub", "ins"} ValueMode = "all" Part = "paths" VRes = {} NaiveMax = 0 Mutant = "none"
SPECIFICATION Spec
INVARIANT Emit
