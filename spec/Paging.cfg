CONSTANT Mutant = "none"
SPECIFICATION Spec
INVARIANT Inv_ExactlyWhen
INVARIANT Inv_FirstRepeated
PROPERTY Live
