------------------------------ MODULE RestCall ------------------------------
(***************************************************************************)
(* Extension (DESIGN 5.4 / 5.6), not a listed property: the life of one    *)
(* call through the emitted REST transport, with its interceptor:          *)
(*   Pre -> Send -> ( Error | Parse -> Post -> PostWithMetadata ) -> End   *)
(* State: which interceptor hooks ran (in order), how many HTTP requests   *)
(* went out, what the caller observed.                                     *)
(***************************************************************************)
EXTENDS Naturals, Sequences, FiniteSets, TLC, Json

CONSTANT Mutant
Kinds == {"unary", "void", "server_streaming"}
\* 401 is left out: google-auth's AuthorizedSession answers it by refreshing the credentials, which the anonymous credentials
\* of the loopback harness cannot do (an artefact of the harness, not of the emitted transport)
Statuses == {200, 400, 403, 404, 409, 429, 500, 503}
\* api-core's mapping of HTTP status to exception class (google.api_core.exceptions)
ErrorClass(s) == CASE s = 400 -> "BadRequest" [] s = 401 -> "Unauthorized" [] s = 403 -> "Forbidden" [] s = 404 -> "NotFound"
                   [] s = 409 -> "Conflict" [] s = 429 -> "TooManyRequests" [] s = 500 -> "InternalServerError"
                   [] s = 503 -> "ServiceUnavailable" [] OTHER -> "none"

VARIABLES kind, status, preAddsMd, hooks, sentCount, sentMd, outcome, phase
vars == <<kind, status, preAddsMd, hooks, sentCount, sentMd, outcome, phase>>

Init == /\ kind \in Kinds /\ status \in Statuses /\ preAddsMd \in BOOLEAN
        /\ hooks = <<>> /\ sentCount = 0 /\ sentMd = FALSE /\ outcome = "pending" /\ phase = "start"
Pre == /\ phase = "start" /\ hooks' = Append(hooks, "pre") /\ phase' = "pre"
       /\ UNCHANGED <<kind, status, preAddsMd, sentCount, sentMd, outcome>>
\* the request goes out with the metadata the pre-hook returned
Send == /\ phase = "pre" /\ sentCount' = sentCount + 1 /\ sentMd' = (preAddsMd /\ Mutant # "ignore_pre_result") /\ phase' = "sent"
        /\ UNCHANGED <<kind, status, preAddsMd, hooks, outcome>>
Error == /\ phase = "sent" /\ status >= 400 /\ Mutant # "swallow_error"
         /\ outcome' = ErrorClass(status) /\ phase' = "done"
         /\ UNCHANGED <<kind, status, preAddsMd, hooks, sentCount, sentMd>>
Parse == /\ phase = "sent" /\ (status < 400 \/ Mutant = "swallow_error") /\ phase' = "parsed"
         /\ UNCHANGED <<kind, status, preAddsMd, hooks, sentCount, sentMd, outcome>>
\* void methods have no response to post-process
Post == /\ phase = "parsed"
        /\ hooks' = IF kind = "void" THEN hooks
                    ELSE IF Mutant = "post_order" THEN hooks \o <<"post_with_metadata", "post">> ELSE hooks \o <<"post", "post_with_metadata">>
        /\ outcome' = "ok" /\ phase' = "done"
        /\ UNCHANGED <<kind, status, preAddsMd, sentCount, sentMd>>
Next == Pre \/ Send \/ Error \/ Parse \/ Post
Spec == Init /\ [][Next]_vars /\ WF_vars(Next)

Done == phase = "done"
Inv_OneRequest == sentCount <= 1 /\ (Done => sentCount = 1)
Inv_PreFirst == Len(hooks) > 0 => hooks[1] = "pre"
Inv_HookOrder == Done /\ outcome = "ok" /\ kind # "void" => hooks = <<"pre", "post", "post_with_metadata">>
Inv_NoPostOnError == Done /\ outcome # "ok" => hooks = <<"pre">>
Inv_ErrorMapped == Done => (outcome = "ok" <=> status < 400) /\ (status >= 400 => outcome = ErrorClass(status))
Inv_PreHonoured == Done => sentMd = preAddsMd
Live == <>Done
Case == [kind |-> kind, status |-> status, preAddsMd |-> preAddsMd, expect |-> [hooks |-> hooks, sent |-> sentCount, sentMd |-> sentMd, outcome |-> outcome]]
Emit == Done => PrintT(<<"CASE", ToJson(Case)>>)
=============================================================================
