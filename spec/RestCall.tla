------------------------------ MODULE RestCall ------------------------------
(***************************************************************************)
(* Extension (DESIGN 5.4 / 5.6), not a listed property: the life of one    *)
(* call through the emitted REST transport, with its interceptor:          *)
(*   Pre -> Send -> ( Error | Parse -> Post -> PostWithMetadata ) -> End   *)
(* State: which interceptor hooks ran (in order), how many HTTP requests   *)
(* went out, what the caller observed; and the DATA FLOW through the hooks:  *)
(* the request the pre-hook returns is the one sent; the response the        *)
(* post-hook returns is the one post_with_metadata receives (together with   *)
(* the reply's HTTP headers); what post_with_metadata returns is what the    *)
(* caller gets.  Values are abstract tokens naming who wrote them last.      *)
(***************************************************************************)
EXTENDS Naturals, Sequences, FiniteSets, TLC, Json

CONSTANT Mutant
Kinds == {"unary", "void", "server_streaming"}
\* 401 is left out: google-auth's AuthorizedSession answers it by refreshing the credentials, which the anonymous credentials
\* of the loopback harness cannot do (an artefact of the harness, not of the emitted transport)
Statuses == {200, 400, 403, 404, 409, 429, 500, 503}
\* api-core's mapping of HTTP status to exception class (google.api_core.exceptions)
ErrorClass(s) == CASE s = 400 -> "BadRequest" [] s = 401 -> "Unauthorized" [] s = 403 -> "Forbidden" [] s = 404 -> "NotFound"
                   [] s = 409 -> "Conflict" [] s = 429 -> "TooManyRequests" [] s = 500 -> "InternalServerError"
                   [] s = 503 -> "ServiceUnavailable" [] OTHER -> "none"

VARIABLES kind, status, preAddsMd, hooks, sentCount, sentMd, outcome, phase,
          preEdits, postEdits, postmEdits,   \* scenario: which hooks rewrite what passes through them
          sentReq, postmSaw, postmHdr, got   \* observed data flow
scen == <<kind, status, preAddsMd, preEdits, postEdits, postmEdits>>
vars == <<kind, status, preAddsMd, hooks, sentCount, sentMd, outcome, phase, preEdits, postEdits, postmEdits, sentReq, postmSaw, postmHdr, got>>

\* response rewriting is exercised on unary replies (a stream's reply is an iterator; a void method has no reply)
Init == /\ kind \in Kinds /\ status \in Statuses /\ preAddsMd \in BOOLEAN /\ preEdits \in BOOLEAN
        /\ postEdits \in (IF kind = "unary" THEN BOOLEAN ELSE {FALSE}) /\ postmEdits \in (IF kind = "unary" THEN BOOLEAN ELSE {FALSE})
        /\ hooks = <<>> /\ sentCount = 0 /\ sentMd = FALSE /\ outcome = "pending" /\ phase = "start"
        /\ sentReq = "none" /\ postmSaw = "none" /\ postmHdr = FALSE /\ got = "none"
Pre == /\ phase = "start" /\ hooks' = Append(hooks, "pre") /\ phase' = "pre"
       /\ UNCHANGED <<scen, sentCount, sentMd, outcome, sentReq, postmSaw, postmHdr, got>>
\* the request goes out with the metadata the pre-hook returned
Send == /\ phase = "pre" /\ sentCount' = sentCount + 1 /\ sentMd' = (preAddsMd /\ Mutant # "ignore_pre_result") /\ phase' = "sent"
        /\ sentReq' = IF preEdits /\ Mutant \notin {"ignore_pre_result", "ignore_pre_request"} THEN "pre" ELSE "caller"
        /\ UNCHANGED <<scen, hooks, outcome, postmSaw, postmHdr, got>>
Error == /\ phase = "sent" /\ status >= 400 /\ Mutant # "swallow_error"
         /\ outcome' = ErrorClass(status) /\ phase' = "done"
         /\ UNCHANGED <<scen, hooks, sentCount, sentMd, sentReq, postmSaw, postmHdr, got>>
Parse == /\ phase = "sent" /\ (status < 400 \/ Mutant = "swallow_error") /\ phase' = "parsed"
         /\ UNCHANGED <<scen, hooks, sentCount, sentMd, outcome, sentReq, postmSaw, postmHdr, got>>
\* void methods have no response to post-process
Post == /\ phase = "parsed"
        /\ hooks' = IF kind = "void" THEN hooks
                    ELSE IF Mutant = "post_order" THEN hooks \o <<"post_with_metadata", "post">> ELSE hooks \o <<"post", "post_with_metadata">>
        /\ outcome' = "ok" /\ phase' = "done"
        /\ LET afterPost == IF postEdits /\ Mutant # "drop_post_result" THEN "post" ELSE "server"
               afterPostm == IF postmEdits /\ Mutant # "drop_postm_result" THEN "postm" ELSE afterPost
           IN IF kind = "void" THEN UNCHANGED <<postmSaw, postmHdr, got>>
              ELSE /\ postmSaw' = afterPost /\ postmHdr' = (Mutant # "no_headers") /\ got' = afterPostm
        /\ UNCHANGED <<scen, sentCount, sentMd, sentReq>>
Next == Pre \/ Send \/ Error \/ Parse \/ Post
Spec == Init /\ [][Next]_vars /\ WF_vars(Next)

Done == phase = "done"
Inv_OneRequest == sentCount <= 1 /\ (Done => sentCount = 1)
Inv_PreFirst == Len(hooks) > 0 => hooks[1] = "pre"
Inv_HookOrder == Done /\ outcome = "ok" /\ kind # "void" => hooks = <<"pre", "post", "post_with_metadata">>
Inv_NoPostOnError == Done /\ outcome # "ok" => hooks = <<"pre">>
Inv_ErrorMapped == Done => (outcome = "ok" <=> status < 400) /\ (status >= 400 => outcome = ErrorClass(status))
Inv_PreHonoured == Done => sentMd = preAddsMd
\* data flow: each hook's return value is what the next stage works on
Inv_PreRequestHonoured == Done => sentReq = (IF preEdits THEN "pre" ELSE "caller")
Inv_PostChain == Done /\ outcome = "ok" /\ kind # "void" =>
                    /\ postmSaw = (IF postEdits THEN "post" ELSE "server")
                    /\ got = (IF postmEdits THEN "postm" ELSE postmSaw)
                    /\ postmHdr
Inv_NoDataOnError == Done /\ outcome # "ok" => postmSaw = "none" /\ got = "none"
Live == <>Done
Case == [kind |-> kind, status |-> status, preAddsMd |-> preAddsMd, preEdits |-> preEdits, postEdits |-> postEdits, postmEdits |-> postmEdits,
         expect |-> [hooks |-> hooks, sent |-> sentCount, sentMd |-> sentMd, outcome |-> outcome,
                     sentReq |-> sentReq, postmSaw |-> postmSaw, postmHdr |-> postmHdr, got |-> got]]
Emit == Done => PrintT(<<"CASE", ToJson(Case)>>)
=============================================================================
