CONSTANT Scope = "shapes"
SPECIFICATION Spec
INVARIANT Emit
