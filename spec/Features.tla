------------------------------ MODULE Features ------------------------------
(***************************************************************************)
(* The input space of API descriptions as a builder over FEATURES of a     *)
(* fixed carrier API (a small library service; harness/features.py maps a   *)
(* feature set to descriptors).  A state is the set of features added so    *)
(* far; AddFeature keeps the well-formedness predicate WF ("protoc would    *)
(* accept it and the options are supported") invariant.  Exhaustive runs    *)
(* cover every WF set of <= MaxFeatures features (all pairs); -simulate     *)
(* walks produce larger random sets.                                        *)
(*                                                                          *)
(* Observables predicted from the feature set: transports, client classes,  *)
(* transport registry and default, the RPC inventory with its paginated /   *)
(* long-running / streaming members, and whether the set is inside the      *)
(* "conventional" profile of DESIGN section 8 (C13).                        *)
(***************************************************************************)
EXTENDS Naturals, Sequences, FiniteSets, TLC, Json, SequencesExt

CONSTANTS MaxFeatures, MinFeatures,
          Avoid   \* features never added in this configuration (open findings are covered by the pairs scope only)

FieldFeatures == {"f_scalars", "f_enum", "f_nested", "f_map", "f_oneof", "f_optional", "f_recursive", "f_mutual", "f_forward",
                  "f_wkt", "f_reserved", "f_deppkg", "f_crossfile", "f_subpackage", "f_upper_file"}
MethodFeatures == {"m_sstream", "m_cstream", "m_bidi", "m_lro", "m_lro_empty", "m_paged_map", "m_paged_legacy", "m_deprecated",
                   "m_kw", "m_unsafe", "m_dep_request", "m_raw_operation"}
HttpFeatures == {"h_none", "h_additional", "h_nested_var", "h_body_star", "h_verbs"}
ResourceFeatures == {"r_resource", "r_multi_pattern", "r_wildcard", "r_file_level", "r_child_ref"}
SurfaceFeatures == {"s_two_services", "s_flatten", "s_required", "s_uuid4", "s_routing", "s_api_version"}
OptionFeatures == {"o_rest", "o_grpc_rest", "o_numeric", "o_metadata", "o_nosnippets", "o_iam", "o_ads", "o_mixins", "o_rest_async"}
AllFeatures == FieldFeatures \cup MethodFeatures \cup HttpFeatures \cup ResourceFeatures \cup SurfaceFeatures \cup OptionFeatures

VARIABLES F, stage
vars == <<F, stage>>

Requires(f) == CASE f = "r_child_ref"   -> {"r_resource"}
                 [] f = "m_dep_request" -> {"f_deppkg"}
                 [] OTHER -> {}
Excludes(f) == CASE f = "h_none"      -> {"h_additional", "h_nested_var", "h_body_star", "h_verbs", "o_rest", "o_grpc_rest", "o_rest_async"}
                 [] f = "o_rest"      -> {"o_grpc_rest", "h_none"}
                 [] f = "o_grpc_rest" -> {"o_rest", "h_none"}
                 [] f = "o_ads"       -> {"o_rest_async"}
                 [] f \in {"h_additional", "h_nested_var", "h_body_star", "h_verbs"} -> {"h_none"}
                 [] OTHER -> {}
WF(S) == /\ \A f \in S : Requires(f) \subseteq S /\ \A g \in S : g \notin Excludes(f) /\ f \notin Excludes(g)
         /\ ("o_rest_async" \in S => ("o_rest" \in S \/ "o_grpc_rest" \in S))     \* async REST needs the REST transport

Init == F = {} /\ stage = "build"
AddFeature(f) == /\ stage = "build" /\ f \notin F /\ f \notin Avoid /\ Cardinality(F) < MaxFeatures
                 /\ WF(F \cup {f} \cup Requires(f))
                 /\ F' = F \cup {f} \cup Requires(f)
                 /\ UNCHANGED stage
Finish == stage = "build" /\ Cardinality(F) >= MinFeatures /\ stage' = "done" /\ UNCHANGED F
Next == (\E f \in AllFeatures : AddFeature(f)) \/ Finish
Spec == Init /\ [][Next]_vars

-----------------------------------------------------------------------------
Has(f) == f \in F
Transports == IF Has("o_rest") THEN <<"rest">> ELSE IF Has("o_grpc_rest") THEN <<"grpc", "rest">> ELSE <<"grpc">>
HasT(t) == \E i \in 1..Len(Transports) : Transports[i] = t
Services == {"Library"} \cup (IF Has("s_two_services") THEN {"BookAdmin"} ELSE {})
\* the Ads template set has no asyncio client template (named deviation, DESIGN C01)
\* the asyncio client exists with gRPC, and (experimental) with async REST
HasAsync == (HasT("grpc") \/ Has("o_rest_async")) /\ ~Has("o_ads")
Clients == {s \o "Client" : s \in Services} \cup (IF HasAsync THEN {s \o "AsyncClient" : s \in Services} ELSE {})
Registry == (IF HasT("grpc") THEN (IF Has("o_ads") THEN <<"grpc">> ELSE <<"grpc", "grpc_asyncio">>) ELSE <<>>)
            \o (IF HasT("rest") THEN <<"rest">> ELSE <<>>)
            \o (IF HasT("rest") /\ Has("o_rest_async") THEN <<"rest_asyncio">> ELSE <<>>)
DefaultTransport == Head(Registry)

LibraryRpcs == {"GetBook", "CreateBook", "UpdateBook", "DeleteBook", "ListBooks"}
   \cup (IF Has("h_verbs") THEN {"MoveBook"} ELSE {})
   \cup (IF Has("m_sstream") THEN {"WatchBooks"} ELSE {}) \cup (IF Has("m_cstream") THEN {"UploadBooks"} ELSE {})
   \cup (IF Has("m_bidi") THEN {"ChatBooks"} ELSE {}) \cup (IF Has("m_lro") THEN {"ExportBooks"} ELSE {})
   \cup (IF Has("m_lro_empty") THEN {"PurgeBooks"} ELSE {}) \cup (IF Has("m_paged_map") THEN {"ListById"} ELSE {})
   \cup (IF Has("m_paged_legacy") THEN {"ListOld"} ELSE {}) \cup (IF Has("m_kw") THEN {"Import"} ELSE {})
   \cup (IF Has("m_unsafe") THEN {"CreateChannel"} ELSE {}) \cup (IF Has("h_nested_var") THEN {"RenameBook"} ELSE {})
   \cup (IF Has("m_dep_request") THEN {"CheckDep"} ELSE {}) \cup (IF Has("f_deppkg") THEN {"FetchDep"} ELSE {}) \cup (IF Has("m_raw_operation") THEN {"StartRaw"} ELSE {})
   \cup (IF Has("f_map") /\ Has("s_flatten") THEN {"LabelBook"} ELSE {})
   \* a second target file: one RPC takes a (flattened) parameter named like that file's module, another returns one of its types
   \cup (IF Has("f_crossfile") THEN {"StampBook", "GetAuthor"} ELSE {})
   \* ... and an LRO whose response type lives in that module, with a primitive flattened argument named like the module
   \cup (IF Has("f_crossfile") /\ Has("m_lro") THEN {"ArchiveBook"} ELSE {})
Paged == {"ListBooks"} \cup (IF Has("m_paged_map") THEN {"ListById"} ELSE {}) \cup (IF Has("m_paged_legacy") THEN {"ListOld"} ELSE {})
Lro == (IF Has("m_lro") THEN {"ExportBooks"} ELSE {}) \cup (IF Has("m_lro_empty") THEN {"PurgeBooks"} ELSE {})
       \cup (IF Has("f_crossfile") /\ Has("m_lro") THEN {"ArchiveBook"} ELSE {})
ClientStreaming == (IF Has("m_cstream") THEN {"UploadBooks"} ELSE {}) \cup (IF Has("m_bidi") THEN {"ChatBooks"} ELSE {})
Void == {"DeleteBook"}
Mixins == IF Has("o_mixins")
          THEN {"get_operation", "list_operations", "cancel_operation", "delete_operation", "get_location", "list_locations",
                "get_iam_policy", "set_iam_policy", "test_iam_permissions"}
          ELSE IF Has("o_iam") THEN {"get_iam_policy", "set_iam_policy", "test_iam_permissions"} ELSE {}

\* DESIGN section 8: shapes outside the conventions the emitted tests are written for (X1..X4) or open findings
\* + the shapes of DESIGN section 9 that are still open findings (F4 sub-packages, F15 upper-case file names, F13 pb2 paged request)
OutsideConventional == {"m_dep_request", "f_subpackage", "f_upper_file"}
Conventional == F \cap OutsideConventional = {} /\ ~(Has("s_uuid4") /\ Has("s_required") /\ HasT("rest"))   \* X4

-----------------------------------------------------------------------------
Inv_WF == WF(F)
Inv_Default == DefaultTransport = IF HasT("grpc") THEN "grpc" ELSE "rest"
Inv_RegistryRequested == \A i \in 1..Len(Registry) :
                           /\ (Registry[i] \in {"grpc", "grpc_asyncio"} => HasT("grpc"))
                           /\ (Registry[i] \in {"rest", "rest_asyncio"} => HasT("rest"))
Inv_OneSyncClientPerService == \A s \in Services : (s \o "Client") \in Clients
Inv_AsyncIffGrpc == (~Has("o_ads") /\ ~Has("o_rest_async")) => ((\E s \in Services : (s \o "AsyncClient") \in Clients) <=> HasT("grpc"))
Inv_PagedLroDisjoint == Paged \cap Lro = {} /\ Paged \subseteq LibraryRpcs /\ Lro \subseteq LibraryRpcs

(* C13: the inventory the emitted unit-test suite must contain.  A test is classified by the harness   *)
(* (pure name projection) as [rpc |-> snake name, kind |-> grpc | grpc-async | rest, pager |-> BOOLEAN].  *)
SnakeOf == [ GetBook |-> "get_book", CreateBook |-> "create_book", UpdateBook |-> "update_book", DeleteBook |-> "delete_book",
             ListBooks |-> "list_books", MoveBook |-> "move_book", WatchBooks |-> "watch_books", UploadBooks |-> "upload_books",
             ChatBooks |-> "chat_books", ExportBooks |-> "export_books", PurgeBooks |-> "purge_books", ListById |-> "list_by_id",
             ListOld |-> "list_old", Import |-> "import_", CreateChannel |-> "create_channel", RenameBook |-> "rename_book",
             CheckDep |-> "check_dep", StartRaw |-> "start_raw", LabelBook |-> "label_book",
             StampBook |-> "stamp_book", GetAuthor |-> "get_author", ArchiveBook |-> "archive_book", FetchDep |-> "fetch_dep" ]
TestKinds == (IF HasT("grpc") THEN {"grpc"} ELSE {}) \cup (IF HasT("grpc") /\ HasAsync THEN {"grpc-async"} ELSE {})
             \cup (IF HasT("rest") THEN {"rest"} ELSE {})
RequiredTests == { [rpc |-> SnakeOf[r], kind |-> k, pager |-> FALSE] : r \in LibraryRpcs, k \in TestKinds }
           \cup { [rpc |-> SnakeOf[r], kind |-> k, pager |-> TRUE] : r \in Paged, k \in TestKinds }
           \* mixins configured in the service YAML come with http rules and are tested on every transport; the legacy
           \* add-iam-methods option exposes the IAM RPCs on the gRPC clients only (no http rule exists for them)
           \cup { [rpc |-> m, kind |-> k, pager |-> FALSE] : m \in Mixins,
                   k \in (IF Has("o_mixins") THEN TestKinds ELSE TestKinds \ {"rest"}) }
\* verdict on one observed run of the emitted suite
SuiteOk(tests, failures, errors) == failures = 0 /\ errors = 0 /\ RequiredTests \subseteq tests

\* distributions setup.py must declare: whatever the emitted package imports unconditionally must be installable from them
RequiredDists == {"google-api-core[grpc]", "google-auth", "proto-plus"}
                 \cup (IF Has("o_iam") \/ Has("o_mixins") THEN {"grpc-google-iam-v1"} ELSE {})   \* google.iam.v1 is imported by the clients
Case == [ dists |-> RequiredDists, features |-> F, transports |-> Transports, clients |-> Clients, registry |-> Registry, default |-> DefaultTransport,
          services |-> Services, rpcs |-> LibraryRpcs, paged |-> Paged, lro |-> Lro, cstream |-> ClientStreaming,
          void |-> Void, mixins |-> Mixins, conventional |-> Conventional, ads |-> Has("o_ads") ]
Emit == stage = "done" => PrintT(<<"CASE", ToJson(Case)>>)
=============================================================================
