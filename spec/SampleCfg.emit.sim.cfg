CONSTANTS
  Mutant = "none"
  Lvals = {"x", "y", "class", "print", "items", "$resp"}
  LoopVals = {"y", "z", "x"}
  Roots = {"$resp", "x", "y", "z"}
  RootSels = {"none", "idx"}
  Attrs1 = {"items", "title", "by_name", "labels", "first", "color", "tags", "alt_item", "name", "subs", "leaf", "key", "value", "nope"}
  Sels1 = {"none", "idx", "key", "bad"}
  Attrs2 = {"name", "tag", "subs", "leaf", "key", "value", "nope"}
  Len2 = 2
  Kinds = {"define", "print", "comment", "write_file", "invalid", "loop"}
  LoopForms = {{"collection", "variable", "body"}, {"map", "key", "value", "body"}, {"map", "key", "body"}, {"map", "value", "body"}, {"map", "body"}, {"collection", "body"}, {"collection", "variable"}, {"map", "key"}, {"collection", "variable", "body", "key"}, {"map", "key", "variable", "body"}, {"map", "key", "body", "frob"}, {"collection", "variable", "map", "body"}, {"body"}}
  ReqKeys = {"name", "name/p=x", "count/p=x", "count/p=y", "name/p=class", "name/p=print", "name/p=items", "name/p=$resp", "view=RED", "view=GREEN", "view.x", "name.x", "item.name", "item.leaf.tag", "item", "item.nope", "nope", "parent", "parent%project", "parent%shelf", "parent%folder", "parent%shelf/p=y", "orphan%x", "item%x", "nope%x", "novalue", "nofield", "spurious"}
  MaxReq = 2
  MaxLen = 5
  MaxDepth = 2
SPECIFICATION SpecSim
INVARIANT Emit
