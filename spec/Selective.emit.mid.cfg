CONSTANTS Scope = "mid" OneByOne = FALSE Mutant = "none"
SPECIFICATION Spec
INVARIANT Emit
