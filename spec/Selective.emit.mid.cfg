CONSTANTS Scope = "mid" OneByOne = FALSE Mutant = "none" Pick = {}
SPECIFICATION Spec
INVARIANT Emit
