CONSTANT Mutant = "none"
SPECIFICATION TSpec
CONSTRAINT Progress
INVARIANT Inv_ExactlyWhen
INVARIANT Inv_FirstRepeated
POSTCONDITION Accepted
CHECK_DEADLOCK FALSE
