CONSTANTS
  Mutant = "none"
  Lvals = {"x"}
  LoopVals = {"y"}
  Roots = {"$resp", "x"}
  RootSels = {"none"}
  Attrs1 = {"items", "by_name", "labels", "tags", "title", "first"}
  Sels1 = {"none"}
  Attrs2 = {}
  Len2 = 1
  Kinds = {"print", "comment", "write_file", "invalid", "loop"}
  LoopForms = {{"collection", "variable", "body"}, {"map", "key", "value", "body"}, {"map", "key", "body"}, {"map", "value", "body"}, {"map", "body"}, {"collection", "body"}, {"collection", "variable"}, {"map", "key"}, {"collection", "variable", "body", "key"}, {"map", "key", "variable", "body"}, {"map", "key", "body", "frob"}, {"collection", "variable", "map", "body"}, {"body"}}
  ReqKeys = {}
  MaxReq = 0
  MaxLen = 2
  MaxDepth = 2
SPECIFICATION SpecEmit
INVARIANT Emit
