CONSTANTS
  Rotations = {0}
  Widths = {1}
  TransportSets = {{"grpc"}}
  Namings = {"plain"}
  NSvcs = {1}
  ReqPkgs = {"own"}
  Flattens = {FALSE}
  FormSet = {"unary", "paged", "lro", "sstream", "cstream", "bidi", "void"}
  MaxCode = 1
  AnyOrder = TRUE
  Mutant = "none"
SPECIFICATION TSpecification
CONSTRAINT Progress
INVARIANT Inv_TagsDistinct
INVARIANT Inv_TagForm
INVARIANT Inv_NoExtra
INVARIANT Inv_Full
INVARIANT Inv_Segments
INVARIANT Inv_Cover
INVARIANT Inv_Index
INVARIANT Inv_Exec
INVARIANT Inv_NoRaise
POSTCONDITION Accepted
CHECK_DEADLOCK FALSE
