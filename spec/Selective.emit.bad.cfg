CONSTANTS Scope = "bad" OneByOne = FALSE Mutant = "none"
SPECIFICATION Spec
INVARIANT Emit
