CONSTANTS Scope = "bad" OneByOne = FALSE Mutant = "none" Pick = {}
SPECIFICATION Spec
INVARIANT Emit
