CONSTANTS Scope = "table" TableLo = 1 NTable = 7 MaxLen = 4 RunCalls = TRUE Transports = {"grpc", "grpc_asyncio", "rest"} FreeJitter = FALSE Mutant = "none"
SPECIFICATION Spec
INVARIANT EmitRun
