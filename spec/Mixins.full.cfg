CONSTANTS Scope = "full" Mutant = "none"
SPECIFICATION Spec
INVARIANT Inv_OnlyWithRule
INVARIANT Inv_AllWithRule
INVARIANT Inv_NotListedNone
INVARIANT Inv_IamYields
INVARIANT Inv_YieldOnlyToSameNamed
INVARIANT Inv_GroupYield
INVARIANT Inv_Legacy
INVARIANT Inv_Alike
INVARIANT Inv_NoClientNoMethods
INVARIANT Inv_CanonicalPath
INVARIANT Inv_StandardTypes
INVARIANT Inv_RoutingHeader
INVARIANT Inv_Rest
INVARIANT Inv_CallsExposed
INVARIANT Inv_OwnWins
INVARIANT Inv_OwnTransport
PROPERTY Live
