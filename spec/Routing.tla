------------------------------ MODULE Routing ------------------------------
(***************************************************************************)
(* The x-goog-request-params routing header of the emitted clients (C06),  *)
(* written from AIP-4222 / google/api/routing.proto, NOT from the regular   *)
(* expressions the generator emits.                                        *)
(*                                                                         *)
(* Data.  A field value is a sequence of path segments ("a/b" = <<a, b>>,  *)
(* "" = <<>>); a segment is a sequence of characters, where a character is *)
(* either a run of unreserved characters (a word such as "projects") or    *)
(* one of the classes sp, amp, eq, pct, uni (space, `&`, `=`, `%`, a       *)
(* non-ASCII letter); the slash only occurs as the segment separator.      *)
(* A path template is a sequence of tokens  Lit(s) | Star | DStar  with    *)
(* exactly one named capture  {key=...}  spanning tokens from..to          *)
(* (`{key}` is `{key=*}`); a routing parameter without template            *)
(* (NoTemplate) sends the whole field under the field's own name.          *)
(*                                                                         *)
(* Steps of one call (one per step of the emitted code, per client path):  *)
(*   Invoke       client.method(request) on path sync | async | rest       *)
(*   BuildParam   explicit routing: one step per routing parameter, in     *)
(*                order (the fold that makes "last one wins" explicit)     *)
(*   BuildVar     implicit routing: one step per variable of the primary   *)
(*                http path template                                       *)
(*   Finish       nothing collected under explicit routing: no header      *)
(*   Encode       header text `k1=v1&k2=v2`, keys and values URL-encoded   *)
(*   Send         the metadata entry / HTTP header reaches the server      *)
(*   NextPage     a paginated method: the pager fetches the next page by   *)
(*                repeating the call; EVERY fetch carries the header       *)
(*   Refuse       (named deviation) the REST transport may refuse to       *)
(*                transcode a request whose path variables do not match    *)
(*                its http rule: no request is sent at all (C04's subject) *)
(* Rule-building steps (PickKind .. AddParam / AddVar, SetField, StartCall) *)
(* let TLC enumerate / sample the quantifier: routing rules x request      *)
(* values; Again tries another request on the same rule.                   *)
(* Field presence: a routing field declared proto3 `optional` can be unset *)
(* or explicitly set to "" (member of `blank`); both are EMPTY: the        *)
(* property speaks of non-empty fields, so neither contributes anything.   *)
(***************************************************************************)
EXTENDS Naturals, Sequences, FiniteSets, TLC, SequencesExt, FiniteSetsExt, Json

CONSTANTS MaxParams,   \* explicit rules have 0..MaxParams routing parameters (over at most two fields)
          MaxVars,     \* implicit path templates have 1..MaxVars variables
          Pool,        \* "small" | "mid" | "large" | "keyword" | "presence": template / field pools offered to the builder
          OptFields,   \* top-level request fields the builder may declare proto3 `optional` (explicit presence)
          MaxPages,    \* > 1: methods may be paginated and a listing spans 2..MaxPages page fetches
          MaxCalls,    \* requests tried per rule in one behaviour
          Mutant       \* "none" for the design; anything else is a self-test mutant TLC must reject

VARIABLES pc, rule, want, cur, todo, req, blank, calls, npages, page, pidx, i, hdr, present, text, sent
vars == <<pc, rule, want, cur, todo, req, blank, calls, npages, page, pidx, i, hdr, present, text, sent>>

-----------------------------------------------------------------------------
(* Characters, segments, values                                            *)
ReservedChars == {"sp", "amp", "eq", "pct", "uni"}
NoSeg == <<>>                                   \* the empty segment (as in "a//b" or "a/")
P == <<"projects">>   I == <<"instances">>   T == <<"tables">>
X == <<"a1">>   Y == <<"b2">>   Z == <<"c3">>   W == <<"zz">>
E == <<"a1", "sp", "amp", "eq", "pct", "uni", "b2">>     \* a segment that needs escaping
TextEmpty(v) == v = <<>> \/ v = <<NoSeg>>       \* the value spells the empty string

(* Template tokens                                                         *)
Lit(s) == [kind |-> "lit", s |-> s]
Star   == [kind |-> "star", s |-> <<>>]
DStar  == [kind |-> "dstar", s |-> <<>>]
NoTemplate == [toks |-> <<>>, from |-> 0, to |-> 0, key |-> ""]

-----------------------------------------------------------------------------
(* AIP-4222 matching.  A value matches a template iff its segments can be  *)
(* split into consecutive groups, one per token:  Lit(s) takes exactly the *)
(* segment s,  `*` exactly one non-empty segment,  `**` zero or more       *)
(* segments.  The capture is what the tokens from..to took.                *)
RECURSIVE SumTo(_, _)
SumTo(f, n) == IF n = 0 THEN 0 ELSE f[n] + SumTo(f, n - 1)
DIdx(toks) == {j \in 1..Len(toks) : toks[j].kind = "dstar"}
DWidths(v) == IF Mutant = "dstar_as_star" THEN {1} ELSE 0..Len(v)
(* End(toks, w)[j] = number of segments taken by tokens 1..j when the `**` tokens take w[.] segments *)
End(toks, w) == LET ws == [j \in 1..Len(toks) |-> IF toks[j].kind = "dstar" THEN w[j] ELSE 1]
                IN [j \in 0..Len(toks) |-> SumTo(ws, j)]
TokFits(tok, g) == CASE tok.kind = "lit"  -> g = <<tok.s>>
                     [] tok.kind = "star" -> Len(g) = 1 /\ g[1] # NoSeg
                     [] OTHER             -> TRUE
FitsAll(toks, v, e) == /\ e[Len(toks)] = Len(v)
                       /\ \A j \in 1..Len(toks) : TokFits(toks[j], SubSeq(v, e[j - 1] + 1, e[j]))
Splits(toks, v) == {w \in [DIdx(toks) -> DWidths(v)] : FitsAll(toks, v, End(toks, w))}
Matches(t, v) == Splits(t.toks, v) # {}
CaptureBy(t, v, e) == SubSeq(v, e[t.from - 1] + 1, e[t.to])
Captures(t, v) == {CaptureBy(t, v, End(t.toks, w)) : w \in Splits(t.toks, v)}
Capture(t, v) == CHOOSE c \in Captures(t, v) : TRUE

(* The generative reading of the same sentence, used to cross-check Matches *)
Piece(tok, s, tail) == CASE tok.kind = "lit" -> <<tok.s>> [] tok.kind = "star" -> <<s>> [] OTHER -> tail
Inst(toks, s, tail) == FlattenSeq([j \in 1..Len(toks) |-> Piece(toks[j], s, tail)])
InstCapture(t, s, tail) == Inst(SubSeq(t.toks, t.from, t.to), s, tail)
HasDStar(toks) == DIdx(toks) # {}

(* Well-formed templates (routing.proto: http.proto syntax, exactly one named segment; `**` last) *)
WFTemplate(t) == /\ Len(t.toks) >= 1 /\ 1 <= t.from /\ t.from <= t.to /\ t.to <= Len(t.toks)
                 /\ \A j \in DIdx(t.toks) : j = Len(t.toks)
                 /\ t.key # ""

-----------------------------------------------------------------------------
(* Fields.  A field path is a sequence of proto field names; the header    *)
(* key is the raw dotted path, the Python attribute path suffixes every    *)
(* reserved word with "_".                                                 *)
ReservedWords == {"type", "class"} \* names of gapic.utils.reserved_names used below (`class` is also a keyword)
AllPaths == {<<"name">>, <<"other">>, <<"type">>, <<"sub", "name">>, <<"sub", "type">>,
             <<"class">>, <<"sub", "class">>}
Dot(path) == IF Len(path) = 1 THEN path[1] ELSE path[1] \o "." \o path[2]
Suffixed(path) == [j \in 1..Len(path) |-> IF path[j] \in ReservedWords THEN path[j] \o "_" ELSE path[j]]
AttrPath(path) == Dot(Suffixed(path))
AllKeys == {Dot(p) : p \in AllPaths}
(* the proto-plus view of the request: attribute path -> value of the field with that original name *)
RawOfAttr == [a \in {AttrPath(p) : p \in AllPaths} |-> Dot(CHOOSE p \in AllPaths : AttrPath(p) = a)]
ReadAttr(r, path) == r[RawOfAttr[AttrPath(path)]]
ZeroReq == [f \in AllKeys |-> <<>>]

-----------------------------------------------------------------------------
(* Explicit routing (google.api.routing)                                   *)
KeyOf(p) == IF p.tmpl = NoTemplate THEN Dot(p.field) ELSE p.tmpl.key
(* the set of contributions of one parameter: empty, or the one value it sends *)
Contrib(p, r) == LET v == ReadAttr(r, p.field) IN
                 IF v = <<>>                                            \* field empty (unset, or an optional field
                 THEN IF Mutant = "presence_counts" /\ p.tmpl = NoTemplate /\ Dot(p.field) \in blank   \* set to ""):
                      THEN {<<>>} ELSE {}                               \* nothing
                 ELSE IF p.tmpl = NoTemplate THEN {v}                   \* no template: the whole field
                 ELSE {c \in Captures(p.tmpl, v) : ~TextEmpty(c)}       \* matches and captures something
Put(h, key, val) == {e \in h : e[1] # key} \cup {<<key, val>>}
PutFirst(h, key, val) == IF \E e \in h : e[1] = key THEN h ELSE h \cup {<<key, val>>}
StepParam(h, p, r) == LET c == Contrib(p, r) IN
                      IF c = {} THEN h
                      ELSE IF Mutant = "first_wins" THEN PutFirst(h, KeyOf(p), CHOOSE x \in c : TRUE)
                      ELSE Put(h, KeyOf(p), CHOOSE x \in c : TRUE)
(* the header as a left fold: LAST parameter wins per key *)
RECURSIVE FoldParams(_, _, _)
FoldParams(params, n, r) == IF n = 0 THEN {} ELSE StepParam(FoldParams(params, n - 1, r), params[n], r)
ExplicitHeader(params, r) == FoldParams(params, Len(params), r)
(* the same thing said without a fold: per key, the contributing parameter of highest index *)
LastWins(params, r) ==
    LET cs == [j \in 1..Len(params) |-> Contrib(params[j], r)]
        C  == {j \in 1..Len(params) : cs[j] # {}}
        Wn == {j \in C : \A h \in C : KeyOf(params[h]) = KeyOf(params[j]) => h <= j}
    IN {<<KeyOf(params[j]), CHOOSE x \in cs[j] : TRUE>> : j \in Wn}

(* Implicit routing: one pair per variable of the PRIMARY http binding,     *)
(* whichever pattern (get, put, post, delete, patch or custom) it uses      *)
PrimaryVars(rl) == rl.http[IF Mutant = "additional_binding" THEN Len(rl.http) ELSE 1]
ImplicitKey(path) == IF Mutant = "suffixed_key" THEN AttrPath(path) ELSE Dot(path)
ImplicitPair(v, r) == <<ImplicitKey(v.field), ReadAttr(r, v.field)>>
ImplicitHeader(rl, r) == {ImplicitPair(PrimaryVars(rl)[j], r) : j \in 1..Len(PrimaryVars(rl))}

(* what the property says must arrive, independent of the step machine *)
Expected(rl, r) == IF rl.explicit THEN LastWins(rl.params, r)
                   ELSE {<<Dot(rl.http[1][j].field), r[Dot(rl.http[1][j].field)]>> : j \in 1..Len(rl.http[1])}

(* REST: the transport must be able to send when every variable of the primary binding matches strictly *)
StrictMatch(toks, v) == /\ v # <<>> /\ \A j \in 1..Len(v) : v[j] # NoSeg
                        /\ \E w \in Splits(toks, v) : \A j \in DIdx(toks) : w[j] >= 1
RestMustSend(rl, r) == ~rl.custom /\ \A j \in 1..Len(rl.http[1]) : StrictMatch(rl.http[1][j].toks, r[Dot(rl.http[1][j].field)])

-----------------------------------------------------------------------------
(* Header text: a sequence of tokens.  Words and keys stand for themselves, *)
(* "EQ" "AMP" "SLASH" are the raw separators, "%c" is the percent-encoded   *)
(* character of class c, "RAW:c" a reserved character left unescaped.       *)
EncChar(c) == IF c \notin ReservedChars THEN c
              ELSE IF Mutant # "raw_value" THEN "%" \o c
              ELSE CASE c = "amp" -> "AMP" [] c = "eq" -> "EQ" [] OTHER -> "RAW:" \o c
EncSeg(seg) == [j \in 1..Len(seg) |-> EncChar(seg[j])]
JoinWith(ss, sep) == FlattenSeq([j \in 1..Len(ss) |-> IF j = 1 THEN ss[j] ELSE <<sep>> \o ss[j]])
EncVal(v) == JoinWith([j \in 1..Len(v) |-> EncSeg(v[j])], "SLASH")
EncPair(e) == <<e[1], "EQ">> \o EncVal(e[2])
EncodeText(order) == JoinWith([j \in 1..Len(order) |-> EncPair(order[j])], "AMP")

(* the server's reading of the text (what urllib.parse.parse_qsl does), written as the inverse *)
RECURSIVE SplitAt(_, _)
SplitAt(s, seps) == LET idx == {j \in 1..Len(s) : s[j] \in seps} IN
                    IF idx = {} THEN <<s>>
                    ELSE LET m == Min(idx) IN <<SubSeq(s, 1, m - 1)>> \o SplitAt(SubSeq(s, m + 1, Len(s)), seps)
Unesc(tok) == CASE tok = "%sp" -> "sp" [] tok = "%amp" -> "amp" [] tok = "%eq" -> "eq" [] tok = "%pct" -> "pct"
                [] tok = "%uni" -> "uni" [] tok = "RAW:sp" -> "sp" [] tok = "RAW:pct" -> "pct"
                [] tok = "RAW:uni" -> "uni" [] tok = "EQ" -> "eq" [] OTHER -> tok
DecodeVal(ts) == IF ts = <<>> THEN <<>>
                 ELSE LET segs == SplitAt(ts, {"SLASH", "%slash"})
                      IN [j \in 1..Len(segs) |-> [h \in 1..Len(segs[j]) |-> Unesc(segs[j][h])]]
KeyText(ts) == IF Len(ts) = 1 THEN ts[1] ELSE "?"
DecodeChunk(c) == LET idx == {j \in 1..Len(c) : c[j] = "EQ"} IN
                  IF idx = {} THEN <<KeyText(c), <<>>>>
                  ELSE LET m == Min(idx) IN <<KeyText(SubSeq(c, 1, m - 1)), DecodeVal(SubSeq(c, m + 1, Len(c)))>>
Chunks(t) == IF t = <<>> THEN <<>> ELSE SplitAt(t, {"AMP"})
Decode(t) == {DecodeChunk(Chunks(t)[j]) : j \in 1..Len(Chunks(t))}
IsRaw(tok) == tok \in {"RAW:sp", "RAW:pct", "RAW:uni"}
NoRaw(t) == /\ \A j \in 1..Len(t) : ~IsRaw(t[j])
            /\ \A j \in 1..Len(Chunks(t)) : Cardinality({h \in 1..Len(Chunks(t)[j]) : Chunks(t)[j][h] = "EQ"}) = 1

-----------------------------------------------------------------------------
(* The quantifier: pools the rule builder draws from                       *)
Bases == CASE Pool = "keyword" -> {}
           [] Pool = "presence" -> {<<DStar>>}
           [] Pool = "small" -> {<<Star>>, <<DStar>>, <<Lit(P), Star, DStar>>}
           [] Pool = "mid"   -> {<<Star>>, <<DStar>>, <<Lit(P), Star>>, <<Lit(P), Star, DStar>>,
                                 <<Lit(P), Star, Lit(I), Star>>}
           [] OTHER          -> {<<Star>>, <<DStar>>, <<Lit(P), Star>>, <<Lit(P), DStar>>, <<Lit(P), Star, DStar>>,
                                 <<Lit(P), Star, Lit(I), Star>>, <<Lit(P), Star, Lit(T), Star>>,
                                 <<Lit(P), Star, Lit(I), Star, DStar>>, <<Lit(P), Star, Lit(I), Star, Lit(T), Star>>}
CapKeys == CASE Pool = "small" -> {"k"} [] Pool = "presence" -> {"k", "name"} [] Pool = "mid" -> {"k", "name"} [] OTHER -> {"k", "table_id", "name"}
ParamPaths == CASE Pool = "keyword" -> {<<"class">>}
                [] Pool = "presence" -> {<<"name">>, <<"other">>}
                [] Pool = "small" -> {<<"name">>, <<"sub", "type">>}
                [] Pool = "mid"   -> {<<"name">>, <<"other">>, <<"sub", "name">>, <<"type">>}
                [] OTHER          -> {<<"name">>, <<"other">>, <<"type">>, <<"sub", "name">>, <<"sub", "type">>}
Ranges(b) == IF Pool = "small"
             THEN {<<1, Len(b)>>} \cup (IF Len(b) > 1 THEN {<<1, Len(b) - 1>>, <<2, 2>>} ELSE {})
             ELSE {<<f, t>> : f \in 1..Len(b), t \in 1..Len(b)}
TemplatesOn(b) == IF b = <<>> THEN {NoTemplate}
                  ELSE {[toks |-> b, from |-> r[1], to |-> r[2], key |-> key] :
                          r \in {x \in Ranges(b) : x[1] <= x[2]}, key \in CapKeys}
(* variables of http path templates: `{f}`, `{f=*}`, `{f=projects/*}` ...; `**` only in the last variable *)
VarToks == CASE Pool \in {"keyword", "presence"} -> {<<Star>>}
             [] Pool = "small" -> {<<Star>>, <<Lit(P), Star>>, <<DStar>>}
             [] OTHER          -> {<<Star>>, <<Lit(P), Star>>, <<Lit(P), Star, Lit(I), Star>>, <<DStar>>, <<Lit(P), Star, DStar>>}
VarPaths == CASE Pool = "keyword" -> {<<"sub", "class">>}
              [] Pool = "presence" -> {<<"name">>}
              [] Pool = "small" -> {<<"name">>, <<"type">>, <<"sub", "name">>}
              [] OTHER -> {<<"name">>, <<"other">>, <<"type">>, <<"sub", "name">>, <<"sub", "type">>}
\* http rule of an explicitly routed method: no variable, or one the routing annotation must take precedence over
ExplicitBindings == IF Pool \in {"keyword", "presence"} THEN {<<>>} ELSE {<<>>, <<[field |-> <<"name">>, toks |-> <<DStar>>]>>}
\* optional additional binding (never used for the header)
Additional == IF Pool \in {"keyword", "presence"} THEN {<<>>} ELSE {<<>>, <<[field |-> <<"other">>, toks |-> <<Star>>]>>}
\* custom: the primary (and only) binding is written with the `custom` pattern of HttpRule (e.g. kind HEAD) instead of
\* get/put/post/delete/patch; it is still the primary path template, but the REST transport has no binding for it
\* opt: the request fields declared proto3 `optional`;  paged: the method is paginated (page_size / page_token /
\* next_page_token), so one listing is a sequence of calls
EmptyRule == [explicit |-> FALSE, custom |-> FALSE, paged |-> FALSE, opt |-> {}, params |-> <<>>, http |-> <<>>]
PagedChoices == IF MaxPages > 1 THEN BOOLEAN ELSE {FALSE}

(* request values derived from the rule: empty, matching (plain / needing escaping / with and without a    *)
(* `**` tail), and broken variants of a matching value                                                     *)
Canon(toks) == Inst(toks, X, <<Y>>)
Matching(toks) == IF HasDStar(toks) THEN {Inst(toks, X, <<>>), Canon(toks), Inst(toks, E, <<Y, Z>>)}
                  ELSE {Inst(toks, X, <<>>), Inst(toks, E, <<>>)}
Broken(v) == {SubSeq(v, 1, Len(v) - 1), v \o <<W>>, [v EXCEPT ![1] = W], [v EXCEPT ![Len(v)] = NoSeg]}
ValuesOf(toks) == IF toks = <<>> THEN {<<X>>, <<P, E>>, <<P, NoSeg>>}
                  ELSE (Matching(toks) \cup Broken(Canon(toks))) \ {<<>>, <<NoSeg>>}
LeanValuesOf(toks) == {Canon(toks), Inst(toks, E, <<>>), [Canon(toks) EXCEPT ![1] = W]} \ {<<>>, <<NoSeg>>}
ParamsOn(rl, key) == {j \in 1..Len(rl.params) : Dot(rl.params[j].field) = key}
VarsOn(rl, key) == {v \in UNION {ToSet(rl.http[b]) : b \in 1..Len(rl.http)} : Dot(v.field) = key}
FieldsRead(rl) == {Dot(rl.params[j].field) : j \in 1..Len(rl.params)}
                  \cup {Dot(v.field) : v \in UNION {ToSet(rl.http[b]) : b \in 1..Len(rl.http)}}
ValuesFor(rl, key) == {<<>>} \cup UNION {ValuesOf(rl.params[j].tmpl.toks) : j \in ParamsOn(rl, key)}
                             \cup UNION {LeanValuesOf(v.toks) : v \in VarsOn(rl, key)}
-----------------------------------------------------------------------------
PathNames == <<"sync", "async", "rest">>
NoneSent == [p \in ToSet(PathNames) |-> [st |-> "none", present |-> FALSE, pairs |-> {}]]
NoCur == [field |-> <<>>, toks |-> <<>>, opt |-> FALSE]

Init == /\ pc = "kind" /\ rule = EmptyRule /\ want = 0 /\ cur = NoCur /\ todo = {} /\ req = ZeroReq /\ blank = {}
        /\ calls = 0 /\ npages = 1 /\ page = 1
        /\ pidx = 0 /\ i = 0 /\ hdr = {} /\ present = FALSE /\ text = <<>> /\ sent = NoneSent

(* ---- building the rule (input space) ---- *)
PickKind(e) == /\ pc = "kind"
               /\ rule' = [rule EXCEPT !.explicit = e]
               /\ pc' = IF e THEN "elen" ELSE "ilen"
               /\ UNCHANGED <<want, cur, todo, req, blank, calls, npages, page, pidx, i, hdr, present, text, sent>>
ToReq(rl) == /\ pc' = "req" /\ todo' = FieldsRead(rl) /\ req' = ZeroReq /\ blank' = {}
PickExplicit(n, b, pg) ==
    /\ pc = "elen"
    /\ rule' = [rule EXCEPT !.http = <<b>>, !.paged = pg]
    /\ want' = n
    /\ IF n = 0 THEN ToReq(rule') ELSE pc' = "ptoks" /\ UNCHANGED <<todo, req, blank>>
    /\ UNCHANGED <<cur, calls, npages, page, pidx, i, hdr, present, text, sent>>
(* o: the field is declared `optional` (one declaration per field, whatever number of parameters read it) *)
PickField(f, b, o) ==
    /\ pc = "ptoks"
    /\ Cardinality({rule.params[j].field : j \in 1..Len(rule.params)} \cup {f}) <= 2
    /\ o => (Len(f) = 1 /\ Dot(f) \in OptFields)
    /\ (\E j \in 1..Len(rule.params) : rule.params[j].field = f) => (o = (Dot(f) \in rule.opt))
    /\ cur' = [field |-> f, toks |-> b, opt |-> o] /\ pc' = "pcap"
    /\ UNCHANGED <<rule, want, todo, req, blank, calls, npages, page, pidx, i, hdr, present, text, sent>>
AddParam(t) == /\ pc = "pcap"
               /\ rule' = [rule EXCEPT !.params = Append(@, [field |-> cur.field, tmpl |-> t]),
                                       !.opt = IF cur.opt THEN @ \cup {Dot(cur.field)} ELSE @]
               /\ IF Len(rule.params) + 1 = want THEN ToReq(rule') ELSE pc' = "ptoks" /\ UNCHANGED <<todo, req, blank>>
               /\ cur' = NoCur
               /\ UNCHANGED <<want, calls, npages, page, pidx, i, hdr, present, text, sent>>
PickImplicit(n, a, c, pg) ==
    /\ pc = "ilen" /\ (c => (a = <<>> /\ ~pg))
    /\ rule' = [rule EXCEPT !.http = IF a = <<>> THEN <<<<>>>> ELSE <<<<>>, a>>, !.custom = c, !.paged = pg]
    /\ want' = n /\ pc' = "vars"
    /\ UNCHANGED <<cur, todo, req, blank, calls, npages, page, pidx, i, hdr, present, text, sent>>
AddVar(f, b) == /\ pc = "vars"
                /\ \A j \in 1..Len(rule.http[1]) : rule.http[1][j].field # f /\ ~HasDStar(rule.http[1][j].toks)
                /\ rule' = [rule EXCEPT !.http[1] = Append(@, [field |-> f, toks |-> b])]
                /\ IF Len(rule.http[1]) + 1 = want THEN ToReq(rule') ELSE pc' = "vars" /\ UNCHANGED <<todo, req, blank>>
                /\ UNCHANGED <<want, cur, calls, npages, page, pidx, i, hdr, present, text, sent>>
(* the request: one value per field the rule reads (every other field stays unset); an `optional` field can   *)
(* also be set explicitly to the empty string (e = TRUE), which is still an EMPTY field                        *)
NextField == CHOOSE f \in todo : TRUE
SetField(v, e) ==
    /\ pc = "req" /\ todo # {}
    /\ e => (v = <<>> /\ NextField \in rule.opt)
    /\ req' = [req EXCEPT ![NextField] = v] /\ todo' = todo \ {NextField}
    /\ blank' = IF e THEN blank \cup {NextField} ELSE blank
    /\ UNCHANGED <<pc, rule, want, cur, calls, npages, page, pidx, i, hdr, present, text, sent>>
StartCall(np) ==
    /\ pc = "req" /\ todo = {}
    /\ calls' = calls + 1 /\ pidx' = 1 /\ sent' = NoneSent /\ pc' = "idle"
    /\ npages' = np /\ page' = 1
    /\ i' = 0 /\ hdr' = {} /\ present' = FALSE /\ text' = <<>>
    /\ UNCHANGED <<rule, want, cur, todo, req, blank>>
(* the guards are repeated in front of the quantifiers so that TLC does not enumerate the pools in states  *)
(* where the step is not enabled anyway                                                                 *)
Build == \/ pc = "kind"  /\ \E e \in BOOLEAN : PickKind(e)
         \/ pc = "elen"  /\ \E n \in 0..MaxParams, b \in ExplicitBindings, pg \in PagedChoices : PickExplicit(n, b, pg)
         \/ pc = "ptoks" /\ \E f \in ParamPaths, b \in Bases \cup {<<>>}, o \in BOOLEAN : PickField(f, b, o)
         \/ pc = "pcap"  /\ \E t \in TemplatesOn(cur.toks) : AddParam(t)
         \/ pc = "ilen"  /\ \E n \in 1..MaxVars, a \in Additional, c \in BOOLEAN, pg \in PagedChoices : PickImplicit(n, a, c, pg)
         \/ pc = "vars"  /\ \E f \in VarPaths, b \in VarToks : AddVar(f, b)
         \/ pc = "req" /\ todo # {} /\ \E v \in ValuesFor(rule, NextField), e \in BOOLEAN : SetField(v, e)
         \/ pc = "req" /\ todo = {} /\ \E np \in (IF rule.paged THEN 2..MaxPages ELSE {1}) : StartCall(np)

(* ---- one call on one client path ---- *)
Path == PathNames[pidx]
NSteps == IF rule.explicit THEN Len(rule.params) ELSE Len(PrimaryVars(rule))
Invoke == /\ pc = "idle" /\ pidx <= 3
          /\ pc' = "build" /\ i' = 0 /\ hdr' = {} /\ present' = FALSE /\ text' = <<>> /\ page' = 1
          /\ UNCHANGED <<rule, want, cur, todo, req, blank, calls, npages, pidx, sent>>
BuildParam == /\ pc = "build" /\ rule.explicit /\ i < NSteps
              /\ i' = i + 1 /\ hdr' = StepParam(hdr, rule.params[i + 1], req)
              /\ UNCHANGED <<pc, rule, want, cur, todo, req, blank, calls, npages, page, pidx, present, text, sent>>
BuildVar == /\ pc = "build" /\ ~rule.explicit /\ i < NSteps
            /\ i' = i + 1 /\ hdr' = hdr \cup {ImplicitPair(PrimaryVars(rule)[i + 1], req)}
            /\ UNCHANGED <<pc, rule, want, cur, todo, req, blank, calls, npages, page, pidx, present, text, sent>>
Drops == \/ (rule.explicit /\ hdr = {} /\ Mutant # "empty_header")
         \/ (Mutant = "async_drops_header" /\ Path = "async")
Finish == /\ pc = "build" /\ i = NSteps
          /\ pc' = IF Drops THEN "send" ELSE "encode"
          /\ UNCHANGED <<rule, want, cur, todo, req, blank, calls, npages, page, pidx, i, hdr, present, text, sent>>
EncodeAs(t) == /\ pc = "encode"
               /\ text' = t /\ present' = TRUE /\ pc' = "send"
               /\ UNCHANGED <<rule, want, cur, todo, req, blank, calls, npages, page, pidx, i, hdr, sent>>
Encode == pc = "encode" /\ \E order \in SetToSeqs(hdr) : EncodeAs(EncodeText(order))
(* one call reaches the server; a listing continues with the next page on the same client path *)
Send == /\ pc = "send"
        /\ sent' = [sent EXCEPT ![Path] = [st |-> "sent", present |-> present,
                                           pairs |-> IF present THEN Decode(text) ELSE {}]]
        /\ IF page < npages THEN pc' = "page" /\ pidx' = pidx
           ELSE pidx' = pidx + 1 /\ pc' = IF pidx = 3 THEN "done" ELSE "idle"
        /\ UNCHANGED <<rule, want, cur, todo, req, blank, calls, npages, page, i, hdr, present, text>>
(* the pager repeats the call (same request but page_token, same call options): the header is due again *)
NextPage == /\ pc = "page" /\ page < npages
            /\ page' = page + 1 /\ present' = FALSE /\ text' = <<>>
            /\ pc' = IF Drops \/ Mutant = "one_shot_metadata" THEN "send" ELSE "encode"
            /\ UNCHANGED <<rule, want, cur, todo, req, blank, calls, npages, pidx, i, hdr, sent>>
Refuse == /\ pc \in {"encode", "send"} /\ Path = "rest" /\ page = 1 /\ ~RestMustSend(rule, req)
          /\ sent' = [sent EXCEPT ![Path] = [st |-> "refused", present |-> FALSE, pairs |-> {}]]
          /\ pidx' = pidx + 1 /\ pc' = IF pidx = 3 THEN "done" ELSE "idle"
          /\ UNCHANGED <<rule, want, cur, todo, req, blank, calls, npages, page, i, hdr, present, text>>
Again == /\ pc = "done" /\ calls < MaxCalls
         /\ pc' = "req" /\ todo' = FieldsRead(rule) /\ req' = ZeroReq /\ blank' = {}
         /\ UNCHANGED <<rule, want, cur, calls, npages, page, pidx, i, hdr, present, text, sent>>
Call == Invoke \/ BuildParam \/ BuildVar \/ Finish \/ Encode \/ Send \/ NextPage \/ Refuse
Next == Build \/ Call \/ Again
Spec == Init /\ [][Next]_vars

-----------------------------------------------------------------------------
(* The property, clause by clause (checked on every reachable state)       *)
Got(p) == sent[p]
Arrived == {p \in ToSet(PathNames) : sent[p].st = "sent"}
Ready == pc \in {"idle", "page", "done"}  \* the states right after a call arrived (or was refused): EVERY call

\* explicit: each parameter whose field is non-empty and matches contributes its capture, last one wins per key
Inv_Explicit == (Ready /\ rule.explicit) => \A p \in Arrived : Got(p).pairs = LastWins(rule.params, req)
\* ... and no header at all when nothing matches; a header that is sent carries at least one non-empty value
Inv_NoHeaderWhenNothing == (Ready /\ rule.explicit) =>
                             \A p \in Arrived : /\ Got(p).present = (LastWins(rule.params, req) # {})
                                                /\ Got(p).present => Got(p).pairs # {}
                                                /\ \A e \in Got(p).pairs : ~TextEmpty(e[2])
\* implicit: one field=value pair per variable of the primary path template, read through the nested message
Inv_Implicit == (Ready /\ ~rule.explicit) =>
                  \A p \in Arrived : Got(p).present /\ Got(p).pairs = Expected(rule, req)
\* reserved-word fields are sent under their original name
Inv_KeysOriginal == Ready => \A p \in Arrived : \A e \in Got(p).pairs :
                      e[1] \notin {AttrPath(q) : q \in {x \in AllPaths : AttrPath(x) # Dot(x)}}
\* values are URL-encoded: decoding the text gives back exactly the pairs, nothing reserved is left raw
Inv_Encoded == (pc = "send" /\ present) => /\ Decode(text) = hdr
                                           /\ Len(Chunks(text)) = Cardinality(hdr)
                                           /\ NoRaw(text)
\* sync, asyncio and REST agree
Inv_Agree == Ready => \A p, q \in Arrived : Got(p).present = Got(q).present /\ Got(p).pairs = Got(q).pairs
\* the running header is the last-wins fold of the parameters seen so far
Inv_Fold == (pc = "build" /\ rule.explicit) => hdr = LastWins(SubSeq(rule.params, 1, i), req)
Inv_FoldDecl == (Ready /\ rule.explicit) => ExplicitHeader(rule.params, req) = LastWins(rule.params, req)
\* sanity of the oracle itself: Matches/Capture agree with the generative reading of AIP-4222
TemplatesInRule == {rule.params[j].tmpl : j \in 1..Len(rule.params)} \ {NoTemplate}
Inv_MatchGen == (pc = "req" /\ todo = FieldsRead(rule) /\ calls = 0) =>
    \A t \in TemplatesInRule :
       /\ WFTemplate(t)
       /\ \A s \in {X, E}, tail \in {<<>>, <<Y>>, <<Y, NoSeg, Z>>} :
             /\ Matches(t, Inst(t.toks, s, tail))
             /\ Captures(t, Inst(t.toks, s, tail)) = {InstCapture(t, s, tail)}
       /\ LET v == Inst(t.toks, X, <<Y>>) IN          \* `**` is last, so token j < Len sits at segment j
          \A j \in {h \in 1..Len(t.toks) : t.toks[h].kind # "dstar"} :
             /\ ~Matches(t, [v EXCEPT ![j] = NoSeg])                        \* neither `*` nor a literal takes ""
             /\ (t.toks[j].kind = "lit" => ~Matches(t, [v EXCEPT ![j] = W])) \* literals are exact
             /\ LET v0 == Inst(t.toks, X, <<>>) IN                          \* ... and none of them is optional
                ~Matches(t, SubSeq(v0, 1, j - 1) \o SubSeq(v0, j + 1, Len(v0)))
       /\ (~HasDStar(t.toks) => ~Matches(t, Inst(t.toks, X, <<>>) \o <<Y>>))   \* `*` is exactly one segment
Inv_Bounded == /\ calls <= MaxCalls /\ Len(rule.params) <= MaxParams /\ page <= npages /\ npages <= (IF MaxPages > 1 THEN MaxPages ELSE 1)
               /\ blank \subseteq rule.opt /\ \A f \in blank : req[f] = <<>>       \* explicitly empty is still empty

\* spec -> code: one case per (rule, request) with the observables the specification predicts
Emit == pc = "done" =>
          PrintT(<<"CASE", ToJson([rule |-> rule, req |-> req, blank |-> blank, npages |-> npages,
                                   present |-> sent["sync"].present,
                                   pairs |-> sent["sync"].pairs,
                                   restmust |-> RestMustSend(rule, req)])>>)
=============================================================================
