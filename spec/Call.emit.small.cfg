CONSTANTS Scope = "small" Mutant = "none" DepEnumOffered = FALSE
SPECIFICATION Spec
INVARIANT Emit
