CONSTANTS Scope = "small" Mutant = "none"
SPECIFICATION Spec
INVARIANT Emit
