CONSTANTS Scope = "small" Mutant = "none" DepEnumOffered = FALSE DepMapOffered = FALSE
SPECIFICATION Spec
INVARIANT Emit
