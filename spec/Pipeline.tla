------------------------------ MODULE Pipeline ------------------------------
(***************************************************************************)
(* The generator as a sequential pipeline (gapic/cli/generate.py):         *)
(*                                                                         *)
(*   ParseOptions -> SelectPackage -> BuildNaming -> LoadProtos ->         *)
(*   Render* (one step per template family, in template order) -> Respond  *)
(*                                                                         *)
(* State is the abstract request (package segments, target / dependency    *)
(* files, services with method kinds, the option list) and what the        *)
(* pipeline has derived from it so far.  File names are sequences of path  *)
(* segments.  Identifiers are never manipulated character-wise: every      *)
(* name TLC may choose comes from a hand-written table that carries its     *)
(* derived spellings (DESIGN 3.1).                                          *)
(*                                                                         *)
(* Serves C01 (clients / transports / default), C11 (file set), C15        *)
(* (gapic_metadata structure), and the sample inventory of C14.            *)
(***************************************************************************)
EXTENDS Naturals, Sequences, FiniteSets, TLC, Json, SequencesExt

CONSTANT Scope        \* "shapes" | "options" | "tiny" : which slice of the input space Init enumerates

-----------------------------------------------------------------------------
(* Vocabulary tables                                                       *)
VersionSegs == {"v1", "v1beta1", "v1p1beta1", "v2alpha"}
\* proto file base names -> module name the library must use (dots -> "_", keywords and the client
\* control parameters get one trailing "_")
FileTable == { [proto |-> "lib",       mod |-> "lib"],
               [proto |-> "lib.admin", mod |-> "lib_admin"],
               [proto |-> "lib_admin", mod |-> "lib_admin"],     \* sanitises to the same module as lib.admin: the later file gets a trailing "_"
               [proto |-> "import",    mod |-> "import_"],
               [proto |-> "metadata",  mod |-> "metadata_"],
               [proto |-> "request",   mod |-> "request_"],
               [proto |-> "res_types", mod |-> "res_types"] }
SvcTable == { [camel |-> "Library",   snake |-> "library"],
              [camel |-> "BookAdmin", snake |-> "book_admin"] }
\* a service whose name contains the words the per-template gates look for (transport, base; its files are gated like anyone's)
GateNamed == [camel |-> "TransportDatabase", snake |-> "transport_database"]
MethodKinds == {"unary", "paged", "lro", "sstream", "cstream", "bidi", "void"}

\* namespace / name / version of the proto package
NsChoices == { <<>>, <<"acme">>, <<"big", "corp">>, <<"a", "b", "c">> }
VerChoices == {"", "v1", "v1beta1", "v1p1beta1"}

\* option items as they appear in the comma separated plugin parameter
OptItems == { "transport=grpc", "transport=rest", "transport=grpc+rest", "transport=rest+grpc", "metadata", "metadata=false",
              "autogen-snippets=false", "rest-numeric-enums", "foo=bar", "foo=a=b", "unknownflag",
              "python-gapic-name=book_store", "python-gapic-name=lending", "python-gapic-namespace=Big.Corp",
              "python-gapic-bogus=1", "transport=rest#2" }   \* "#2": a second, later transport item
\* The alternative (Ads) template set is only supported together with its naming (old-naming also switches the
\* snippets off, which the Ads sample template cannot render): the two items always travel together (scope "ads").
Has(seq, x) == \E i \in 1..Len(seq) : seq[i] = x
FirstTransport(items) ==
  LET idx == {i \in 1..Len(items) : items[i] \in {"transport=grpc", "transport=rest", "transport=grpc+rest", "transport=rest+grpc", "transport=rest#2"}}
  IN IF idx = {} THEN <<"grpc">>
     ELSE LET i == CHOOSE j \in idx : \A k \in idx : j <= k
          IN CASE items[i] = "transport=grpc" -> <<"grpc">>
               [] items[i] \in {"transport=rest", "transport=rest#2"} -> <<"rest">>
               \* the ORDER in which the transports are requested is irrelevant: gRPC is the default whenever it is requested
               [] items[i] = "transport=rest+grpc" -> <<"rest", "grpc">>
               [] OTHER -> <<"grpc", "rest">>

-----------------------------------------------------------------------------
VARIABLES req, stage, opts, package, naming, protos, todo, emitted, features,
          subs        \* target files that live in a proto sub-package: [mod, sub (path segments below the root)]
vars == <<req, stage, opts, package, naming, protos, todo, emitted, features, subs>>

None == [none |-> TRUE]

Pairs(S) == {p \in S \X S : p[1] # p[2]}
Singles(S) == {<<x>> : x \in S}

Twin1 == [proto |-> "lib.admin", mod |-> "lib_admin"]
Twin2 == [proto |-> "lib_admin", mod |-> "lib_admin"]
FilesChoices ==
  CASE Scope = "twins"   -> {<<Twin1, Twin2>>, <<Twin2, Twin1>>}
    [] Scope = "names"   -> {<<[proto |-> "lib", mod |-> "lib"]>>}
    [] Scope = "subpkg"  -> {<<[proto |-> "lib", mod |-> "lib"]>>, <<[proto |-> "lib", mod |-> "lib"], [proto |-> "lib.admin", mod |-> "lib_admin"]>>}
    [] Scope = "ads"     -> {<<[proto |-> "lib", mod |-> "lib"]>>, <<[proto |-> "lib", mod |-> "lib"], [proto |-> "lib.admin", mod |-> "lib_admin"]>>}
    \* pairs in both orders: the FIRST file holds the shared messages, the last one the services - with the special file first,
    \* its types are referenced from another file
    [] Scope = "shapes"  -> Singles(FileTable \ {Twin2}) \cup {p \in Pairs(FileTable \ {Twin2}) : p[1].proto = "lib" \/ p[2].proto = "lib"}
    [] Scope = "options" -> {<<[proto |-> "lib", mod |-> "lib"]>>}
    [] OTHER             -> {<<[proto |-> "lib", mod |-> "lib"]>>, <<[proto |-> "lib", mod |-> "lib"], [proto |-> "import", mod |-> "import_"]>>,
                             <<[proto |-> "import", mod |-> "import_"], [proto |-> "lib", mod |-> "lib"]>>}
SvcChoices ==
  CASE Scope = "names"   -> {<<GateNamed>>, <<[camel |-> "Library", snake |-> "library"]>>, <<[camel |-> "Library", snake |-> "library"], GateNamed>>}
    [] Scope = "shapes"  -> {<<>>} \cup Singles(SvcTable) \cup Pairs(SvcTable)
    [] Scope = "options" -> Singles({[camel |-> "Library", snake |-> "library"]})
    [] OTHER             -> Singles({[camel |-> "Library", snake |-> "library"]})
                            \cup {<<[camel |-> "Library", snake |-> "library"], [camel |-> "BookAdmin", snake |-> "book_admin"]>>,
                                  <<[camel |-> "BookAdmin", snake |-> "book_admin"], [camel |-> "Library", snake |-> "library"]>>}
KindChoices ==
  CASE Scope = "subpkg"  -> {<<"unary">>, <<"paged", "lro">>}
    [] Scope = "names"   -> {<<"unary">>, <<"unary", "paged">>, <<>>}      \* <<>>: services that declare no RPC at all
    [] Scope = "ads"     -> {<<"unary">>, <<"unary", "paged">>}
    [] Scope = "shapes"  -> Singles(MethodKinds) \cup {<<"unary", k>> : k \in MethodKinds \ {"unary"}}
    [] Scope = "options" -> {<<"unary", "paged">>}
    [] OTHER             -> {<<"unary">>, <<"paged", "lro">>}
PkgChoices ==
  CASE Scope = "shapes"  -> NsChoices \X {"lib"} \X VerChoices
    [] Scope = "ads"     -> {<<>>, <<"acme">>, <<"big", "corp">>} \X {"lib"} \X {"", "v1"}
    \* (an unversioned package admits no sub-packages: "All protos must have the same proto package up to and including the version")
    [] Scope = "subpkg"  -> {<<>>, <<"acme">>, <<"big", "corp">>} \X {"lib"} \X {"v1", "v1beta1"}
    [] Scope = "options" -> {<<<<"acme">>, "lib", "v1">>}
    [] OTHER             -> {<<<<"acme">>, "lib", "v1">>, <<<<>>, "lib", "">>}
AdsItems == <<"python-gapic-templates=ads-templates", "old-naming">>
OptChoices ==
  CASE Scope = "names"   -> {<<>>, <<"transport=rest">>, <<"transport=grpc+rest", "metadata">>}
    [] Scope = "ads"     -> {AdsItems, <<"transport=grpc+rest">> \o AdsItems, <<"transport=rest", "metadata">> \o AdsItems,
                             AdsItems \o <<"foo=bar">>}
    [] Scope = "shapes"  -> {<<"transport=grpc">>, <<"transport=rest", "metadata">>, <<"transport=grpc+rest", "metadata">>,
                             <<"autogen-snippets=false">>}
    [] Scope = "options" -> {<<>>} \cup Singles(OptItems) \cup Pairs(OptItems)
    [] OTHER             -> {<<>>, <<"transport=rest">>, <<"transport=grpc+rest", "metadata">>}

\* extra: "kw" adds an RPC named by a Python keyword (Import); "internal" = selective generation with
\* generate_omitted_as_internal listing only the first RPC of the first service; "reserved" adds a request
\* field named by a reserved word (class)
ExtraChoices ==
  CASE Scope = "shapes"  -> {"none", "kw", "internal"}
    [] Scope \in {"options", "twins"} -> {"none"}
    [] Scope = "ads"     -> {"none", "reserved"}
    [] Scope = "subpkg"  -> {"subpkg"}
    \* "nounv": the service YAML switches the unversioned convenience package off
    \* (python_settings.experimental_features.unversioned_package_disabled) - everything else is emitted as usual
    \* "svcfile": the services live in one more target file (lib_service.proto) that declares NO message and no enum - it still gets
    \* its (empty) types module: exactly one types module per target file
    [] Scope = "names"   -> {"none", "nounv", "svcfile"}
    [] OTHER             -> {"none", "kw", "internal", "reserved", "xreq", "sibdep"}
\* "subpkg": one more TARGET file in the proto sub-package <package>.admin (admin/adm.proto, message AdminThing, used by a root
\* message, hence listed BEFORE the root files in the request): its types module lives under <root>/admin/types/
\* "xreq" adds an RPC (Xcheck) whose request message lives in the dependency package (so the dependency file is there);
\* "sibdep": the dependency file's package extends the LAST SEGMENT of the target package (acme.lib.v1beta1 next to
\* acme.lib.v1, acme.libs next to acme.lib) - it is a different package, not a sub-package, and stays a dependency
Requests == { r \in [ pkg : PkgChoices, files : FilesChoices, svcs : SvcChoices, kinds : KindChoices,
                      dep : BOOLEAN, items : OptChoices, extra : ExtraChoices ] :
                /\ (r.extra \in {"xreq", "sibdep"} => r.dep)
                \* (scope ads: the reserved-word request field only with the plain Ads option list, one service, no dependency file)
                /\ (Scope = "ads" /\ r.extra = "reserved" => r.items = AdsItems /\ Len(r.svcs) = 1 /\ ~r.dep) }

Init == /\ req \in Requests
        /\ stage = "start" /\ opts = None /\ package = <<>> /\ naming = None /\ protos = <<>>
        /\ todo = <<>> /\ emitted = <<>> /\ features = {} /\ subs = <<>>

-----------------------------------------------------------------------------
(* ParseOptions: permissive; unknown keys are dropped.  Named deviations   *)
(* the property does not forbid: a boolean flag is true whenever it is     *)
(* present, whatever its value; the FIRST transport item wins.             *)
ParseOptions ==
  /\ stage = "start"
  /\ opts' = [ transport |-> FirstTransport(req.items),
               metadata  |-> Has(req.items, "metadata") \/ Has(req.items, "metadata=false"),
               \* old-naming switches the snippets off (they are not correct for the Ads templates)
               snippets  |-> ~Has(req.items, "autogen-snippets=false") /\ ~Has(req.items, "old-naming"),
               ads       |-> Has(req.items, "python-gapic-templates=ads-templates"),
               old       |-> Has(req.items, "old-naming"),
               numeric   |-> Has(req.items, "rest-numeric-enums"),
               \* a repeated python-gapic-name: the LAST occurrence counts (as for the other single-valued options)
               nameOv    |-> LET idx == {i \in 1..Len(req.items) : req.items[i] \in {"python-gapic-name=book_store", "python-gapic-name=lending"}}
                             IN IF idx = {} THEN ""
                                ELSE IF req.items[CHOOSE j \in idx : \A k \in idx : k <= j] = "python-gapic-name=lending" THEN "lending" ELSE "book_store",
               nsOv      |-> IF Has(req.items, "python-gapic-namespace=Big.Corp") THEN <<"big", "corp">> ELSE <<>>,
               hasNsOv   |-> Has(req.items, "python-gapic-namespace=Big.Corp") ]
  /\ stage' = "opts"
  /\ UNCHANGED <<req, package, naming, protos, todo, emitted, features, subs>>

PkgSegs(r) == r.pkg[1] \o <<r.pkg[2]>> \o (IF r.pkg[3] = "" THEN <<>> ELSE <<r.pkg[3]>>)

SelectPackage ==
  /\ stage = "opts"
  /\ package' = PkgSegs(req)            \* common prefix of the packages of the files to generate
  /\ stage' = "pkg"
  /\ UNCHANGED <<req, opts, naming, protos, todo, emitted, features, subs>>

BuildNaming ==
  /\ stage = "pkg"
  /\ LET hasV == Len(package) > 0 /\ Last(package) \in VersionSegs
         core == IF hasV THEN Front(package) ELSE package
         ver  == IF hasV THEN Last(package) ELSE ""
         nm   == IF opts.nameOv # "" THEN opts.nameOv ELSE Last(core)
         ns   == IF opts.hasNsOv THEN opts.nsOv ELSE Front(core)
     IN naming' = [ ns |-> ns, name |-> nm, version |-> ver,
                    versioned |-> IF ver = "" THEN nm ELSE nm \o (IF opts.old THEN "." ELSE "_") \o ver ]
  /\ stage' = "named"
  /\ UNCHANGED <<req, opts, package, protos, todo, emitted, features, subs>>

LoadProtos ==
  /\ stage = "named"
  \* two files whose names sanitise to the same module: files are visited in request order, the later one is disambiguated
  /\ protos' = [i \in 1..Len(req.files) |->
                  [mod |-> IF \E j \in 1..(i-1) : req.files[j].mod = req.files[i].mod THEN req.files[i].mod \o "_" ELSE req.files[i].mod,
                   target |-> TRUE]]
                 \o (IF req.dep THEN <<[mod |-> "dep", target |-> FALSE]>> ELSE <<>>)
  /\ subs' = CASE req.extra = "subpkg"  -> <<[mod |-> "adm", sub |-> <<"admin">>]>>
                [] req.extra = "svcfile" -> <<[mod |-> "lib_service", sub |-> <<>>]>>        \* (same shape: one more target module)
                [] OTHER -> <<>>
  /\ todo' = <<"unversioned", "root", "metadata", "services_init", "services", "types_init", "types", "samples", "other">>
  /\ stage' = "render"
  /\ UNCHANGED <<req, opts, package, naming, emitted, features>>

-----------------------------------------------------------------------------
(* Rendering.  Root = <ns...>/<name>_<version>                             *)
\* The Ads template set lays the library out as <ns...>/<name>/<version>/ (the version directory is
\* absent for an unversioned package): adjacent empty path variables must not leave empty segments.
Root == IF opts.ads THEN naming.ns \o <<naming.name>> \o (IF naming.version = "" THEN <<>> ELSE <<naming.version>>)
        ELSE naming.ns \o <<naming.versioned>>
URoot == naming.ns \o <<naming.name>>          \* the unversioned convenience package
Services == Range(req.svcs)
HasT(t) == Has(opts.transport, t)
HasPaged == Has(req.kinds, "paged")

ServiceFiles(s) ==
  LET b == Root \o <<"services", s.snake>>
      t == b \o <<"transports">>
  IN {b \o <<"__init__.py">>, b \o <<"client.py">>, t \o <<"__init__.py">>, t \o <<"base.py">>}
     \cup (IF opts.ads THEN {} ELSE {t \o <<"README.rst">>})
     \cup (IF HasT("grpc") THEN {t \o <<"grpc.py">>} ELSE {})
     \cup (IF HasT("grpc") /\ ~opts.ads THEN {b \o <<"async_client.py">>, t \o <<"grpc_asyncio.py">>} ELSE {})   \* the Ads set has no asyncio surface
     \cup (IF HasT("rest") THEN {t \o <<"rest.py">>, t \o <<"rest_base.py">>} ELSE {})
     \cup (IF HasPaged THEN {b \o <<"pagers.py">>} ELSE {})

FamilyFiles(f) ==
  CASE f = "unversioned" /\ req.extra = "nounv" -> {}
    [] f = "unversioned"   -> IF opts.ads THEN {URoot \o <<"py.typed">>} \cup (IF naming.version = "" THEN {} ELSE {URoot \o <<"__init__.py">>})
                              ELSE IF naming.version = "" THEN {} ELSE {URoot \o <<"__init__.py">>, URoot \o <<"gapic_version.py">>, URoot \o <<"py.typed">>}
    [] f = "root"          -> {Root \o <<"__init__.py">>, Root \o <<"gapic_version.py">>} \cup (IF opts.ads THEN {} ELSE {Root \o <<"py.typed">>})
                              \cup {Root \o subs[i].sub \o <<"__init__.py">> : i \in 1..Len(subs)}
    \* the Ads gapic_metadata.json template is commented out: it renders empty and empty files are not emitted
    [] f = "metadata"      -> IF opts.metadata /\ ~opts.ads THEN {Root \o <<"gapic_metadata.json">>} ELSE {}
    [] f = "services_init" -> {Root \o <<"services", "__init__.py">>}
    [] f = "services"      -> UNION {ServiceFiles(s) : s \in Services}
    [] f = "types_init"    -> {Root \o <<"types", "__init__.py">>} \cup {Root \o subs[i].sub \o <<"types", "__init__.py">> : i \in 1..Len(subs)}
    [] f = "types"         -> {Root \o <<"types", protos[i].mod \o ".py">> : i \in {j \in 1..Len(protos) : protos[j].target}}
                              \cup {Root \o subs[i].sub \o <<"types", subs[i].mod \o ".py">> : i \in 1..Len(subs)}
    [] f = "samples"       -> IF opts.snippets /\ Services # {}
                              THEN {<<"samples", "generated_samples", "snippet_metadata.json">>} ELSE {}
    [] OTHER               -> {<<"setup.py">>, <<"noxfile.py">>}

Render ==
  /\ stage = "render" /\ todo # <<>>
  /\ LET new == FamilyFiles(Head(todo))
     IN emitted' = emitted \o SetToSeq(new)
  /\ todo' = Tail(todo)
  /\ UNCHANGED <<req, stage, opts, package, naming, protos, features, subs>>

Respond ==
  /\ stage = "render" /\ todo = <<>>
  /\ features' = {"PROTO3_OPTIONAL"}
  /\ stage' = "done"
  /\ UNCHANGED <<req, opts, package, naming, protos, todo, emitted, subs>>

Next == ParseOptions \/ SelectPackage \/ BuildNaming \/ LoadProtos \/ Render \/ Respond
Spec == Init /\ [][Next]_vars

-----------------------------------------------------------------------------
(* Observables predicted for a finished run                                *)
Under(prefix, n) == Len(n) >= Len(prefix) /\ SubSeq(n, 1, Len(prefix)) = prefix
Emitted == Range(emitted)
TypesModules == {n \in Emitted : Under(Root \o <<"types">>, n) /\ Len(n) = Len(Root) + 2 /\ Last(n) # "__init__.py"}
                \cup {n \in Emitted : \E i \in 1..Len(subs) : n = Root \o subs[i].sub \o <<"types", subs[i].mod \o ".py">>}
ServicePkgs == {SubSeq(n, 1, Len(Root) + 2) : n \in {m \in Emitted : Under(Root \o <<"services">>, m) /\ Len(m) > Len(Root) + 2}}
TransportFiles == {n \in Emitted : Len(n) = Len(Root) + 4 /\ Under(Root \o <<"services">>, n) /\ n[Len(Root) + 3] = "transports"
                                   /\ Last(n) \in {"grpc.py", "grpc_asyncio.py", "rest.py", "rest_base.py", "rest_asyncio.py"}}
Registry == (IF HasT("grpc") THEN (IF opts.ads THEN <<"grpc">> ELSE <<"grpc", "grpc_asyncio">>) ELSE <<>>) \o (IF HasT("rest") THEN <<"rest">> ELSE <<>>)
DefaultTransport == Head(Registry)
Pagers == {n \in Emitted : Last(n) = "pagers.py"}
\* gapic_metadata.json: service -> client kind -> client class ; rpc list is checked by the harness from the case
MetadataKinds == (IF HasT("grpc") THEN {"grpc", "grpc-async"} ELSE {}) \cup (IF HasT("rest") THEN {"rest"} ELSE {})
\* sample inventory (C14): per service and rpc one sync sample and, with grpc, one async sample
SampleKinds == IF ~opts.snippets THEN {} ELSE {"sync"} \cup (IF HasT("grpc") THEN {"async"} ELSE {})

\* import path directories of the package: every prefix of an emitted .py below the namespace root
IsPy(n) == \E k \in {"__init__.py", "client.py", "async_client.py", "base.py", "grpc.py", "grpc_asyncio.py", "rest.py",
                     "rest_base.py", "pagers.py", "gapic_version.py"} : Last(n) = k
DirsOf(n) == {SubSeq(n, 1, k) : k \in (Len(Root))..(Len(n) - 1)}

-----------------------------------------------------------------------------
(* The properties, on the specification itself                             *)
Done == stage = "done"
Normalised(n) == Len(n) >= 1 /\ \A i \in 1..Len(n) : n[i] \notin {"", ".", ".."}
Inv_Unique == Len(emitted) = Cardinality(Emitted)
Inv_Normalised == \A n \in Emitted : Normalised(n)
Inv_InitPy == Done => \A n \in Emitted : (Under(Root, n) /\ IsPy(n)) => \A d \in DirsOf(n) : d \o <<"__init__.py">> \in Emitted
Inv_TypesExact == Done => Cardinality(TypesModules) = Len(req.files) + Len(subs)
Inv_NoDepOutput == Done => \A n \in Emitted : Last(n) # "dep.py"
Inv_ServicesExact == Done => Cardinality(ServicePkgs) = Len(req.svcs)
Inv_Transports == Done => \A n \in TransportFiles :
                     /\ (Last(n) \in {"grpc.py", "grpc_asyncio.py"} => HasT("grpc"))
                     /\ (Last(n) \in {"rest.py", "rest_base.py"} => HasT("rest"))
Inv_Default == Done => DefaultTransport = IF HasT("grpc") THEN "grpc" ELSE "rest"
Inv_Feature == Done => "PROTO3_OPTIONAL" \in features
Inv_RootFromPackage == stage \in {"named", "render", "done"} /\ opts.nameOv = "" /\ ~opts.hasNsOv =>
                         /\ naming.ns = req.pkg[1] /\ naming.name = req.pkg[2] /\ naming.version = req.pkg[3]
\* unknown options never change what is emitted: compared by the harness on pairs of cases with equal Known()
Known(items) == SelectSeq(items, LAMBDA x : x \notin {"foo=bar", "foo=a=b", "unknownflag", "python-gapic-bogus=1"})

(* File-level rules used when ONE Render step is observed as several File events (PipelineTrace):     *)
(* what a single emitted name must satisfy, and what must be there when the response is assembled.  *)
SvcSnakes == {s.snake : s \in Services}
TargetMods == {protos[i].mod : i \in {j \in 1..Len(protos) : protos[j].target}} \cup {subs[i].mod : i \in {j \in 1..Len(subs) : subs[j].sub = <<>>}}
TransportGate(f) == CASE f = "grpc.py" -> HasT("grpc")
                      [] f = "grpc_asyncio.py" -> HasT("grpc") /\ ~opts.ads
                      [] f \in {"rest.py", "rest_base.py"} -> HasT("rest")
                      [] f = "rest_asyncio.py" -> FALSE          \* only with rest_async_io_enabled (not in this model)
                      [] OTHER -> TRUE
\* Named deviation (what the code does, not forbidden by the property): for an unversioned package the
\* templates of the convenience package %name/ and of %name_%version/ denote the same names; the later
\* rendering replaces the earlier one in the output dictionary, so the response names stay unique.
\* In the Ads set %version/__init__.py and %version/%sub/__init__.py denote the same name as well.
Overlay(n) == \/ naming.version = "" /\ Under(URoot, n) /\ Len(n) = Len(URoot) + 1
              \/ opts.ads /\ n = Root \o <<"__init__.py">>
Allowed(n) ==
  /\ Normalised(n)
  /\ (n \notin Emitted \/ Overlay(n))
  /\ (Under(Root \o <<"types">>, n) /\ Len(n) = Len(Root) + 2 /\ Last(n) # "__init__.py")
        => \E m \in TargetMods : Last(n) = m \o ".py"
  /\ (Under(Root \o <<"services">>, n) /\ Len(n) > Len(Root) + 2) => n[Len(Root) + 2] \in SvcSnakes
  /\ (Under(Root \o <<"services">>, n) /\ Len(n) = Len(Root) + 4 /\ n[Len(Root) + 3] = "transports") => TransportGate(Last(n))
  /\ (Under(Root \o <<"services">>, n) /\ Len(n) = Len(Root) + 3 /\ Last(n) = "async_client.py") => (HasT("grpc") /\ ~opts.ads)
  /\ (Under(Root, n) /\ Last(n) = "gapic_metadata.json") => (opts.metadata /\ ~opts.ads)
Required == UNION {FamilyFiles(f) : f \in {"root", "metadata", "services_init", "services", "types_init", "types"}}

(* gapic_metadata.json and the keyword fix-up table (C15)                                            *)
Cap == [unary |-> "Unary", paged |-> "Paged", lro |-> "Lro", sstream |-> "Sstream", cstream |-> "Cstream",
        bidi |-> "Bidi", void |-> "Void"]
Rpcs == [j \in 1..Len(req.kinds) |-> [name |-> "M" \o ToString(j - 1) \o Cap[req.kinds[j]],
                                       snake |-> "m" \o ToString(j - 1) \o "_" \o req.kinds[j]]]
        \* ... and one whose LOWER-CASED name is a keyword although its snake-cased name is not (NonLocal -> non_local_)
        \o (IF req.extra = "kw" THEN <<[name |-> "Import", snake |-> "import_"], [name |-> "NonLocal", snake |-> "non_local_"]>> ELSE <<>>)
        \o (IF req.extra = "xreq" THEN <<[name |-> "Xcheck", snake |-> "xcheck"]>> ELSE <<>>)
\* with "internal", only the first RPC of the first service stays public
IsInternal(si, ri) == req.extra = "internal" /\ ~(si = 1 /\ ri = 1)
SvcInternal(si) == \E ri \in 1..Len(Rpcs) : IsInternal(si, ri)
ClientMethod(si, ri) == (IF IsInternal(si, ri) THEN "_" ELSE "") \o Rpcs[ri].snake
ClientName(si, async) == (IF SvcInternal(si) THEN "Base" ELSE "") \o req.svcs[si].camel \o (IF async THEN "AsyncClient" ELSE "Client")
Metadata == [ protoPackage |-> package, libraryPackage |-> Root,
              services |-> { [ service |-> req.svcs[si].camel,
                               clients |-> { [kind |-> k, client |-> ClientName(si, k = "grpc-async"),
                                              rpcs |-> { [rpc |-> Rpcs[ri].name, method |-> ClientMethod(si, ri)] : ri \in 1..Len(Rpcs) }]
                                             : k \in MetadataKinds } ] : si \in 1..Len(req.svcs) } ]
\* the carrier request message: declaration order name, [class], page_size, owner(proto3 optional AND required), page_token, filter(required)
\* (explicit presence does not make a REQUIRED field any less required: it still stands in the leading group; seed C15-12)
ReqFieldsDecl == <<"name">> \o (IF req.extra = "reserved" THEN <<"class_">> ELSE <<>>) \o <<"page_size", "owner", "page_token", "filter">>
ReqRequired == {"owner", "filter"}
FixupParams == SelectSeq(ReqFieldsDecl, LAMBDA f : f \in ReqRequired) \o SelectSeq(ReqFieldsDecl, LAMBDA f : f \notin ReqRequired)
\* keyed by the snake-cased RPC name (not the client method name): Import -> "import"
FixupKey(ri) == IF Rpcs[ri].name = "Import" THEN "import" ELSE IF Rpcs[ri].name = "NonLocal" THEN "non_local" ELSE Rpcs[ri].snake
\* the dependency-package request of Xcheck: name, payload (a message), note (required) -- every field is a keyword of the call
DepReqDecl == <<"name", "payload", "note">>
DepReqRequired == {"note"}
DepFixupParams == SelectSeq(DepReqDecl, LAMBDA f : f \in DepReqRequired) \o SelectSeq(DepReqDecl, LAMBDA f : f \notin DepReqRequired)
Fixup == IF req.svcs = <<>> THEN {}
         ELSE { [key |-> FixupKey(ri), params |-> IF Rpcs[ri].name = "Xcheck" THEN DepFixupParams ELSE FixupParams] : ri \in 1..Len(Rpcs) }
\* every (service, rpc) exactly once per client kind
Inv_MetadataOnce == Done => \A s \in Metadata.services : \A c \in s.clients :
                      Cardinality({r.rpc : r \in c.rpcs}) = Cardinality(c.rpcs) /\ Cardinality(c.rpcs) = Len(Rpcs)
Inv_ClientNamesDistinct == Done => \A s \in Metadata.services :
                      \A c1, c2 \in s.clients : (c1.kind \in {"grpc", "rest"} /\ c2.kind = "grpc-async") => c1.client # c2.client

Clients == UNION {{ClientName(si, FALSE)} \cup (IF HasT("grpc") /\ ~opts.ads THEN {ClientName(si, TRUE)} ELSE {}) : si \in 1..Len(req.svcs)}

Case == [ req |-> req, opts |-> opts,
          expect |-> [ root |-> Root, types |-> TypesModules, svcpkgs |-> ServicePkgs, transports |-> TransportFiles,
                       clients |-> Clients, registry |-> Registry, default |-> DefaultTransport, pagers |-> Pagers,
                       metadataJson |-> opts.metadata /\ ~opts.ads, metadataKinds |-> MetadataKinds,
                       snippetMeta |-> opts.snippets /\ Services # {}, sampleKinds |-> SampleKinds,
                       metadata |-> Metadata, fixup |-> Fixup, rpcs |-> Rpcs,
                       strict |-> {n \in Emitted : Under(Root, n)} ] ]
Emit == Done => PrintT(<<"CASE", ToJson(Case)>>)
=============================================================================
