CONSTANT Scope = "ads"
SPECIFICATION Spec
INVARIANT Emit
