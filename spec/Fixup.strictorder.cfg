CONSTANTS Mutant = "none" NPs = {3, 4} MaxPos = 5 MaxArgs = 5 MaxArgsOther = 2 MaxKwFixed = 3
SPECIFICATION Spec
INVARIANT EvalOrderStrict
