CONSTANTS MaxParams = 1 MaxVars = 1 Pool = "keyword" MaxCalls = 1 OptFields = {} MaxPages = 1 Mutant = "none"
SPECIFICATION Spec
INVARIANT Emit
