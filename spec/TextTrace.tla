----------------------------- MODULE TextTrace -----------------------------
(***************************************************************************)
(* Batched trace validation for Text (code -> spec).  TRACE_FILE holds     *)
(*   [ {fn, events: [ {ev:"in_*", ..}, {ev:"par_*", ..}, {ev:"out_*", ..} ]} .. ]                                   *)
(* one trace per call of the REAL function:                                *)
(*   wrap / rst : in_text {toks}            par_wrap {width, indent, offset} / par_rst {width, indent, nl, fmt}          *)
(*                out_text {atoms, raised}  (atoms lexed from the returned string, raised = exception class or "")  *)
(*   fixws      : in_src {src}              par_fix {ending}                                                        *)
(*                out_fix {lines, again, parses, ast_same}   (lines [i, t, r] projected from the real texts)        *)
(*   embed      : in_text {toks}            par_embed {origin}                                                      *)
(*                out_embed {compiles, rest_same, hasdoc, ndoc, words}  (from compile()/ast of the emitted module)  *)
(* Every action is  IsEvent(name) /\ <action of Text> with the logged      *)
(* values;  Check (not an event) evaluates the post-conditions of Text on  *)
(* the logged (input, parameters, output).                                 *)
(*                                                                         *)
(* TextTrace.cfg          : Inv_Post is an INVARIANT - the batch stops at  *)
(*                          the first observation that violates a clause   *)
(*                          (PagerTrace conventions, ACCEPTED = prefix).   *)
(* TextTrace.classify.cfg : no invariant; every trace gets a verdict in    *)
(*                          ONE run: a REJECT line (clauses + class, both  *)
(*                          decided here) per violating observation,       *)
(*                          register 3 counts them.  Needed because one    *)
(*                          defect of wrap() makes thousands of inputs     *)
(*                          fail and verdicts must stay total.             *)
(***************************************************************************)
EXTENDS Text, IOUtils, TLCExt
VARIABLES tid, l
Traces == JsonDeserialize(IOEnv.TRACE_FILE)
N == Len(Traces)
tvars == <<vars, tid, l>>
Ev == Traces[tid].events

ResetFor(t) == /\ stage' = "input" /\ fn' = Traces[t].fn /\ items' = <<>> /\ inp' = <<>>
               /\ par' = None /\ out' = None /\ verdict' = {}
TInit == /\ tid = 1 /\ l = 1 /\ TLCSet(1, 0) /\ TLCSet(2, <<0, 0>>) /\ TLCSet(3, 0)
         /\ stage = "input" /\ fn = Traces[1].fn /\ items = <<>> /\ inp = <<>>
         /\ par = None /\ out = None /\ verdict = {}

IsEvent(e) == tid <= N /\ l <= Len(Ev) /\ Ev[l].ev = e /\ l' = l + 1 /\ tid' = tid
TInText   == IsEvent("in_text") /\ fn \in {"wrap", "rst", "embed"} /\ Call(fn, Ev[l].toks)
TInSrc    == IsEvent("in_src") /\ Call("fixws", Ev[l].src)
TParWrap  == IsEvent("par_wrap") /\ fn = "wrap"
             /\ SetParams([width |-> Ev[l].width, indent |-> Ev[l].indent, offset |-> Ev[l].offset])
TParRst   == IsEvent("par_rst") /\ fn = "rst"
             /\ SetParams([width |-> Ev[l].width, indent |-> Ev[l].indent, nl |-> Ev[l].nl, fmt |-> Ev[l].fmt])
TParFix   == IsEvent("par_fix") /\ fn = "fixws" /\ SetParams([ending |-> Ev[l].ending])
TParEmbed == IsEvent("par_embed") /\ fn = "embed" /\ SetParams([origin |-> Ev[l].origin])
TOutText  == IsEvent("out_text") /\ fn \in {"wrap", "rst"}
             /\ Return([atoms |-> Ev[l].atoms, raised |-> Ev[l].raised])
TOutFix   == IsEvent("out_fix") /\ fn = "fixws"
             /\ Return([lines |-> Ev[l].lines, again |-> Ev[l].again, parses |-> Ev[l].parses, ast_same |-> Ev[l].ast_same])
TOutEmbed == IsEvent("out_embed") /\ fn = "embed"
             /\ Return([compiles |-> Ev[l].compiles, rest_same |-> Ev[l].rest_same, hasdoc |-> Ev[l].hasdoc,
                        ndoc |-> Ev[l].ndoc, words |-> Ev[l].words])
TCheck    == /\ tid <= N /\ l = Len(Ev) + 1 /\ Check /\ UNCHANGED <<tid, l>>
TNextTrace == /\ tid <= N /\ l = Len(Ev) + 1 /\ stage = "done"
              /\ (verdict # {} =>
                    /\ PrintT(<<"REJECT", ToJson([tid |-> tid, clauses |-> SetToSeq(verdict),
                                                  class |-> ClassOf(fn, Subject, par, out, verdict)])>>)
                    /\ TLCSet(3, TLCGet(3) + 1))
              /\ TLCSet(1, tid)
              /\ tid' = tid + 1 /\ l' = 1
              /\ IF tid + 1 <= N THEN ResetFor(tid + 1) ELSE UNCHANGED vars
TNext == TInText \/ TInSrc \/ TParWrap \/ TParRst \/ TParFix \/ TParEmbed \/ TOutText \/ TOutFix \/ TOutEmbed
         \/ TCheck \/ TNextTrace
TSpec == TInit /\ [][TNext]_tvars
Progress == TLCSet(2, <<tid, l>>)          \* CONSTRAINT: remembers how far the batch got (workers 1)
Accepted == PrintT(<<"ACCEPTED", TLCGet(1)>>) /\ PrintT(<<"REACHED", TLCGet(2)>>)
            /\ PrintT(<<"REJECTED", TLCGet(3)>>) /\ TLCGet(1) = N
=============================================================================
