CONSTANTS Scope = "table" TableLo = 3 NTable = 6 MaxLen = 1 RunCalls = TRUE Transports = {"grpc", "grpc_asyncio", "rest"} FreeJitter = FALSE Mutant = "none"
SPECIFICATION Spec
INVARIANT EmitRun
