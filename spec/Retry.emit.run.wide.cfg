CONSTANTS Scope = "table" TableLo = 3 NTable = 6 MaxLen = 2 RunCalls = TRUE Transports = {"grpc", "rest"} FreeJitter = FALSE Mutant = "none"
SPECIFICATION Spec
INVARIANT EmitRun
