CONSTANTS MinVars = 1 MaxVars = 1 MaxLen = 1
  Seps = {} Letters = {"a", "b"} ValueSeps = {}
  Tails = {} Leads = {} WithCommon = FALSE WithWild = TRUE
  Perturbs = {} ValueMode = "all" Part = "visible" VRes = {"r1", "r2"} NaiveMax = 0 Mutant = "none"
SPECIFICATION Spec
INVARIANT EmitVis
