CONSTANTS MaxFeatures = 3 MinFeatures = 0 Avoid = {}
SPECIFICATION Spec
INVARIANT Inv_WF
INVARIANT Inv_Default
INVARIANT Inv_RegistryRequested
INVARIANT Inv_OneSyncClientPerService
INVARIANT Inv_AsyncIffGrpc
INVARIANT Inv_PagedLroDisjoint
