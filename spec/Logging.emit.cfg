CONSTANT Mutant = "none"
SPECIFICATION Spec
INVARIANT Emit
