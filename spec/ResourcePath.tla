---------------------------- MODULE ResourcePath ----------------------------
(***************************************************************************)
(* Resource path helpers of the emitted client (C19):                      *)
(*     <name>_path(segments...) -> str       parse_<name>_path(str) -> dict *)
(*                                                                         *)
(* A pattern is a sequence of tokens  [k, s, n]:                           *)
(*     k = "lit"    literal text  s  (a sequence of one-character strings) *)
(*     k = "var"    a single-segment variable {n}                          *)
(*     k = "multi"  the trailing multi-segment variable {n=**}             *)
(* Values and resource names are sequences of one-character strings (TLC   *)
(* cannot index strings).  An assignment is the sequence of the values of  *)
(* the variables in pattern order; the empty map is <<>>.                  *)
(*                                                                         *)
(* Build is concatenation.  Parse is written from the property text, not   *)
(* from the emitted regular expression:  Parse(p, s) is THE assignment of  *)
(* non-empty values without delimiter of the pattern ("/" allowed only in  *)
(* the trailing ** variable) whose Build is s; the empty map if there is   *)
(* none; the wildcard pattern * parses everything to the empty map.        *)
(*                                                                         *)
(* State machine (one action per step a case / a recorded trace binds to): *)
(*   Begin, Extend*, Close | ChooseWild | ChooseCommon   the pattern        *)
(*   ChooseValue*                                        the segment values *)
(*   DoBuild                                             <name>_path(args...) *)
(*   Foreign(s)        (optional) a different string is handed to parse     *)
(*   DoParse                                             parse_<name>_path  *)
(*   Compare           rebuild from the parsed segments                     *)
(*   Again             next call on the same pattern                        *)
(*                                                                         *)
(* Part = "visible" runs the second, independent machine: which helpers a  *)
(* service has to offer (VisibleResources).                                *)
(***************************************************************************)
EXTENDS Naturals, Sequences, FiniteSets, TLC, SequencesExt, FiniteSetsExt, Json

CONSTANTS MinVars, MaxVars,   \* patterns have MinVars..MaxVars variables (MinVars > 1 only to steer simulation)
          MaxLen,      \* values have 1..MaxLen characters (ValueMode = "all")
          Seps,        \* separators between two variables: subset of SepChars
          Letters,     \* non-delimiter characters of values ("a", "b" at least)
          ValueSeps,   \* separator characters that values may contain when the pattern does not use them
          Tails,       \* subset of {"plain", "multi", "single"}
          Leads,       \* subset of BOOLEAN: pattern starts with a collection id / with a variable
          WithCommon,  \* BOOLEAN: also the five common resource patterns
          WithWild,    \* BOOLEAN: also the wildcard pattern *
          Perturbs,    \* subset of {"del", "app", "pre", "sub", "ins", "trunc", "junk"}: how foreign strings are derived
          ValueMode,   \* "all" | "probe" / "probe2" (three / two fixed assignments per pattern, for the wide pattern sweep)
          Part,        \* "paths" | "visible"
          VRes,        \* resources placed in the VisibleResources part
          NaiveMax,    \* strings up to this length are also parsed by brute force (enumerator cross-check)
          Mutant       \* "none" | self-test mutants TLC must reject

VARIABLES stage, pat, args, built, str, kind, parsed, rebuilt, nsplits, matches, common, place
vars == <<stage, pat, args, built, str, kind, parsed, rebuilt, nsplits, matches, common, place>>

SepChars == {"/", "-", "_", "~", "."}
ASSUME /\ Seps \subseteq SepChars /\ ValueSeps \subseteq SepChars /\ {"a", "b"} \subseteq Letters
       /\ Letters \cap SepChars = {} /\ MaxVars \in 1..9 /\ MinVars \in 1..MaxVars

-----------------------------------------------------------------------------
(* Patterns                                                                *)
Lit(s)   == [k |-> "lit", s |-> s, n |-> ""]
Var(n)   == [k |-> "var", s |-> <<>>, n |-> n]
Multi(n) == [k |-> "multi", s |-> <<>>, n |-> n]
Wild     == <<Lit(<<"*">>)>>
IsWild(p) == p = Wild
Empty == <<>>                                   \* the empty dict

VarPos(p)   == SelectSeq([i \in 1..Len(p) |-> i], LAMBDA i : p[i].k # "lit")
NVars(p)    == Len(VarPos(p))
VarNames(p) == [j \in 1..NVars(p) |-> p[VarPos(p)[j]].n]
IsMultiVar(p, j) == p[VarPos(p)[j]].k = "multi"
LitChars(p) == UNION {Range(p[i].s) : i \in {i \in 1..Len(p) : p[i].k = "lit"}}
Delims(p)   == LitChars(p) \cap SepChars        \* the delimiters of the pattern

\* what the property quantifies over: no two adjacent variables, no empty literal, ** only last, distinct names
WFPattern(p) ==
    \/ IsWild(p)
    \/ /\ Len(p) >= 1 /\ NVars(p) >= 1
       /\ \A i \in 1..Len(p) : /\ p[i].k \in {"lit", "var", "multi"}
                               /\ (p[i].k = "lit" => Len(p[i].s) >= 1 /\ p[i].n = "")
                               /\ (p[i].k # "lit" => p[i].s = <<>> /\ p[i].n # "")
                               /\ (p[i].k = "multi" => i = Len(p))
                               /\ (i < Len(p) => (p[i].k = "lit") # (p[i+1].k = "lit"))
       /\ Cardinality(Range(VarNames(p))) = NVars(p)
       /\ \A i \in 1..Len(p) : p[i].k = "lit" => ~("{" \in Range(p[i].s) \/ "}" \in Range(p[i].s) \/ "*" \in Range(p[i].s))

Digit(i)   == ToString(i)
VarName(i) == "v" \o Digit(i)
CollId(i)  == <<"c", Digit(i)>>
Suffix     == <<"s">>                           \* singleton suffix  .../s

CommonNames == <<"billing_account", "folder", "organization", "project", "location">>
CommonPattern(c) ==
    CASE c = "billing_account" -> <<Lit(<<"b","i","l","l","i","n","g","A","c","c","o","u","n","t","s","/">>), Var("billing_account")>>
      [] c = "folder"          -> <<Lit(<<"f","o","l","d","e","r","s","/">>), Var("folder")>>
      [] c = "organization"    -> <<Lit(<<"o","r","g","a","n","i","z","a","t","i","o","n","s","/">>), Var("organization")>>
      [] c = "project"         -> <<Lit(<<"p","r","o","j","e","c","t","s","/">>), Var("project")>>
      [] c = "location"        -> <<Lit(<<"p","r","o","j","e","c","t","s","/">>), Var("project"),
                                    Lit(<<"/","l","o","c","a","t","i","o","n","s","/">>), Var("location")>>

Str(seq) == FoldLeft(LAMBDA acc, c : acc \o c, "", seq)        \* characters -> TLA+ string (for case records)
Render(p) == FoldLeft(LAMBDA acc, t : acc \o (CASE t.k = "lit" -> Str(t.s)
                                                [] t.k = "var" -> "{" \o t.n \o "}"
                                                [] OTHER -> "{" \o t.n \o "=**}"), "", p)

-----------------------------------------------------------------------------
(* Build, the domain of the property, Parse                                *)
RECURSIVE BuildFrom(_, _, _, _)
BuildFrom(p, a, i, j) == IF i > Len(p) THEN <<>>
                         ELSE IF p[i].k = "lit" THEN p[i].s \o BuildFrom(p, a, i + 1, j)
                         ELSE a[j] \o BuildFrom(p, a, i + 1, j + 1)
Build(p, a) == BuildFrom(p, a, 1, 1)

\* value v is admissible for variable j of p
InDomVal(p, j, v) == /\ Len(v) >= 1
                     /\ Range(v) \cap Delims(p) \subseteq (IF IsMultiVar(p, j) THEN {"/"} ELSE {})
InDom(p, a) == Len(a) = NVars(p) /\ \A j \in 1..NVars(p) : InDomVal(p, j, a[j])

\* Every way of cutting s[pos..] along the tokens i.. of p with non-empty values of ANY characters.
\* dot: a literal "." stands for any character (only used by the mutant that models an unescaped regex);
\* anch: the whole of s has to be consumed.
RECURSIVE Cut(_, _, _, _, _, _)
Cut(p, s, i, pos, dot, anch) ==
    IF i > Len(p) THEN (IF pos = Len(s) + 1 \/ ~anch THEN {<<>>} ELSE {})
    ELSE IF p[i].k = "lit" THEN
        LET n == Len(p[i].s) IN
        IF pos + n - 1 <= Len(s) /\ \A k \in 1..n : (s[pos + k - 1] = p[i].s[k] \/ (dot /\ p[i].s[k] = "."))
        THEN Cut(p, s, i + 1, pos + n, dot, anch) ELSE {}
    ELSE UNION { {<<SubSeq(s, pos, e)>> \o r : r \in Cut(p, s, i + 1, e + 1, dot, anch)} : e \in pos..Len(s) }

\* "s matches the pattern" in the most liberal reading (values of any characters)
Matches(p, s) == IsWild(p) \/ Cut(p, s, 1, 1, FALSE, TRUE) # {}

\* the declarative definition: candidates are filtered by the property's conditions only
Splits(p, s) == {a \in Cut(p, s, 1, 1, FALSE, TRUE) : InDom(p, a) /\ Build(p, a) = s}
\* the same over the obviously complete candidate set (small strings only; cross-checks the enumerator Cut)
NonEmptySubSeqs(s) == {SubSeq(s, i, j) : i \in 1..Len(s), j \in 1..Len(s)} \ {<<>>}
NaiveSplits(p, s) == {a \in [1..NVars(p) -> NonEmptySubSeqs(s)] : InDom(p, a) /\ Build(p, a) = s}

Parse(p, s) == IF IsWild(p) THEN Empty
               ELSE LET S == Splits(p, s) IN IF S = {} THEN Empty ELSE CHOOSE a \in S : TRUE

\* the string is inside the property's quantifier: it is a name of the pattern, or it matches in no reading.
\* (A string such as c0/a/b for c0/{v0} - matching only with a value that contains a delimiter - is outside.)
InQuantifier(p, s) == IsWild(p) \/ Splits(p, s) # {} \/ ~Matches(p, s)

-----------------------------------------------------------------------------
(* Self-test mutants (never used as oracle)                                *)
Lens(a) == [j \in 1..Len(a) |-> Len(a[j])]
RECURSIVE LexLE(_, _)
LexLE(x, y) == IF x = <<>> THEN TRUE ELSE IF Head(x) # Head(y) THEN Head(x) < Head(y) ELSE LexLE(Tail(x), Tail(y))
Least(S)    == IF S = {} THEN Empty ELSE CHOOSE a \in S : \A b \in S : LexLE(Lens(a), Lens(b))
Greatest(S) == IF S = {} THEN Empty ELSE CHOOSE a \in S : \A b \in S : LexLE(Lens(b), Lens(a))
ParseBy(m, p, s) ==
    CASE m = "none"         -> Parse(p, s)
      [] IsWild(p)          -> Empty
      [] m = "segment_only" -> Least({a \in Splits(p, s) : \A j \in 1..Len(a) : ~("/" \in Range(a[j]))})   \* [^/]+
      [] m = "unanchored"   -> Least(UNION {Splits(p, SubSeq(s, 1, e)) : e \in 0..Len(s)})                \* lost $
      [] m = "greedy"       -> Greatest(Cut(p, s, 1, 1, FALSE, TRUE))                                      \* .+ for .+?
      [] m = "dot_any"      -> Least(Cut(p, s, 1, 1, TRUE, TRUE))                                          \* unescaped "."

-----------------------------------------------------------------------------
(* The state machine                                                       *)
Alphabet == Letters \cup ValueSeps
AllowedChars(p, j) == Alphabet \ (Delims(p) \ (IF IsMultiVar(p, j) THEN {"/"} ELSE {}))
SeqsUpTo(S, n) == UNION {[1..k -> S] : k \in 1..n}
B(i) == CASE i = 1 -> <<"a">> [] i = 2 -> <<"a", "b">> [] OTHER -> <<"b">>
ProbeValue(p, j, k) == LET b == B(((k + j) % 3) + 1) IN IF IsMultiVar(p, j) THEN b \o <<"/">> \o b ELSE b
ValuesFor(p, j, sofar) ==
    IF ValueMode = "all" THEN SeqsUpTo(AllowedChars(p, j), MaxLen)
    ELSE {ProbeValue(p, j, k) : k \in {k \in 0..(IF ValueMode = "probe2" THEN 1 ELSE 2) : \A i \in 1..Len(sofar) : sofar[i] = ProbeValue(p, i, k)}}

Perturbations(s) ==
    (IF "del" \in Perturbs THEN {RemoveAt(s, i) : i \in 1..Len(s)} ELSE {})
    \cup (IF "app" \in Perturbs THEN {Append(s, c) : c \in Alphabet} ELSE {})
    \cup (IF "pre" \in Perturbs THEN {<<c>> \o s : c \in Alphabet} ELSE {})
    \cup (IF "sub" \in Perturbs THEN {[s EXCEPT ![i] = c] : i \in 1..Len(s), c \in Alphabet} \ {s} ELSE {})
    \cup (IF "ins" \in Perturbs THEN {InsertAt(s, i, c) : i \in 1..Len(s), c \in Alphabet} ELSE {})
    \cup (IF "trunc" \in Perturbs /\ Len(s) > 0 THEN {SubSeq(s, 1, Len(s) - 1)} ELSE {})      \* one perturbation each
    \cup (IF "junk" \in Perturbs THEN {s \o <<"/", "a">>} ELSE {})

NoVis == <<>>
Init == /\ stage = (IF Part = "paths" THEN "begin" ELSE "vis")
        /\ pat = <<>> /\ args = <<>> /\ built = <<>> /\ str = <<>> /\ kind = "" /\ parsed = <<>> /\ rebuilt = <<>>
        /\ nsplits = 0 /\ matches = FALSE /\ common = "" /\ place = NoVis

Rest == <<args, built, str, kind, parsed, rebuilt, nsplits, matches, place>>

\* lead: the pattern starts with collection id c;  n: name of the first variable
Begin(lead, c, n) == /\ stage = "begin"
                     /\ pat' = (IF lead THEN <<Lit(c \o <<"/">>)>> ELSE <<>>) \o <<Var(n)>>
                     /\ stage' = "extend" /\ common' = "" /\ UNCHANGED Rest
\* one more variable, separated by "/c/" (sep = "/") or by the non-slash separator itself
Extend(sep, c, n) == /\ stage = "extend" /\ NVars(pat) < MaxVars /\ sep \in SepChars
                     /\ pat' = pat \o <<Lit(IF sep = "/" THEN <<"/">> \o c \o <<"/">> ELSE <<sep>>), Var(n)>>
                     /\ UNCHANGED <<stage, common>> /\ UNCHANGED Rest
Close(tail, c) == /\ stage = "extend" /\ NVars(pat) >= MinVars
                  /\ pat' = CASE tail = "plain"  -> pat
                              [] tail = "multi"  -> [pat EXCEPT ![Len(pat)] = Multi(pat[Len(pat)].n)]
                              [] tail = "single" -> Append(pat, Lit(<<"/">> \o c))
                  /\ stage' = "values" /\ UNCHANGED common /\ UNCHANGED Rest
ChooseWild == /\ stage = "begin" /\ pat' = Wild /\ stage' = "values" /\ common' = "" /\ UNCHANGED Rest
ChooseCommon(c) == /\ stage = "begin" /\ pat' = CommonPattern(c) /\ common' = c /\ stage' = "values" /\ UNCHANGED Rest

ChooseValue(v) == /\ stage = "values" /\ Len(args) < NVars(pat)
                  /\ InDomVal(pat, Len(args) + 1, v)
                  /\ args' = Append(args, v)
                  /\ UNCHANGED <<stage, pat, built, str, kind, parsed, rebuilt, nsplits, matches, common, place>>

DoBuild == /\ stage = "values" /\ Len(args) = NVars(pat)
           /\ built' = Build(pat, args) /\ str' = built' /\ kind' = "built" /\ stage' = "string"
           /\ UNCHANGED <<pat, args, parsed, rebuilt, nsplits, matches, common, place>>

Foreign(s) == /\ stage = "string" /\ kind = "built" /\ s # built
              /\ str' = s /\ kind' = "foreign"
              /\ UNCHANGED <<stage, pat, args, built, parsed, rebuilt, nsplits, matches, common, place>>

DoParse == /\ stage = "string"
           /\ parsed' = ParseBy(Mutant, pat, str)
           /\ nsplits' = Cardinality(Splits(pat, str)) /\ matches' = Matches(pat, str)
           /\ stage' = "compare"
           /\ UNCHANGED <<pat, args, built, str, kind, rebuilt, common, place>>

Compare == /\ stage = "compare"
           /\ rebuilt' = (IF parsed # Empty THEN Build(pat, parsed) ELSE <<>>)
           /\ stage' = "done"
           /\ UNCHANGED <<pat, args, built, str, kind, parsed, nsplits, matches, common, place>>

\* the helpers are static and stateless: the next call on the same pattern starts from fresh values
Again == /\ stage = "done" /\ stage' = "values"
         /\ args' = <<>> /\ built' = <<>> /\ str' = <<>> /\ kind' = "" /\ parsed' = <<>> /\ rebuilt' = <<>>
         /\ nsplits' = 0 /\ matches' = FALSE /\ UNCHANGED <<pat, common, place>>

PathNext == \/ \E lead \in Leads : Begin(lead, CollId(0), VarName(0))
            \/ \E sep \in Seps : Extend(sep, CollId(NVars(pat)), VarName(NVars(pat)))
            \/ \E tail \in Tails : Close(tail, Suffix)
            \/ (WithWild /\ ChooseWild)
            \/ (WithCommon /\ \E i \in 1..Len(CommonNames) : ChooseCommon(CommonNames[i]))
            \/ (stage = "values" /\ Len(args) < NVars(pat) /\ \E v \in ValuesFor(pat, Len(args) + 1, args) : ChooseValue(v))
            \/ DoBuild
            \/ (stage = "string" /\ kind = "built" /\ \E s \in Perturbations(built) : Foreign(s))
            \/ DoParse \/ Compare \/ Again

-----------------------------------------------------------------------------
(* VisibleResources: which helpers a service must offer.                   *)
(* Every resource r of VRes lives in its own corner of the API:            *)
(*   service S1:  M_r (Req_r) returns (Resp_r)          [Resp_r -> Mid_r]  *)
(*                L_r (LReq_r) returns (Operation <LroResp_r, LroMeta_r>)  *)
(*   service S2:  O_r (OReq_r) returns (OResp_r)                           *)
(* and a placement says where the resource is declared / referenced.       *)
Placements == {"req_field",       \* message resource, type of a field of Req_r
               "resp_nested",     \* message resource, type of a field of Mid_r (two levels below Resp_r)
               "req_self",        \* Req_r itself carries the resource annotation
               "lro_resp",        \* message resource, field of the LRO response type
               "lro_meta_only",   \* message resource, field of the LRO metadata type only
               "ref_in_lro_resp", \* message resource, unreachable by type, named by a resource_reference on the LRO RESPONSE type
               "ref_in_req",      \* message resource, unreachable by type, named by resource_reference.type on Req_r
               "child_ref_resp",  \* message resource, unreachable by type, named by resource_reference.child_type on Resp_r
               "ref_nested",      \* message resource, named by a reference on a field of Mid_r
               "file_ref",        \* file-level resource_definition, named by a reference on Req_r
               "file_unref",      \* file-level resource_definition nobody names
               "dep_file_ref",    \* file-level resource_definition of an imported (not generated) file, named on Req_r
               "unreachable",     \* message resource neither reachable nor named
               "other_service"}   \* message resource, field of OReq_r (service S2 only)
Services == {"S1", "S2"}
N(pre, r) == pre \o "_" \o r
MsgNode(r, w) == IF w = "req_self" THEN N("Req", r) ELSE N("Res", r)
IsMessageResource(w) == w \notin {"file_ref", "file_unref", "dep_file_ref"}
Methods(r) == {[svc |-> "S1", in |-> N("Req", r), out |-> N("Resp", r), lro |-> FALSE, lroresp |-> "", lrometa |-> ""],
               [svc |-> "S1", in |-> N("LReq", r), out |-> "Operation", lro |-> TRUE, lroresp |-> N("LroResp", r), lrometa |-> N("LroMeta", r)],
               [svc |-> "S2", in |-> N("OReq", r), out |-> N("OResp", r), lro |-> FALSE, lroresp |-> "", lrometa |-> ""]}
TypeEdges(r, w) == {<<N("Resp", r), N("Mid", r)>>} \cup
    CASE w = "req_field"     -> {<<N("Req", r), N("Res", r)>>}
      [] w = "resp_nested"   -> {<<N("Mid", r), N("Res", r)>>}
      [] w = "lro_resp"      -> {<<N("LroResp", r), N("Res", r)>>}
      [] w = "lro_meta_only" -> {<<N("LroMeta", r), N("Res", r)>>}
      [] w = "other_service" -> {<<N("OReq", r), N("Res", r)>>}
      [] OTHER               -> {}
RefEdges(r, w) ==      \* <<message whose field carries the reference, resource>>
    CASE w \in {"ref_in_req", "file_ref", "dep_file_ref"} -> {<<N("Req", r), r>>}
      [] w = "ref_in_lro_resp" -> {<<N("LroResp", r), r>>}
      [] w = "child_ref_resp" -> {<<N("Resp", r), r>>}
      [] w = "ref_nested"     -> {<<N("Mid", r), r>>}
      [] OTHER                -> {}
RECURSIVE Closure(_, _)
Closure(S, E) == LET T == S \cup {e[2] : e \in {e \in E : e[1] \in S}} IN IF T = S THEN S ELSE Closure(T, E)
\* request type and response type (the LRO response type for long-running methods) of every method of the service
Roots(svc, pl) == UNION {UNION {{m.in, IF m.lro THEN m.lroresp ELSE m.out} : m \in {m \in Methods(r) : m.svc = svc}} : r \in DOMAIN pl}
Reach(svc, pl) == Closure(Roots(svc, pl), UNION {TypeEdges(r, pl[r]) : r \in DOMAIN pl})
VisibleResources(svc, pl) ==
    {r \in DOMAIN pl : IsMessageResource(pl[r]) /\ MsgNode(r, pl[r]) \in Reach(svc, pl)}
    \cup {r \in DOMAIN pl : \E e \in RefEdges(r, pl[r]) : e[1] \in Reach(svc, pl)}
\* independent statement of the same as a table (TLC checks that graph and table agree)
TableS1 == {"req_field", "resp_nested", "req_self", "lro_resp", "ref_in_lro_resp", "ref_in_req", "child_ref_resp", "ref_nested", "file_ref", "dep_file_ref"}
TableS2 == {"other_service"}
Helpers(svc, pl) == {N("res", r) : r \in VisibleResources(svc, pl)} \cup {N("common", CommonNames[i]) : i \in 1..Len(CommonNames)}

Place(r, w) == /\ stage = "vis" /\ r \notin DOMAIN place
               /\ place' = [x \in DOMAIN place \cup {r} |-> IF x = r THEN w ELSE place[x]]
               /\ UNCHANGED <<stage, pat, args, built, str, kind, parsed, rebuilt, nsplits, matches, common>>
VisDone == /\ stage = "vis" /\ DOMAIN place = VRes /\ stage' = "visdone"
           /\ UNCHANGED <<pat, args, built, str, kind, parsed, rebuilt, nsplits, matches, common, place>>
VisNext == (\E r \in VRes, w \in Placements : Place(r, w)) \/ VisDone

Next == IF Part = "paths" THEN PathNext ELSE VisNext
Spec == Init /\ [][Next]_vars

-----------------------------------------------------------------------------
(* The property, clause by clause                                          *)
Parsed == stage \in {"compare", "done"}
TypeOK == /\ stage \in {"begin", "extend", "values", "string", "compare", "done", "vis", "visdone"}
          /\ kind \in {"", "built", "foreign"} /\ Len(args) <= NVars(pat)
\* the patterns the machine builds are patterns of the property
Inv_PatternWF == stage \notin {"begin", "extend", "vis", "visdone"} => WFPattern(pat) /\ NVars(pat) <= MaxVars
\* parsing a built path returns exactly the segments (the wildcard has none)
Inv_RoundTrip == Parsed /\ kind = "built" => parsed = args
\* rebuilding from parsed segments returns the path
Inv_Inverse == stage = "done" /\ parsed # Empty => rebuilt = str
\* a string that does not match parses to the empty dict; parsed segments are always inside the domain
Inv_NoMatch == Parsed /\ ~matches => parsed = Empty
Inv_InDom == Parsed /\ parsed # Empty => InDom(pat, parsed)
\* the wildcard accepts anything (and has no segments)
Inv_Wild == Parsed /\ IsWild(pat) => parsed = Empty /\ matches
\* a trailing ** variable accepts values containing "/"
Inv_Multi == Parsed /\ kind = "built" /\ NVars(pat) > 0 /\ IsMultiVar(pat, NVars(pat)) => parsed[NVars(pat)] = args[NVars(pat)]
\* Parse is well defined on the stated domain: at most one admissible assignment builds s
Inv_Unique == Parsed => nsplits <= 1
\* the enumerator Cut loses no candidate (brute force over all sub-strings, small strings only)
Inv_Enumerator == stage = "compare" /\ Len(str) <= NaiveMax /\ ~IsWild(pat) => NaiveSplits(pat, str) = Splits(pat, str)
\* VisibleResources: graph semantics = table; the five common helpers always
Inv_Visible == stage = "visdone" =>
                 /\ VisibleResources("S1", place) = {r \in VRes : place[r] \in TableS1}
                 /\ VisibleResources("S2", place) = {r \in VRes : place[r] \in TableS2}
                 /\ \A s \in Services : Cardinality(Helpers(s, place)) = Cardinality(VisibleResources(s, place)) + 5

-----------------------------------------------------------------------------
(* spec -> code: one case per final state, with the observables the specification predicts *)
StrSeq(a) == [j \in 1..Len(a) |-> Str(a[j])]
HasDot(p) == "." \in Delims(p)
Emit == stage = "done" =>
          PrintT(<<"CASE", ToJson([pattern |-> Render(pat), names |-> VarNames(pat), common |-> common,
                                   nvars |-> NVars(pat), kind |-> kind, args |-> StrSeq(args), built |-> Str(built),
                                   str |-> Str(str), parsed |-> StrSeq(parsed), rebuilt |-> Str(rebuilt),
                                   inq |-> InQuantifier(pat, str), matches |-> matches,
                                   dotany |-> IF HasDot(pat) THEN StrSeq(ParseBy("dot_any", pat, str)) ELSE StrSeq(parsed),
                                   hasdot |-> HasDot(pat)])>>)
EmitVis == stage = "visdone" =>
          PrintT(<<"CASE", ToJson([place |-> place,
                                   s1 |-> VisibleResources("S1", place), s2 |-> VisibleResources("S2", place)])>>)
=============================================================================
