----------------------------- MODULE RestTrace -----------------------------
(***************************************************************************)
(* Batched trace validation for Rest (code -> spec).  TRACE_FILE holds     *)
(*   [ {bindings:[{verb,pid,body}..], required:[leaf..], numeric, rtype,   *)
(*      events:[ {ev:"call",  req:{leaf:[..] for every set leaf}}          *)
(*               {ev:"http",  verb, path:[seg..], query:{key:[..]},        *)
(*                            hasBody, body:{key:[..]}}                    *)
(*               {ev:"reply", reply:{name,kind,big_n,unknown}}             *)
(*               {ev:"return", rtype, result:{name,kind,big_n}}            *)
(*               {ev:"raise", type} .. ]} .. ]                             *)
(* one trace per client session on one emitted method, recorded from       *)
(* outside the emitted code (caller side and loopback HTTP server).        *)
(*                                                                         *)
(* Observable steps are  IsEvent(name) /\ <action of Rest> /\ <logged      *)
(* fields = state of the spec>;  the transport's internal steps            *)
(* (SelectBinding .. EncodeEnums, ParseReply) are taken without consuming  *)
(* an event, so every invariant of Rest is evaluated after every step.     *)
(*                                                                         *)
(* Verdicts are total in ONE run: an event that no action of the spec can  *)
(* take is reported with  PrintT(<<"REJECT", json>>)  (trace, position,    *)
(* phase and the message the specification would have sent), the trace is   *)
(* marked bad and validation resumes at the next "call" event.  Register 1 *)
(* = last trace walked to its end, register 2 = <<tid, l>> reached,        *)
(* register 3 = number of traces with at least one rejected event.         *)
(***************************************************************************)
EXTENDS Rest, IOUtils, TLCExt
VARIABLES tid, l, bad
Traces == JsonDeserialize(IOEnv.TRACE_FILE)
N == Len(Traces)
tvars == <<vars, tid, l, bad>>
Ev == Traces[tid].events

BindingsOf(t) == [i \in 1..Len(Traces[t].bindings) |->
                    [verb |-> Traces[t].bindings[i].verb, pid |-> Traces[t].bindings[i].pid,
                     body |-> Traces[t].bindings[i].body]]
RequiredOf(t) == {Traces[t].required[i] : i \in 1..Len(Traces[t].required)}
ResetCall == /\ di' = 1 /\ req' = Unset /\ sel' = 0 /\ path' = <<>> /\ hasBody' = FALSE
             /\ bodyL' = EmptyMap /\ queryL' = EmptyMap /\ dflt' = {} /\ msg' = NoMsg /\ http' = <<>>
             /\ reply' = NoReply /\ result' = NoResult /\ outcome' = ""
ResetFor(t) == /\ bindings' = BindingsOf(t) /\ required' = RequiredOf(t) /\ numeric' = Traces[t].numeric
               /\ rtype' = Traces[t].rtype /\ phase' = "idle" /\ calls' = 0 /\ log' = <<>> /\ ResetCall
TInit == /\ tid = 1 /\ l = 1 /\ bad = FALSE /\ TLCSet(1, 0) /\ TLCSet(2, <<0, 0>>) /\ TLCSet(3, 0)
         /\ bindings = BindingsOf(1) /\ required = RequiredOf(1) /\ numeric = Traces[1].numeric
         /\ rtype = Traces[1].rtype /\ phase = "idle" /\ calls = 0 /\ log = <<>>
         /\ di = 1 /\ req = Unset /\ sel = 0 /\ path = <<>> /\ hasBody = FALSE
         /\ bodyL = EmptyMap /\ queryL = EmptyMap /\ dflt = {} /\ msg = NoMsg /\ http = <<>>
         /\ reply = NoReply /\ result = NoResult /\ outcome = ""

MsgEq(m, e) == /\ m.verb = e.verb /\ m.path = e.path /\ SameMap(m.query, e.query)
               /\ m.hasBody = e.hasBody /\ SameMap(m.body, e.body)
ResEq(e) == /\ e.rtype = rtype /\ result.name = e.result.name /\ result.kind = e.result.kind
            /\ result.big_n = e.result.big_n

IsEvent(e) == tid <= N /\ l <= Len(Ev) /\ Ev[l].ev = e /\ l' = l + 1 /\ tid' = tid /\ bad' = bad
TCall   == IsEvent("call") /\ Invoke([x \in Leaves |-> IF x \in DOMAIN Ev[l].req THEN Ev[l].req[x] ELSE <<>>])
TStep   == /\ tid <= N /\ l' = l /\ tid' = tid /\ bad' = bad
           /\ (Transport \/ ParseReply)
THttp   == IsEvent("http") /\ MsgEq(msg, Ev[l]) /\ SendHttp
TReply  == IsEvent("reply") /\ ServerReply([name |-> Ev[l].reply.name, kind |-> Ev[l].reply.kind,
                                            big_n |-> Ev[l].reply.big_n, unknown |-> Ev[l].reply.unknown])
TReturn == IsEvent("return") /\ ResEq(Ev[l]) /\ Return
TRaise  == IsEvent("raise") /\ Ev[l].type = outcome /\ Raise

\* an observable phase waits for exactly one kind of event with exactly the fields the specification predicts
Waiting == phase \in {"idle", "encoded", "sent", "parsed", "refused", "rejected"}
Fits == CASE phase = "idle"    -> Ev[l].ev = "call"
          [] phase = "encoded" -> Ev[l].ev = "http" /\ MsgEq(msg, Ev[l])
          [] phase = "sent"    -> Ev[l].ev = "reply"
          [] phase = "parsed"  -> Ev[l].ev = "return" /\ ResEq(Ev[l])
          [] OTHER             -> Ev[l].ev = "raise" /\ Ev[l].type = outcome
AfterL == {j \in (l + 1)..Len(Ev) : Ev[j].ev = "call"}
NextCall == IF AfterL = {} THEN Len(Ev) + 1 ELSE CHOOSE j \in AfterL : \A k \in AfterL : j <= k
TBad == /\ tid <= N /\ Waiting
        /\ IF l > Len(Ev) THEN phase # "idle" ELSE ~Fits
        /\ PrintT(<<"REJECT", ToJson([tid |-> tid, l |-> l, phase |-> phase, msg |-> msg, outcome |-> outcome,
                                      sel |-> sel, result |-> result, rtype |-> rtype])>>)
        /\ bad' = TRUE /\ tid' = tid /\ l' = NextCall
        /\ phase' = "idle" /\ ResetCall /\ UNCHANGED <<bindings, required, numeric, rtype, calls, log>>
TNextTrace == /\ tid <= N /\ l = Len(Ev) + 1 /\ phase = "idle"
              /\ TLCSet(1, tid) /\ (IF bad THEN TLCSet(3, TLCGet(3) + 1) ELSE TRUE)
              /\ tid' = tid + 1 /\ l' = 1 /\ bad' = FALSE
              /\ IF tid + 1 <= N THEN ResetFor(tid + 1) ELSE UNCHANGED vars
TNext == TCall \/ TStep \/ THttp \/ TReply \/ TReturn \/ TRaise \/ TBad \/ TNextTrace
TSpec == TInit /\ [][TNext]_tvars
Progress == TLCSet(2, <<tid, l>>)          \* CONSTRAINT: remembers how far the batch got (workers 1)
Accepted == /\ PrintT(<<"ACCEPTED", TLCGet(1)>>) /\ PrintT(<<"REACHED", TLCGet(2)>>)
            /\ PrintT(<<"REJECTED", TLCGet(3)>>) /\ TLCGet(1) = N /\ TLCGet(3) = 0
=============================================================================
