"""Shared binding for the Pipeline specification (C01, C11, C15, and the inventory part of C14).

concretise(case.req) -> abstract API + plugin parameter string
generate_case(case)  -> real generator run (hooks on) -> projection + hook trace
"""
import json
import os
import sys

from . import absapi, gen

STD = absapi.STD_DEP_NAMES


def pkg_of(req):
    ns, name, ver = req['pkg']
    segs = list(ns) + [name] + ([ver] if ver else [])
    return segs


def concretise(req):
    """abstract request of Pipeline.tla -> (abstract API, option string)."""
    segs = pkg_of(req)
    pkg = '.'.join(segs); pdir = '/'.join(segs)
    files = []
    DEP = 'other.dep.v1'
    if req.get('extra') == 'sibdep':
        # a different package that merely starts with the characters of the target package
        DEP = pkg + ('beta1' if req['pkg'][2] else 's')
    if req['dep']:
        files.append(dict(name=DEP.replace('.', '/') + '/dep.proto', package=DEP, target=False, imports=[],
                          messages=[dict(name='Dep', fields=[dict(name='x')]),
                                    dict(name='DepReq', fields=[dict(name='name', number=4), dict(name='payload', type='Dep', number=2),
                                                                dict(name='note', required=True, number=9)])]))
    item_fields = [dict(name='name'), dict(name='id', type='int32')]
    if req['dep']:
        item_fields.append(dict(name='dep', type=f'.{DEP}.Dep'))
    msgs = [dict(name='Item', fields=item_fields),
            # field numbers deliberately do NOT follow the declaration order (the fix-up table is about declaration order)
            dict(name='Req', fields=[dict(name='name', number=7)] + ([dict(name='class', number=9)] if req.get('extra') == 'reserved' else []) +
                 [dict(name='page_size', type='int32', number=3), dict(name='owner', optional=True, required=True, number=11), dict(name='page_token', number=5),
                  dict(name='filter', required=True, number=1)]),
            dict(name='ListResp', fields=[dict(name='items', type='Item', repeated=True), dict(name='next_page_token')]),
            dict(name='Meta', fields=[dict(name='p', type='int32')])]
    if req.get('extra') == 'subpkg':
        # a target file in the proto sub-package <pkg>.admin, used by a root message: protoc lists it BEFORE the root files
        files.append(dict(name=f'{pdir}/admin/adm.proto', package=pkg + '.admin', imports=[],
                          messages=[dict(name='AdminThing', fields=[dict(name='name')])]))
        msgs[0]['fields'].append(dict(name='adm', type=f'.{pkg}.admin.AdminThing'))
    names = []
    for i, f in enumerate(req['files']):
        fd = dict(name=f"{pdir}/{f['proto']}.proto", package=pkg, messages=[], services=[])
        if i == 0:
            fd['messages'] = msgs
        else:
            fd['messages'] = [dict(name=f'Extra{i}', fields=[dict(name='x'), dict(name='item', type='Item')])]
        files.append(fd); names.append(fd['name'])
    if req.get('extra') == 'svcfile':
        # the services live in a target file of their own that declares no message and no enum
        files.append(dict(name=f'{pdir}/lib_service.proto', package=pkg, messages=[], services=[])); names.append(files[-1]['name'])
    last = files[-1]
    for s in req['svcs']:
        methods = []
        for j, k in enumerate(req['kinds']):
            m = dict(name=f'M{j}{k.capitalize()}', **{'in': 'Req', 'out': 'Item'},
                     http=[dict(verb='get', uri='/v1/{name=items/*}:m%d' % j)])
            if k == 'paged':
                m['out'] = 'ListResp'
            elif k == 'lro':
                m['out'] = 'google.longrunning.Operation'; m['lro'] = dict(resp='Item', meta='Meta')
            elif k == 'sstream':
                m['ss'] = True
            elif k == 'cstream':
                m['cs'] = True; m['http'] = []
            elif k == 'bidi':
                m['cs'] = True; m['ss'] = True; m['http'] = []
            elif k == 'void':
                m['out'] = 'google.protobuf.Empty'
                m['http'] = [dict(verb='delete', uri='/v1/{name=items/*}:m%d' % j)]
            methods.append(m)
        if req.get('extra') == 'kw':
            methods.append(dict(name='Import', **{'in': 'Req', 'out': 'Item'},
                                http=[dict(verb='post', uri='/v1/{name=items/*}:import', body='*')]))
            methods.append(dict(name='NonLocal', **{'in': 'Req', 'out': 'Item'},
                                http=[dict(verb='post', uri='/v1/{name=items/*}:nonLocal', body='*')]))
        if req.get('extra') == 'xreq':
            methods.append(dict(name='Xcheck', **{'in': f'.{DEP}.DepReq', 'out': 'Item'},
                                http=[dict(verb='post', uri='/v1/{name=items/*}:xcheck', body='*')]))
        last['services'].append(dict(name=s['camel'], methods=methods))
    items = [x.split('#')[0] for x in req['items']]
    api = dict(files=files)
    if req.get('extra') == 'internal' and req['svcs']:
        first = f"{pkg}.{req['svcs'][0]['camel']}.{method_names(req)[0]}"
        api['yaml'] = {'type': 'google.api.Service', 'config_version': 3, 'name': 'lib.example.com',
                       'publishing': {'library_settings': [{'version': pkg, 'python_settings': {'common': {
                           'selective_gapic_generation': {'methods': [first], 'generate_omitted_as_internal': True}}}}]}}
    if req.get('extra') == 'nounv':
        api['yaml'] = {'type': 'google.api.Service', 'config_version': 3, 'name': 'lib.example.com',
                       'publishing': {'library_settings': [{'version': pkg, 'python_settings': {'experimental_features': {
                           'unversioned_package_disabled': True}}}]}}
    return api, ','.join(items)


def method_names(req):
    return [f'M{j}{k.capitalize()}' for j, k in enumerate(req['kinds'])]


def write_pb2(fdp, root):
    """protoc-style <file>_pb2.py for a synthetic dependency file, so that emitted imports resolve."""
    mod = fdp.name[:-len('.proto')].replace('/', '.') + '_pb2'
    path = os.path.join(root, fdp.name[:-len('.proto')] + '_pb2.py')
    os.makedirs(os.path.dirname(path), exist_ok=True)
    deps = ''.join(f"import {d[:-len('.proto')].replace('/', '.')}_pb2\n" for d in fdp.dependency)
    with open(path, 'w') as f:
        f.write("from google.protobuf import descriptor_pool as _descriptor_pool\n"
                "from google.protobuf.internal import builder as _builder\n" + deps +
                f"DESCRIPTOR = _descriptor_pool.Default().AddSerializedFile({fdp.SerializeToString()!r})\n"
                "_globals = globals()\n"
                "_builder.BuildMessageAndEnumDescriptors(DESCRIPTOR, _globals)\n"
                f"_builder.BuildTopDescriptorsAndMessages(DESCRIPTOR, {mod!r}, _globals)\n")
    return path


def project_files(res, root):
    """purely syntactic projection of the response (DESIGN 0): names as segment lists, grouped."""
    names = [f.name.split('/') for f in res.file]
    r = list(root)
    n = len(r)
    inroot = [x for x in names if x[:n] == r]
    return dict(
        names=names,
        # types modules of the package and of its proto sub-packages (<root>/[<sub>/...]types/<module>.py)
        types=sorted(x for x in inroot if len(x) >= n + 2 and x[-2] == 'types' and x[-1] != '__init__.py' and 'services' not in x[n:]),
        svcpkgs=sorted(set(tuple(x[:n + 2]) for x in inroot if len(x) > n + 2 and x[n] == 'services')),
        transports=sorted(x for x in inroot if len(x) == n + 4 and x[n] == 'services' and x[n + 2] == 'transports'
                          and x[-1] in ('grpc.py', 'grpc_asyncio.py', 'rest.py', 'rest_base.py', 'rest_asyncio.py')),
        pagers=sorted(x for x in inroot if x[-1] == 'pagers.py'),
        metadataJson=any(x[-1] == 'gapic_metadata.json' for x in names),
        snippetMeta=any(x[-1].startswith('snippet_metadata') for x in names),
        strict=sorted(inroot),
        proto3_optional=bool(res.supported_features & 1),
    )


def trace_of(req, events):
    """hook events -> PipelineTrace events (pure field selection / regrouping)."""
    out = []
    targets = []; deps = 0
    protos_done = False
    for e in events:
        k = e['ev']
        if k == 'Options':
            out.append(dict(ev='Options', transport=e['transport'], metadata=e['metadata'],
                            snippets=e['autogen_snippets'], numeric=e['rest_numeric_enums']))
        elif k == 'Package':
            out.append(dict(ev='Package', package=e['package'].split('.') if e['package'] else []))
        elif k == 'Naming':
            out.append(dict(ev='Naming', ns=e['module_namespace'], name=e['module_name'], version=e['version'],
                            versioned=e['versioned_module_name']))
        elif k == 'Proto':
            if e['target']:
                targets.append(e['module_name'])
            else:
                deps += 1
        elif k in ('Service', 'Method', 'Sample', 'Selective'):
            continue
        elif k == 'File':
            if not protos_done:
                out.append(dict(ev='Protos', targets=targets, deps=deps)); protos_done = True
            if e['disposition'] == 'emitted':
                out.append(dict(ev='File', name=e['name']))
        elif k == 'Response':
            if not protos_done:
                out.append(dict(ev='Protos', targets=targets, deps=deps)); protos_done = True
            rendered = [tuple(x['name']) for x in out if x['ev'] == 'File']
            infiles = set(tuple(x) for x in e['files'])
            out.append(dict(ev='Response', lost=sum(1 for x in rendered if x not in infiles),
                            proto3_optional=bool(e['supported_features'] & 1)))
    # sample events come before File events in the generator; they are not part of this trace
    return dict(req=req, events=out)


def fixup_table(src):
    """METHOD_TO_PARAMS of the emitted fix-up script, read from its AST (pure projection)."""
    import ast
    try:
        tree = ast.parse(src)
    except SyntaxError as e:
        return {'__error__': str(e)}
    for node in ast.walk(tree):
        if isinstance(node, (ast.AnnAssign, ast.Assign)):
            tgt = node.target if isinstance(node, ast.AnnAssign) else node.targets[0]
            if getattr(tgt, 'id', None) == 'METHOD_TO_PARAMS' and node.value is not None:
                try:
                    return {k: list(v) for k, v in ast.literal_eval(node.value).items()}
                except Exception as e:
                    return {'__error__': str(e)}
    return {'__error__': 'METHOD_TO_PARAMS not found'}


IMPORT_PROBE = r'''
import sys, json, importlib, pkgutil, os
root, mod = sys.argv[1], sys.argv[2]
sys.path.insert(0, root)
out = dict(ok=True, errors=[], clients={}, modules=0)
try:
    m = importlib.import_module(mod)
    for x in pkgutil.walk_packages(m.__path__, m.__name__ + '.'):
        try:
            importlib.import_module(x.name); out['modules'] += 1
        except Exception as e:
            out['ok'] = False; out['errors'].append(f'{x.name}: {type(e).__name__}: {e}'[:300])
    names = sorted(n for n in dir(m) if n.endswith('Client'))
    for n in names:
        c = getattr(m, n)
        info = dict(asyncio=n.endswith('AsyncClient'))
        if not info['asyncio']:
            info['registry'] = list(c._transport_registry)
            info['default'] = c.get_transport_class().__name__
            info['by_name'] = {k: c.get_transport_class(k).__name__ for k in c._transport_registry}
        else:
            info['default'] = c.get_transport_class().__name__
        info['methods'] = sorted(a for a in dir(c) if not a.startswith('__') and callable(getattr(c, a, None)))
        out['clients'][n] = info
except Exception as e:
    out['ok'] = False; out['errors'].append(f'{mod}: {type(e).__name__}: {e}'[:300])
print(json.dumps(out))
'''


def import_probe(root_dir, module, timeout=300):
    import subprocess
    e = dict(os.environ); e.pop(gen.GUARD, None)
    r = subprocess.run([gen.PY, '-W', 'ignore', '-c', IMPORT_PROBE, root_dir, module], capture_output=True, text=True,
                       env=e, timeout=timeout, cwd=root_dir)
    try:
        return json.loads(r.stdout.strip().splitlines()[-1])
    except Exception:
        return dict(ok=False, errors=['probe crashed: ' + r.stderr[-600:]], clients={}, modules=0)


def run_case(case, want_import=True, want_sources=False):
    """Worker: generate one Pipeline case with hooks on; returns a JSON-able observation.
    Must run in a process where gen.enable_trace() was called before gapic was imported."""
    req = case['req']
    api, param = concretise(req)
    obs = dict(error=None)
    with gen.scratch() as work:
        try:
            gen.read_trace()
            full = gen.option_string(dict(extra=[param] if param else []), work, api)
            creq = absapi.build_request(api, full)
            res = gen.generate(creq)
        except Exception as e:
            obs['error'] = f'{type(e).__name__}: {e}'.replace('\n', ' ')[:400]
            obs['trace'] = trace_of(req, gen.read_trace())
            return obs
        obs['trace'] = trace_of(req, gen.read_trace())
        obs['proj'] = project_files(res, case['expect']['root'])
        bad = []
        jsons = {}
        for f in res.file:
            if f.name.endswith('.py'):
                try:
                    compile(f.content, f.name, 'exec')
                except SyntaxError as e:
                    bad.append(f'{f.name}: {e}'[:200])
            elif f.name.endswith('.json'):
                try:
                    jsons[f.name] = json.loads(f.content)
                except Exception as e:
                    bad.append(f'{f.name}: bad JSON {e}'[:200])
        obs['syntax_errors'] = bad
        obs['n_py'] = sum(1 for f in res.file if f.name.endswith('.py'))
        obs['jsons'] = {k: v for k, v in jsons.items() if k.endswith('gapic_metadata.json')}
        obs['n_json'] = len(jsons)
        obs['fixup'] = None
        for f in res.file:
            if f.name.startswith('scripts/fixup_') and f.name.endswith('_keywords.py'):
                obs['fixup'] = fixup_table(f.content)
        if want_sources:
            obs['sources'] = {f.name: f.content for f in res.file if f.name.endswith('.py')}
        # sibdep + versioned: the dependency's pb2 module would have to live INSIDE the emitted convenience package
        # (acme/lib/v1beta1/ under acme/lib/__init__.py), which makes importing it circular - an artefact of where the
        # harness would put that module, so only the file set is checked for those cases
        sib_inside = case['req'].get('extra') == 'sibdep' and bool(case['req']['pkg'][2])
        if want_import and case.get('_import', True) and not sib_inside:
            out = gen.materialise(res, os.path.join(work, 'out'))
            for fdp in creq.proto_file:
                if fdp.name not in creq.file_to_generate and not fdp.name.startswith('google/'):
                    write_pb2(fdp, out)
            obs['import'] = import_probe(out, '.'.join(case['expect']['root']))
    return obs


def get_cases(chk, tier, seed, scopes_quick=('tiny', 'options'), sim_quick=150, sim_thorough=3000, extra_scopes=()):
    """TLC: model-check the Pipeline spec and emit the cases (spec -> code).  quick: the tiny and options
    scopes exhaustively + a seeded -simulate sample of the shapes scope; thorough: all three exhaustively."""
    from . import tlc, core
    cases = []
    scopes = (list(scopes_quick) if tier == 'quick' else ['tiny', 'options', 'shapes']) + list(extra_scopes)
    for sc in scopes:
        r = tlc.run('Pipeline', f'Pipeline.{sc}.cfg', deadlock=False, timeout=1500)
        chk.add_tlc(r, f'Pipeline model check scope={sc}')
        cs, r2 = tlc.emit_cases('Pipeline', f'Pipeline.emit.{sc}.cfg', deadlock=False, timeout=1800)
        chk.add_tlc(r2, f'Pipeline case emission scope={sc}')
        cases += cs
    if tier == 'quick':
        cs, r3 = tlc.emit_cases('Pipeline', 'Pipeline.emit.shapes.cfg', deadlock=False, simulate=sim_quick, depth=20,
                                seed=seed, timeout=600)
        chk.tlc_runs.append(dict(label='Pipeline -simulate scope=shapes', **r3.summary()))
        if r3.rc not in (0,) and not cs:
            raise core.MachineryError('simulate emission failed:\n' + r3.out[-2000:])
        cases += cs
    # de-duplicate by request
    seen = {}
    for c in cases:
        seen.setdefault(json.dumps(c['req'], sort_keys=True), c)
    return list(seen.values())


def _init_worker():
    import warnings
    warnings.simplefilter('ignore')
    gen._trace_path = None      # a forked worker gets its own trace file
    gen.enable_trace()


def run_cases(cases, want_import=True, workers=14, want_sources=False):
    from concurrent.futures import ProcessPoolExecutor
    import functools
    with ProcessPoolExecutor(workers, initializer=_init_worker) as ex:
        return list(ex.map(functools.partial(run_case, want_import=want_import, want_sources=want_sources), cases, chunksize=1))
