"""./check selftest — non-vacuity and binding demonstrations (DESIGN 2, item 3).

1. Spec mutants: for each specification with a `Mutant` constant every mutant must be rejected by TLC (the invariants can fail).
2. Binding: traces recorded from the REAL code are accepted; the same traces with one logged field corrupted, or with one
   hook's events removed, are rejected.  This shows the trace specifications constrain more than the length of a trace.
Exit 0 iff everything behaves as stated; prints one line per demonstration.
"""
import copy
import json
import os
import re
import sys

from . import tlc, gen, pipeline


def mutants_of(module):
    src = open(os.path.join(tlc.SPEC, module + '.tla')).read()
    return sorted(set(re.findall(r'Mutant = "([a-z_0-9]+)"', src)) - {'none'})


def spec_mutants():
    ok = True
    table = {
        'Pager': 'Pager.small.cfg', 'Call': 'Call.small.cfg', 'Paging': 'Paging.cfg', 'Determinism': 'Determinism.cfg',
    }
    for module, cfgname in table.items():
        cfg = open(os.path.join(tlc.SPEC, cfgname)).read()
        for m in mutants_of(module):
            r = tlc.run(module, cfg.replace('Mutant = "none"', f'Mutant = "{m}"'), deadlock=False, timeout=900)
            good = r.violated not in (None, 'error', 'timeout')
            ok &= good
            print(f'{"ok  " if good else "FAIL"} spec mutant {module}/{m}: TLC reports {r.violated}')
    return ok


def pager_binding():
    from .props import c07
    from . import core
    api = c07.carrier_api()
    cases = [dict(id=f'{i}:msg', idx=i, kind='msg', pages=p, base=c07.BASES[0], md=[['x-verif-a', 'v1']], timeout=30)
             for i, p in enumerate([[dict(n=2, more=True), dict(n=0, more=True), dict(n=1, more=False)],
                                    [dict(n=1, more=False), dict(n=2, more=False)]])]
    with gen.scratch() as work:
        req, res = gen.generate_api(api, dict(transport=['grpc'], snippets=False), work)
        root = gen.materialise(res, os.path.join(work, 'out'))
        okd, out, err = gen.run_driver('harness.drivers.pager', root, dict(api=api, module=c07.MODULE, service='Pg', service_snake='pg',
                                                                         pkg=c07.PKG, methods=c07.KINDS, cases=cases, modes=['sync', 'async']))
    assert okd, err
    traces = [dict(history=t['history'], ordered=t['ordered'], events=t['events']) for t in out['traces']]
    n, r = tlc.validate_traces('PagerTrace', 'PagerTrace.cfg', traces)
    res_ok = n == len(traces)
    print(f'{"ok  " if res_ok else "FAIL"} PagerTrace accepts {n}/{len(traces)} recorded traces')
    # corrupt one field: swap two yielded items in the first trace
    bad = copy.deepcopy(traces)
    ys = [e for e in bad[0]['events'] if e['ev'] == 'yield']
    ys[0]['item'], ys[1]['item'] = ys[1]['item'], ys[0]['item']
    n2, _ = tlc.validate_traces('PagerTrace', 'PagerTrace.cfg', bad)
    print(f'{"ok  " if n2 == 0 else "FAIL"} PagerTrace rejects the batch at trace {n2 + 1} after two yielded items were swapped')
    # drop the fetch events (as if the server-side hook were missing)
    bad = copy.deepcopy(traces)
    bad[0]['events'] = [e for e in bad[0]['events'] if e['ev'] != 'fetch']
    n3, _ = tlc.validate_traces('PagerTrace', 'PagerTrace.cfg', bad)
    print(f'{"ok  " if n3 == 0 else "FAIL"} PagerTrace rejects a trace whose fetch events were removed')
    # corrupt the re-issued request: another filter value on the second fetch
    bad = copy.deepcopy(traces)
    f = [e for e in bad[0]['events'] if e['ev'] == 'fetch'][-1]
    f['others'] = f['others'].replace('a=b', 'a=c')
    n4, _ = tlc.validate_traces('PagerTrace', 'PagerTrace.cfg', bad)
    print(f'{"ok  " if n4 == 0 else "FAIL"} PagerTrace rejects a re-issued request with a changed field (Inv_Unchanged)')
    return res_ok and n2 == 0 and n3 == 0 and n4 == 0


def pipeline_binding():
    cases, _ = tlc.emit_cases('Pipeline', 'Pipeline.emit.tiny.cfg', deadlock=False)
    cases = [c for c in cases if c['req']['pkg'][0] and c['req']['extra'] == 'none' and c['req']['items']][:2]
    obs = pipeline.run_cases(cases, want_import=False, workers=2)
    traces = [o['trace'] for o in obs]
    n, _ = tlc.validate_traces('PipelineTrace', 'PipelineTrace.cfg', traces)
    ok = n == len(traces)
    print(f'{"ok  " if ok else "FAIL"} PipelineTrace accepts {n}/{len(traces)} recorded generator runs')
    bad = copy.deepcopy(traces)
    nm = [e for e in bad[0]['events'] if e['ev'] == 'Naming'][0]
    nm['version'] = 'v9'
    n2, _ = tlc.validate_traces('PipelineTrace', 'PipelineTrace.cfg', bad)
    print(f'{"ok  " if n2 == 0 else "FAIL"} PipelineTrace rejects a run whose logged version was corrupted')
    bad = copy.deepcopy(traces)
    bad[0]['events'] = [e for e in bad[0]['events'] if not (e['ev'] == 'File' and e['name'][-1] == 'client.py')]
    n3, _ = tlc.validate_traces('PipelineTrace', 'PipelineTrace.cfg', bad)
    print(f'{"ok  " if n3 == 0 else "FAIL"} PipelineTrace rejects a run in which the File event of client.py is missing (Required)')
    bad = copy.deepcopy(traces)
    fe = [e for e in bad[0]['events'] if e['ev'] == 'File'][3]
    bad[0]['events'].insert(bad[0]['events'].index(fe) + 1, copy.deepcopy(fe))
    n4, _ = tlc.validate_traces('PipelineTrace', 'PipelineTrace.cfg', bad)
    print(f'{"ok  " if n4 == 0 else "FAIL"} PipelineTrace rejects a run that renders the same file name twice (Allowed)')
    return ok and n2 == 0 and n3 == 0 and n4 == 0


def main(argv):
    gen.trace_dir()
    ok = True
    ok &= spec_mutants()
    ok &= pager_binding()
    ok &= pipeline_binding()
    print('SELFTEST', 'PASSED' if ok else 'FAILED')
    return 0 if ok else 1
