"""Run Features.tla cases through the real generator (shared by C01, C13, C10)."""
import json
import os
import random

from . import absapi, core, features, gen, pipeline, tlc


def get_cases(chk, quick, seed, n_pairs_quick=110, n_sim_quick=30, n_sim_thorough=300, only_conventional=False):
    r = tlc.run('Features', 'Features.pairs.cfg' if quick else 'Features.triples.cfg', deadlock=False, timeout=1200)
    chk.add_tlc(r, 'Features model check (%s)' % ('pairs' if quick else 'triples'))
    cases, r2 = tlc.emit_cases('Features', 'Features.emit.pairs.cfg', deadlock=False, timeout=1200)
    chk.add_tlc(r2, 'Features case emission (all pairs)')
    rnd = random.Random(seed)
    if only_conventional:
        cases = [c for c in cases if c['conventional']]
    if quick:
        singles = [c for c in cases if len(c['features']) <= 1]
        pairs = [c for c in cases if len(c['features']) > 1]
        # fixed corner pairs (feature interactions that seeded changes showed to matter) + a seeded sample
        corners = [{'f_map', 's_flatten'}, {'s_required', 'o_rest'}, {'s_required', 'o_grpc_rest'}, {'m_raw_operation', 'o_mixins'},
                   {'f_deppkg', 'm_dep_request'}, {'o_ads', 's_flatten'}, {'o_rest', 'm_paged_map'}, {'f_crossfile', 's_flatten'},
                   {'f_crossfile', 'o_ads'}, {'f_crossfile', 'f_nested'}, {'m_kw', 's_api_version'}, {'s_api_version', 'o_grpc_rest'},
                   {'m_lro', 'o_grpc_rest'}, {'m_lro', 'o_rest'}, {'f_crossfile', 'm_lro'}, {'f_deppkg', 'o_grpc_rest'}, {'f_deppkg', 'o_rest'}, {'o_ads', 'o_grpc_rest'}, {'o_ads', 'o_rest'}, {'m_lro_empty', 'o_grpc_rest'}, {'o_ads', 'm_paged_map'}]
        fixed = [c for c in pairs if set(c['features']) in corners]
        rest = [c for c in pairs if set(c['features']) not in corners]
        cases = singles + fixed + rnd.sample(rest, min(n_pairs_quick, len(rest)))
    # fixed TRIPLES (feature interactions that need three features; emitted by TLC with every other feature avoided)
    triples = [('o_grpc_rest', 'o_rest_async', 'o_mixins'), ('o_grpc_rest', 'o_rest_async', 'm_lro'), ('f_deppkg', 'm_dep_request', 'o_grpc_rest'),
               ('f_deppkg', 'm_dep_request', 's_flatten'),      # flattened arguments into a dependency-package request (own branch of the asyncio client)
               ('s_required', 'o_rest', 'o_numeric')]           # required query defaults next to the $alt system parameter
    allf = sorted({f for c in cases for f in c['features']})
    for t in triples:
        avoid = '{' + ', '.join('"%s"' % f for f in allf if f not in t) + '}'
        cs3, r4 = tlc.emit_cases('Features', f'CONSTANTS MaxFeatures = 3 MinFeatures = 3 Avoid = {avoid}\nSPECIFICATION Spec\nINVARIANT Emit\n',
                                 deadlock=False, timeout=600)
        cs3 = [c for c in cs3 if sorted(c['features']) == sorted(t)]
        if only_conventional:
            # (DESIGN section 8 admits requests from a dependency package; Features.tla keeps m_dep_request outside the profile as a
            # whole, this triple was probed on the unchanged tree: 200 emitted tests, none fails)
            cs3 = [c for c in cs3 if c['conventional'] or t == ('f_deppkg', 'm_dep_request', 's_flatten')]
        cases += cs3
    sim, r3 = tlc.emit_cases('Features', 'Features.emit.sim.cfg', deadlock=False, simulate=(n_sim_quick if quick else n_sim_thorough) * 2,
                             depth=14, seed=seed, timeout=900)
    chk.tlc_runs.append(dict(label='Features -simulate', **r3.summary()))
    if only_conventional:
        sim = [c for c in sim if c['conventional']]
    seen = {}
    for c in cases + sim[:(n_sim_quick if quick else n_sim_thorough)]:
        seen.setdefault(','.join(sorted(c['features'])), c)
    return list(seen.values())


def key_of(case):
    return 'F{' + ','.join(sorted(case['features'])) + '}'


def run_case(case, want_import=True, keep_tree=None):
    """generate one feature case; observation dict (error | syntax_errors, import, names)."""
    obs = dict(error=None)
    api, opts = features.build(case['features'])
    with gen.scratch() as work:
        try:
            creq = absapi.build_request(api, gen.option_string(opts, work, api))
            res = gen.generate(creq)
        except Exception as e:
            obs['error'] = f'{type(e).__name__}: {e}'.replace('\n', ' ')[:400]
            return obs
        bad = []
        for f in res.file:
            if f.name.endswith('.py'):
                try:
                    compile(f.content, f.name, 'exec')
                except SyntaxError as e:
                    bad.append(f'{f.name}: {e}'[:200])
            elif f.name.endswith('.json'):
                try:
                    json.loads(f.content)
                except Exception as e:
                    bad.append(f'{f.name}: bad JSON {e}'[:200])
        obs['syntax_errors'] = bad
        obs['setup'] = setup_projection(res)
        obs['n_py'] = sum(1 for f in res.file if f.name.endswith('.py'))
        obs['n_json'] = sum(1 for f in res.file if f.name.endswith('.json'))
        obs['names'] = [f.name for f in res.file]
        if want_import:
            out = gen.materialise(res, os.path.join(work, 'out'))
            for fdp in creq.proto_file:
                if fdp.name.startswith('other/'):
                    pipeline.write_pb2(fdp, out)
            obs['import'] = pipeline.import_probe(out, features.module_of(case['features']))
    return obs


def setup_projection(res):
    """declared runtime dependencies (setup.py: `dependencies`, `extras`) and the third-party modules the emitted package
    imports unconditionally (imports inside try blocks are optional).  Pure projection of the response."""
    import ast, re, sys
    deps, extras, imports = None, [], set()
    for f in res.file:
        if not f.name.endswith('.py'):
            continue
        try:
            t = ast.parse(f.content)
        except SyntaxError:
            continue
        if f.name == 'setup.py':
            for n in ast.walk(t):
                if isinstance(n, ast.Assign) and isinstance(n.targets[0], ast.Name):
                    if n.targets[0].id == 'dependencies' and isinstance(n.value, ast.List):
                        deps = [re.split(r'[ <>=!;]', e.value.strip())[0] for e in n.value.elts if isinstance(e, ast.Constant)]
                    if n.targets[0].id == 'extras' and isinstance(n.value, ast.Dict):
                        extras = [k.value for k in n.value.keys if isinstance(k, ast.Constant)]
            continue
        if f.name.split('/')[0] in ('tests', 'docs', 'samples', 'scripts', 'testing') or '/' not in f.name:
            continue

        def visit(node, guarded):
            for ch in ast.iter_child_nodes(node):
                g = guarded or isinstance(node, ast.Try)
                if isinstance(ch, ast.Import) and not g:
                    imports.update(a.name for a in ch.names)
                elif isinstance(ch, ast.ImportFrom) and not g and ch.level == 0 and ch.module:
                    imports.add(ch.module)
                visit(ch, g)
        visit(t, False)
    std = set(sys.stdlib_module_names)
    third = sorted(m for m in imports if m.split('.')[0] not in std)
    return dict(dependencies=deps, extras=extras, imports=third)


PROVIDED_BY = [   # module prefix -> distribution that must be declared (googleapis-common-protos, grpcio and requests come with google-api-core[grpc])
    ('google.api_core', 'google-api-core[grpc]'), ('google.api', 'google-api-core[grpc]'), ('google.rpc', 'google-api-core[grpc]'),
    ('google.type', 'google-api-core[grpc]'), ('google.longrunning', 'google-api-core[grpc]'), ('google.cloud.location', 'google-api-core[grpc]'),
    ('google.logging', 'google-api-core[grpc]'), ('grpc', 'google-api-core[grpc]'), ('requests', 'google-api-core[grpc]'),
    ('google.auth', 'google-auth'), ('google.oauth2', 'google-auth'), ('proto', 'proto-plus'), ('google.protobuf', 'protobuf'), ('google.protobuf', 'proto-plus'), ('google.protobuf', 'google-api-core[grpc]'),   # all three require protobuf
    ('google.iam.v1', 'grpc-google-iam-v1')]


def undeclared_imports(setup, own_prefixes):
    """third-party modules imported unconditionally by the emitted package that no declared dependency provides."""
    if not setup or setup.get('dependencies') is None:
        return ['setup.py declares no `dependencies` list']
    declared = set(setup['dependencies'])
    out = []
    for m in setup['imports']:
        if any(m == p or m.startswith(p + '.') for p in own_prefixes):
            continue
        hit = [d for pre, d in PROVIDED_BY if m == pre or m.startswith(pre + '.')]
        if not hit:
            out.append(f'{m}: provided by no distribution the generator knows')
        elif not any(d in declared for d in hit):
            out.append(f'{m}: needs {hit[0]}, declared: {sorted(declared)}')
    return out


def _init():
    import warnings
    warnings.simplefilter('ignore')


def run_cases(cases, workers=14, **kw):
    from concurrent.futures import ProcessPoolExecutor
    import functools
    with ProcessPoolExecutor(workers, initializer=_init) as ex:
        return list(ex.map(functools.partial(run_case, **kw), cases, chunksize=1))


# ---------------------------------------------------------------------------------------------------
# C13: run the emitted unit-test suite of a feature case

def classify_test(name):
    """pure name projection: test name -> (rpc snake, kind, pager)."""
    import re
    base = re.sub(r'\[.*$', '', name)
    if not base.startswith('test_'):
        return None
    body = base[len('test_'):]
    pager = bool(re.search(r'_(pager|pages)$', body))
    kind = 'grpc'
    if re.search(r'(^|_)rest(_|$)', body):
        kind = 'rest'
    elif re.search(r'_async(_|$)|_asyncio(_|$)', body):
        kind = 'grpc-async'
    return body, kind, pager


def run_tests(case, timeout=900):
    import subprocess
    import xml.etree.ElementTree as ET
    obs = dict(error=None, tests=[], failures=0, errors=0, failed_names=[])
    api, opts = features.build(case['features'])
    with gen.scratch() as work:
        try:
            creq = absapi.build_request(api, gen.option_string(opts, work, api))
            res = gen.generate(creq)
        except Exception as e:
            obs['error'] = f'generation failed: {type(e).__name__}: {e}'.replace('\n', ' ')[:400]
            return obs
        out = gen.materialise(res, os.path.join(work, 'out'))
        for fdp in creq.proto_file:
            if fdp.name.startswith('other/'):
                pipeline.write_pb2(fdp, out)
        jx = os.path.join(work, 'junit.xml')
        env = dict(os.environ); env.pop(gen.GUARD, None)
        env['PYTHONPATH'] = os.pathsep.join([out] + ([env['PYTHONPATH']] if env.get('PYTHONPATH') else []))
        try:
            p = subprocess.run([gen.PY, '-W', 'ignore', '-m', 'pytest', '-q', '-p', 'no:cacheprovider', 'tests/unit', '--junitxml', jx],
                               cwd=out, capture_output=True, text=True, env=env, timeout=timeout)
        except subprocess.TimeoutExpired:
            obs['error'] = 'emitted test-suite timed out'
            return obs
        if not os.path.exists(jx):
            obs['error'] = 'pytest produced no junit file: ' + (p.stdout[-300:] + p.stderr[-300:])
            return obs
        root = ET.parse(jx).getroot()
        names = set()
        for tc in root.iter('testcase'):
            names.add(tc.get('name'))
            bad = [c.tag for c in tc if c.tag in ('failure', 'error')]
            if bad:
                obs['failed_names'].append(tc.get('name'))
                if 'failure' in bad:
                    obs['failures'] += 1
                else:
                    obs['errors'] += 1
        obs['n_tests'] = len(names)
        # group: a test belongs to rpc r if its body starts with r + '_' or equals r; longest rpc name wins
        cands = sorted({features_snake(r) for r in case['rpcs']} | set(case['mixins']), key=len, reverse=True)
        seen = set()
        for n in names:
            c = classify_test(n)
            if not c:
                continue
            body, kind, pager = c
            for r in cands:
                if body == r or body.startswith(r + '_'):
                    seen.add((r, kind, pager))
                    if pager:
                        seen.add((r, kind, False))
                    break
        obs['tests'] = [dict(rpc=r, kind=k, pager=pg) for r, k, pg in sorted(seen)]
    return obs


def features_snake(rpc):
    import re
    return re.sub(r'(?<!^)(?=[A-Z])', '_', rpc).lower() + ('_' if rpc == 'Import' else '')


def run_tests_many(cases, workers=12):
    from concurrent.futures import ProcessPoolExecutor
    with ProcessPoolExecutor(workers, initializer=_init) as ex:
        return list(ex.map(run_tests, cases, chunksize=1))
