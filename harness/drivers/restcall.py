"""Driver for the RestCall extension: emitted REST transport with a recording interceptor against the loopback HTTP
server answering with a scripted status."""
import importlib
import json
import traceback

from harness import rt, callrun
from harness import loopback_http as lh


def main():
    pl = rt.read_payload()
    mod = importlib.import_module(pl['module'])
    tmod = importlib.import_module(f"{pl['module']}.services.things.transports")
    from google.auth.credentials import AnonymousCredentials
    state = dict(status=200, seen=[], kind='unary')

    def respond(entry):
        state['seen'].append(entry)
        st = state['status']
        if st >= 400:
            return st, json.dumps({'error': {'code': st, 'message': 'scripted', 'status': 'X'}}).encode(), {}
        if state['kind'] == 'server_streaming':
            return 200, b'[{"name": "r/a"}]', {'x-reply': '1'}
        return 200, (b'{}' if state['kind'] == 'void' else b'{"name": "r/a"}'), {'x-reply': '1'}

    def token(resp):
        # who wrote the response last (an iterator of a streamed reply is the server's until someone replaces it)
        n = getattr(resp, 'name', None)
        return {'r/a': 'server', 'r/post': 'post', 'r/postm': 'postm', None: 'server'}.get(n, f'unexpected:{n!r}')

    srv = lh.Server(respond)
    hooks = []
    Base = tmod.ThingsRestInterceptor
    names = {'unary': 'get_thing', 'void': 'delete_thing', 'server_streaming': 'watch_things'}

    class Rec(Base):
        pass
    for k, n in names.items():
        def mk(n):
            def pre(self, request, metadata):
                hooks.append('pre')
                md = list(metadata) + ([('x-verif-pre', '1')] if state['add'] else [])
                if state['pre_edit']:
                    # a NEW request object: the transport must go on with what the hook returned
                    request = type(request)(name='things/pre')
                return request, md

            def post(self, response):
                hooks.append('post')
                if state['post_edit']:
                    response = type(response)(name='r/post')
                return response

            def postm(self, response, metadata):
                hooks.append('post_with_metadata')
                state['postm_saw'] = token(response)
                state['postm_hdr'] = any(k.lower() == 'x-reply' and v == '1' for k, v in metadata)
                if state['postm_edit']:
                    response = type(response)(name='r/postm')
                return response, metadata
            return pre, post, postm
        pre, post, postm = mk(n)
        setattr(Rec, 'pre_' + n, pre)
        if hasattr(Base, 'post_' + n):
            setattr(Rec, 'post_' + n, post)
        if hasattr(Base, 'post_' + n + '_with_metadata'):
            setattr(Rec, 'post_' + n + '_with_metadata', postm)
    out = []
    try:
        T = tmod.ThingsRestTransport(host=srv.hostport, url_scheme='http', credentials=AnonymousCredentials(), interceptor=Rec())
        client = mod.ThingsClient(transport=T)
        for c in pl['cases']:
            del hooks[:]; del state['seen'][:]
            state.update(status=c['status'], kind=c['kind'], add=c['preAddsMd'], pre_edit=c['preEdits'], post_edit=c['postEdits'],
                         postm_edit=c['postmEdits'], postm_saw='none', postm_hdr=False)
            got = 'none'
            try:
                res = getattr(client, names[c['kind']])(request={'name': 'things/a'})
                if c['kind'] == 'server_streaming':
                    items = list(res)
                    got = token(items[0]) if len(items) == 1 else f'unexpected:{len(items)} items'
                elif c['kind'] == 'unary':
                    got = token(res)
                outcome = 'ok'
            except Exception as e:
                outcome = type(e).__name__
            md = any(k.lower() == 'x-verif-pre' for e in state['seen'] for k, v in e['headers'])
            names_sent = [json.loads(e['body'] or b'{}').get('name') for e in state['seen']]
            sent_req = {'things/a': 'caller', 'things/pre': 'pre'}.get(names_sent[0], f'unexpected:{names_sent[0]!r}') if names_sent else 'none'
            out.append(dict(i=c['i'], hooks=list(hooks), sent=len(state['seen']), sentMd=md, outcome=outcome, sentReq=sent_req,
                            postmSaw=state['postm_saw'], postmHdr=state['postm_hdr'], got=got))
    finally:
        srv.stop()
    rt.emit(dict(obs=out))


if __name__ == '__main__':
    try:
        main()
    except Exception:
        traceback.print_exc()
        raise SystemExit(3)
