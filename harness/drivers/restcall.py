"""Driver for the RestCall extension: emitted REST transport with a recording interceptor against the loopback HTTP
server answering with a scripted status."""
import importlib
import json
import traceback

from harness import rt, callrun
from harness import loopback_http as lh


def main():
    pl = rt.read_payload()
    mod = importlib.import_module(pl['module'])
    tmod = importlib.import_module(f"{pl['module']}.services.things.transports")
    from google.auth.credentials import AnonymousCredentials
    state = dict(status=200, seen=[], kind='unary')

    def respond(entry):
        state['seen'].append(entry)
        st = state['status']
        if st >= 400:
            return st, json.dumps({'error': {'code': st, 'message': 'scripted', 'status': 'X'}}).encode(), {}
        if state['kind'] == 'server_streaming':
            return 200, b'[{"name": "r/a"}]', {}
        return 200, (b'{}' if state['kind'] == 'void' else b'{"name": "r/a"}'), {'x-reply': '1'}

    srv = lh.Server(respond)
    hooks = []
    Base = tmod.ThingsRestInterceptor
    names = {'unary': 'get_thing', 'void': 'delete_thing', 'server_streaming': 'watch_things'}

    class Rec(Base):
        pass
    for k, n in names.items():
        def mk(n):
            def pre(self, request, metadata):
                hooks.append('pre')
                md = list(metadata) + ([('x-verif-pre', '1')] if state['add'] else [])
                return request, md

            def post(self, response):
                hooks.append('post'); return response

            def postm(self, response, metadata):
                hooks.append('post_with_metadata'); return response, metadata
            return pre, post, postm
        pre, post, postm = mk(n)
        setattr(Rec, 'pre_' + n, pre)
        if hasattr(Base, 'post_' + n):
            setattr(Rec, 'post_' + n, post)
        if hasattr(Base, 'post_' + n + '_with_metadata'):
            setattr(Rec, 'post_' + n + '_with_metadata', postm)
    out = []
    try:
        T = tmod.ThingsRestTransport(host=srv.hostport, url_scheme='http', credentials=AnonymousCredentials(), interceptor=Rec())
        client = mod.ThingsClient(transport=T)
        for c in pl['cases']:
            del hooks[:]; del state['seen'][:]
            state.update(status=c['status'], kind=c['kind'], add=c['preAddsMd'])
            try:
                res = getattr(client, names[c['kind']])(request={'name': 'things/a'})
                if c['kind'] == 'server_streaming':
                    list(res)
                outcome = 'ok'
            except Exception as e:
                outcome = type(e).__name__
            md = any(k.lower() == 'x-verif-pre' for e in state['seen'] for k, v in e['headers'])
            out.append(dict(i=c['i'], hooks=list(hooks), sent=len(state['seen']), sentMd=md, outcome=outcome))
    finally:
        srv.stop()
    rt.emit(dict(obs=out))


if __name__ == '__main__':
    try:
        main()
    except Exception:
        traceback.print_exc()
        raise SystemExit(3)
