"""Driver (fresh interpreter, emitted tree on sys.path): a library generated with selective generation in INTERNAL mode
(generate_omitted_as_internal) whose unlisted method CreateThing has auto-populated fields.  The underscored method
_create_thing is called with the id fields unset / set over sync gRPC, asyncio gRPC and REST; the requests seen by the servers
are decoded with the INPUT descriptors.  payload: {api, module};  result: {obs: [{path, case, request_id, opt_request_id}]}"""
import asyncio
import json
import traceback

from harness import rt
from harness import loopback_grpc as lg
from harness import loopback_http as lh

PKG = 'acme.call.v1'


def main():
    pl = rt.read_payload()
    pool = rt.Pool(pl['api'])
    seen = []

    def respond(path, reqs, md, tr):
        seen.append(pool.decode(f'{PKG}.Req', reqs[0]))
        return [pool.encode(f'{PKG}.Thing', {'name': 'ok'})]

    def respond_http(entry):
        seen.append(json.loads(entry['body'].decode() or '{}'))
        return 200, b'{"name": "ok"}', {}
    srv = lg.Server(respond); hsrv = lh.Server(respond_http)
    obs = []
    try:
        import importlib
        mod = importlib.import_module(pl['module'])
        names = [n for n in dir(mod) if n.endswith('ThingsClient') or n.endswith('ThingsAsyncClient')]
        C = getattr(mod, 'BaseThingsClient', None) or getattr(mod, 'ThingsClient')
        A = getattr(mod, 'BaseThingsAsyncClient', None) or getattr(mod, 'ThingsAsyncClient')
        meth = '_create_thing' if hasattr(C, '_create_thing') else 'create_thing'
        cases = [('unset', {}), ('set', {'request_id': 'mine', 'opt_request_id': 'mine-too'})]
        ch = lg.sync_channel(srv.target, [])
        c = C(transport=rt.transport_class(pl['module'], 'things', 'Things', 'grpc')(channel=ch))
        from google.auth.credentials import AnonymousCredentials
        r = C(transport=rt.transport_class(pl['module'], 'things', 'Things', 'rest')(host=hsrv.hostport, url_scheme='http',
                                                                                   credentials=AnonymousCredentials()))
        for path, client in (('grpc', c), ('rest', r)):
            for cname, req in cases:
                del seen[:]
                try:
                    getattr(client, meth)(request=dict(req))
                    d = seen[-1] if seen else {}
                    obs.append(dict(path=path, case=cname, method=meth, classes=names, request_id=d.get('request_id', d.get('requestId')),
                                    opt_request_id=d.get('opt_request_id', d.get('optRequestId'))))
                except Exception as e:
                    obs.append(dict(path=path, case=cname, method=meth, classes=names, error=f'{type(e).__name__}: {e}'[:200]))

        async def amain():
            ach = lg.aio_channel(srv.target, [])
            a = A(transport=rt.transport_class(pl['module'], 'things', 'Things', 'grpc_asyncio')(channel=ach))
            for cname, req in cases:
                del seen[:]
                try:
                    await getattr(a, meth)(request=dict(req))
                    d = seen[-1] if seen else {}
                    obs.append(dict(path='grpc_asyncio', case=cname, method=meth, classes=names, request_id=d.get('request_id'),
                                    opt_request_id=d.get('opt_request_id')))
                except Exception as e:
                    obs.append(dict(path='grpc_asyncio', case=cname, method=meth, classes=names, error=f'{type(e).__name__}: {e}'[:200]))
            await ach.close()
        asyncio.run(amain())
        ch.close()
    finally:
        srv.stop(); hsrv.stop()
    rt.emit(dict(obs=obs))


if __name__ == '__main__':
    try:
        main()
    except Exception:
        traceback.print_exc()
        raise SystemExit(3)
