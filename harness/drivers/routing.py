"""Driver (fresh interpreter, emitted tree on sys.path): call every method of one emitted API with the requests of
its cases through the sync gRPC client, the asyncio gRPC client and the sync REST client and record the
`x-goog-request-params` values that reach the loopback servers (C06).

payload: {api, list_resp, module, service, service_snake, pkg, paths: [sync, async, rest],
          cases: [{id, method (snake_case), rpc, request: {...proto field names...}, paged, npages}]}
result : {import_error: str|None, obs: {case id: {path: {status: sent|refused|error, error,
          fetches: [[header values of the k-th call that reached the server]..], raw: fetches[0]}}}}
A paginated method is listed to the end (the loopback server serves `npages` pages), so every page fetch is seen.

Everything recorded is observed from OUTSIDE the emitted code: invocation metadata at the gRPC server, request
headers at the HTTP server.  `project()` below is the (purely syntactic) projection to the alphabet of
spec/Routing.tla; it contains no expectation.
"""
import asyncio
import re
import traceback
import urllib.parse

HEADER = 'x-goog-request-params'
_UNRESERVED = re.compile(r'[A-Za-z0-9_.~-]')
_CLASS = {' ': 'sp', '&': 'amp', '=': 'eq', '%': 'pct'}
_HEX = re.compile(r'%[0-9A-Fa-f]{2}')


# ---- projections (used by the driver and importable by the check) ---------------------------------------------
def chars_of(text):
    """a decoded string without slashes -> characters of the spec: words (runs of unreserved characters) and the
    classes sp, amp, eq, pct, uni; anything else is kept as '?<char>' (it can never equal a predicted value)."""
    out, run = [], ''
    for ch in text:
        if _UNRESERVED.match(ch):
            run += ch
            continue
        if run:
            out.append(run); run = ''
        out.append(_CLASS.get(ch) or ('uni' if ord(ch) > 127 else '?' + ch))
    if run:
        out.append(run)
    return out


def value_of(text):
    """a decoded value -> sequence of segments ('' is the empty sequence)."""
    return [] if text == '' else [chars_of(s) for s in text.split('/')]


def pairs_of(raw):
    """what a server reads: urllib.parse.parse_qsl, values projected to segment sequences."""
    return [[k, value_of(v)] for k, v in urllib.parse.parse_qsl(raw, keep_blank_values=True)]


def classify(raw):
    """the RAW header text -> tokens: words/keys, separators EQ AMP SLASH, '%c' for an escaped character of
    class c ('+' is the form-encoding spelling of an escaped space), 'RAW:c' for a reserved character left
    unescaped.  Escapes of unreserved characters are folded into the surrounding word (spelling is not fixed)."""
    out, run, i = [], '', 0

    def flush():
        nonlocal run
        if run:
            out.append(run); run = ''

    while i < len(raw):
        ch = raw[i]
        if _UNRESERVED.match(ch):
            run += ch; i += 1
        elif ch in '&=/':
            flush(); out.append({'&': 'AMP', '=': 'EQ', '/': 'SLASH'}[ch]); i += 1
        elif ch == '+':
            flush(); out.append('%sp'); i += 1
        elif ch == '%' and _HEX.match(raw, i):
            j = i
            while _HEX.match(raw, j):
                j += 3
            try:
                dec = bytes.fromhex(raw[i:j].replace('%', '')).decode('utf-8')
            except UnicodeDecodeError:
                dec = None
            if dec is None:
                flush(); out.append('%?' + raw[i:j])
            else:
                for d in dec:
                    if _UNRESERVED.match(d):
                        run += d
                    else:
                        flush()
                        out.append('%slash' if d == '/' else
                                   '%' + (_CLASS.get(d) or ('uni' if ord(d) > 127 else '?' + d)))
            i = j
        else:
            flush()
            out.append('RAW:' + (_CLASS.get(ch) or ('uni' if ord(ch) > 127 else '?' + ch)))
            i += 1
    flush()
    return out


def events_of(obs, paths=('sync', 'async', 'rest')):
    """observations of one case -> RoutingTrace events (all events carry the same fields).  A listing of a
    paginated method is one `invoke` followed, per call that reached the server, by (`fetch` for page > 1,)
    `encode` + `send` (header present) or `send` alone (header absent); `page` is the index of that call."""
    ev = []

    def e(kind, path, page=1, present=False, text=(), pairs=()):
        ev.append(dict(ev=kind, path=path, page=page, present=present, text=list(text), pairs=list(pairs)))

    for p in paths:
        o = obs.get(p)
        if o is None:
            continue
        e('invoke', p)
        if o['status'] == 'refused':
            e('refuse', p)
            continue
        if o['status'] != 'sent':
            e('anomaly', p)           # no action of the specification: an exception before anything was sent
            continue
        for k, raw in enumerate(o['fetches'], 1):
            if k > 1:
                e('fetch', p, k)
            if len(raw) > 1:
                e('anomaly', p, k)    # several header entries
            elif not raw:
                e('send', p, k, False)
            else:
                e('encode', p, k, True, classify(raw[0]))
                e('send', p, k, True, (), pairs_of(raw[0]))
    return ev


# ---- execution ------------------------------------------------------------------------------------------------
def _err(e):
    return f'{type(e).__name__}: {e}'[:400]


def main():
    from harness import rt
    from harness import loopback_grpc as lg
    from harness import loopback_http as lh
    import json as _json
    pl = rt.read_payload()
    obs = {c['id']: {} for c in pl['cases']}
    try:
        rt.import_client(pl['module'], pl['service'])
    except BaseException as e:  # SyntaxError etc.: the emitted package does not import
        rt.emit(dict(import_error=_err(e), obs=obs))
        return
    pool = rt.Pool(pl['api']) if any(c.get('paged') for c in pl['cases']) else None
    glog, chlog, hlog = [], [], []
    state = dict(case=None, count=0)

    def page_of():
        """script of the server: call k of a listing returns one item and the token t<k> while k < npages."""
        c = state['case']
        state['count'] += 1
        k = state['count']
        if c is None or not c.get('paged'):
            return None
        return dict(items=[f'i{k}'], next_page_token=f't{k}' if k < c['npages'] else '')

    def g_respond(path, reqs, md, tr):
        d = page_of()
        return [b'' if d is None else pool.encode(pl['list_resp'], d)]

    def h_respond(entry):
        d = page_of()
        return (200, b'{}' if d is None else _json.dumps(dict(items=d['items'], nextPageToken=d['next_page_token'])).encode(), {})

    gsrv = lg.Server(g_respond, log=glog)
    hsrv = lh.Server(h_respond, log=hlog)

    # a caller's own metadata LIST, one object handed to every other call of a session (Sequence[Tuple[str, str]] is what the
    # emitted signature asks for): what one call adds to its metadata is no business of the next call
    shared = [('x-verif-caller', '1')]

    def begin(c):
        state['case'], state['count'] = c, 0
        state['n'] = state.get('n', 0) + 1
        return dict(metadata=shared) if state['n'] % 2 == 0 else {}

    def grpc_seen(n0, expected_path, err):
        ents = [x for x in glog[n0:] if x['ev'] == 'ServerRecv']
        if not ents:
            return dict(status='error', raw=[], fetches=[], error=err or 'no request reached the server')
        if any(x['path'] != expected_path for x in ents):
            return dict(status='error', raw=[], fetches=[], error='wrong rpc path ' + ents[-1]['path'])
        fetches = [[v for k, v in x['md'] if k.lower() == HEADER] for x in ents]
        return dict(status='sent', raw=fetches[0], fetches=fetches, error=err)

    try:
        if 'sync' in pl['paths']:
            mod, client, ch = rt.grpc_client(pl['module'], pl['service_snake'], pl['service'], gsrv.target, chlog)
            for c in pl['cases']:
                n0 = len(glog); err = None
                kw = begin(c)
                try:
                    res = getattr(client, c['method'])(request=c['request'], **kw)
                    if c.get('paged'):
                        for _ in res:
                            pass
                except Exception as e:
                    err = _err(e)
                obs[c['id']]['sync'] = grpc_seen(n0, c['rpc'], err)
                del chlog[:]
            ch.close()
        if 'async' in pl['paths']:
            async def amain():
                mod, client, ch = rt.grpc_client(pl['module'], pl['service_snake'], pl['service'], gsrv.target,
                                                 chlog, asyncio_=True)
                for c in pl['cases']:
                    n0 = len(glog); err = None
                    kw = begin(c)
                    try:
                        res = await getattr(client, c['method'])(request=c['request'], **kw)
                        if c.get('paged'):
                            async for _ in res:
                                pass
                    except Exception as e:
                        err = _err(e)
                    obs[c['id']]['async'] = grpc_seen(n0, c['rpc'], err)
                    del chlog[:]
                await ch.close()
            asyncio.run(amain())
        if 'rest' in pl['paths']:
            mod, client = rt.rest_client(pl['module'], pl['service_snake'], pl['service'], hsrv.hostport)
            for c in pl['cases']:
                n0 = len(hlog); err = None
                kw = begin(c)
                try:
                    res = getattr(client, c['method'])(request=c['request'], **kw)
                    if c.get('paged'):
                        for _ in res:
                            pass
                except Exception as e:
                    err = _err(e)
                ents = hlog[n0:]
                if ents:
                    fetches = [[v for k, v in x['headers'] if k.lower() == HEADER] for x in ents]
                    obs[c['id']]['rest'] = dict(status='sent', error=err, raw=fetches[0], fetches=fetches)
                elif err is not None:
                    # the transport raised before any HTTP request was made (transcoding refused the request)
                    obs[c['id']]['rest'] = dict(status='refused', raw=[], fetches=[], error=err)
                else:
                    obs[c['id']]['rest'] = dict(status='error', raw=[], fetches=[], error='no request reached the server')
    finally:
        gsrv.stop(); hsrv.stop()
    rt.emit(dict(import_error=None, obs=obs))


if __name__ == '__main__':
    try:
        main()
    except Exception:
        traceback.print_exc()
        raise SystemExit(3)
