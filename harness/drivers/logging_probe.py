"""Driver for EXT_LOGGING (fresh interpreter, emitted tree on sys.path): one logging MODE per process.

Executes Logging.tla cases on the emitted sync gRPC, asyncio gRPC and REST clients against the loopback servers and
records, ordered by a per-process sequence number, what an outside observer sees of each call:
  logreq / logresp   the records of the library's logger, captured by a logging.Handler attached to the package
                     logger (projected: payload parsed as JSON under the INPUT descriptors, rpcName, logger, metadata)
  served             the request arriving at the server (decoded with the input descriptors) + its x-verif-* metadata
  return             the reply / error the caller got + the number of calls on the channel (gRPC: recorded real
                     channel; REST: requests made on the transport's session)
and, per call, the raw observables that must not depend on the logging mode (compared across processes by the check).

modes:  off    nothing configured (GOOGLE_SDK_PYTHON_LOGGING_SCOPE must be unset)
        level  logging.getLogger(<package>).setLevel(DEBUG) by the application
        env    GOOGLE_SDK_PYTHON_LOGGING_SCOPE=<package> in the environment of THIS process (set by the check through
               gen.run_driver(env=..)); client_logging.initialize_logging() in the client constructor configures it
payload: {module, mode, cases: [{i, transport, kind, status, md, reqv, replyv}]}
result : {obs: [{i, events: [{seq, ev, payload, rpc, md, logger, calls}], calls, raw}], logger: {...}}

The carrier API and the concrete values behind the spec's tokens live here (imported by props/ext_logging.py).
"""
import asyncio
import base64
import json
import logging
import os
import threading
import traceback

PKG = 'acme.obs.v1'
MODULE = 'acme.obs_v1'
DEP = 'other.dep.v1'
ENV = 'GOOGLE_SDK_PYTHON_LOGGING_SCOPE'

KINDS = {
    'unary': dict(method='GetThing', snake='get_thing', req=f'{PKG}.Req', resp=f'{PKG}.Thing', verb='get'),
    'void': dict(method='DeleteThing', snake='delete_thing', req=f'{PKG}.Req', resp='google.protobuf.Empty', verb='delete'),
    'dep': dict(method='CheckDep', snake='check_dep', req=f'{DEP}.DepReq', resp=f'{DEP}.Dep', verb='check'),
}
# proto3-JSON dicts (bytes as base64) behind the request tokens q1 / q2 and the reply tokens r1 / r2
REQS = {
    f'{PKG}.Req': {1: {'name': 'things/a', 'count': 7, 'big': '9007199254740993', 'flag': True, 'tags': ['x', 'y'], 'labels': {'k': 'v'},
                       'inner': {'name': 'in1'}, 'kind': 'ALPHA', 'blob': base64.b64encode(b'\x00\xffz').decode()},
                   2: {'name': 'things/b'}},
    f'{DEP}.DepReq': {1: {'name': 'things/a', 'count': 7, 'tags': ['x'], 'labels': {'k': 'v'}, 'kind': 'BETA',
                          'blob': base64.b64encode(b'abcd').decode()},
                      2: {'name': 'things/b'}},
}
REPLIES = {
    f'{PKG}.Thing': {1: {'name': 'r/a', 'count': 5}, 2: {'name': 'r/b', 'big': '-9007199254740993'}},
    f'{DEP}.Dep': {1: {'name': 'r/a', 'count': 5}, 2: {'name': 'r/b'}},
}
RAW = b'\xff\x00z'          # not valid UTF-8
MD = {
    'none': [],
    'one': [('x-verif-a', 'a1')],
    'two': [('x-verif-a', 'a1'), ('x-verif-b', 'b1')],
    'dup': [('x-verif-a', 'a1'), ('x-verif-a', 'a2')],
    'bin_text': [('x-verif-c-bin', b'c1')],
    'bin_raw': [('x-verif-c-bin', RAW)],
}
HTTP = {'NOT_FOUND': 404, 'PERMISSION_DENIED': 403}
STATUS_OF_HTTP = {v: k for k, v in HTTP.items()}


def carrier_api():
    """one service, three unary RPCs: proto-plus -> proto-plus, proto-plus -> Empty, dependency pb2 -> dependency pb2."""
    dep = dict(name='other/dep/v1/dep.proto', package=DEP, target=False, imports=[],
               enums=[dict(name='DepKind', values=['KIND_UNSPECIFIED', 'ALPHA', 'BETA'])],
               messages=[dict(name='Dep', fields=[dict(name='name'), dict(name='count', type='int32')]),
                         dict(name='DepReq', fields=[dict(name='name'), dict(name='count', type='int32'), dict(name='tags', repeated=True),
                                                     dict(name='labels', type='map:string,string'),
                                                     dict(name='kind', type=f'enum:.{DEP}.DepKind'), dict(name='blob', type='bytes')])])

    def m(name, verb, inp, out):
        return dict(name=name, **{'in': inp, 'out': out}, http=[dict(verb='post', uri=f'/v1/things:{verb}', body='*')], sigs=[], cs=False, ss=False)

    main = dict(name='acme/obs/v1/things.proto', package=PKG,
                enums=[dict(name='Kind', values=['KIND_UNSPECIFIED', 'ALPHA', 'BETA'])],
                messages=[dict(name='Inner', fields=[dict(name='name')]),
                          dict(name='Thing', fields=[dict(name='name'), dict(name='count', type='int32'), dict(name='big', type='int64')]),
                          dict(name='Req', fields=[dict(name='name'), dict(name='count', type='int32'), dict(name='big', type='int64'),
                                                   dict(name='flag', type='bool'), dict(name='tags', repeated=True),
                                                   dict(name='labels', type='map:string,string'), dict(name='inner', type='Inner'),
                                                   dict(name='kind', type='enum:Kind'), dict(name='blob', type='bytes')])],
                services=[dict(name='Things', methods=[m('GetThing', 'get', 'Req', 'Thing'),
                                                       m('DeleteThing', 'delete', 'Req', 'google.protobuf.Empty'),
                                                       m('CheckDep', 'check', f'.{DEP}.DepReq', f'.{DEP}.Dep')])])
    return dict(files=[dep, main], yaml=None)


# string renderings of the binary value under which a record may carry it ("as strings" leaves the rendering open for
# bytes that are not text; the record must still identify the value that was sent)
RAW_RENDERINGS = {RAW.decode('latin1'), RAW.decode('utf-8', 'backslashreplace'), RAW.decode('utf-8', 'surrogateescape'),
                  base64.b64encode(RAW).decode(), base64.urlsafe_b64encode(RAW).decode(), RAW.hex(), repr(RAW), str(list(RAW))}


def md_token(v):
    """metadata value (str or bytes, as logged / as received) -> the spec's value token."""
    if isinstance(v, bytes):
        if v == RAW:
            return 'raw'
        try:
            v = v.decode('utf-8')
        except UnicodeDecodeError:
            return 'other'
    if not isinstance(v, str):
        return 'other'
    if v in RAW_RENDERINGS:
        return 'raw'
    return v if v in ('a1', 'a2', 'b1', 'c1') else 'other'


def md_pairs(items):
    return sorted([k.lower(), md_token(v)] for k, v in items if str(k).lower().startswith('x-verif'))


class World:
    def __init__(self, pl):
        from harness import rt
        from google.protobuf import json_format
        self.jf = json_format
        self.pl = pl
        self.pool = rt.Pool(carrier_api())
        self.lock = threading.Lock()
        self.seq = 0
        self.case = None
        self.events = []
        self.raw = {}
        self.chlog = []
        self.http_calls = 0
        self.hostports = []

    def add(self, **e):
        with self.lock:
            self.seq += 1
            e['seq'] = self.seq
            e.setdefault('calls', 0)
            self.events.append(e)

    # ---- projections (always under the INPUT descriptors) -----------------------------------------
    def canon(self, full_name, d):
        m = self.pool.cls(full_name)()
        self.jf.ParseDict(d, m)
        return self.jf.MessageToDict(m, preserving_proto_field_name=True)

    def token_of_dict(self, full_name, d, table, prefix):
        for v, cd in table.get(full_name, {}).items():
            if self.canon(full_name, cd) == d:
                return f'{prefix}{v}'
        if full_name == 'google.protobuf.Empty' and d == {}:
            return 'empty'
        return 'other'

    def token_of_bytes(self, full_name, raw, table, prefix):
        try:
            return self.token_of_dict(full_name, self.pool.decode(full_name, raw), table, prefix)
        except Exception:
            return 'other'

    def token_of_json(self, full_name, text, table, prefix):
        """a logged payload: JSON text of the message -> token ('none' if the record carries no payload)."""
        if text is None:
            return 'none'
        try:
            m = self.pool.cls(full_name)()
            self.jf.Parse(text, m)
            return self.token_of_dict(full_name, self.jf.MessageToDict(m, preserving_proto_field_name=True), table, prefix)
        except Exception:
            return 'other'

    def rpc_token(self, transport, name):
        for k in KINDS.values():
            if transport != 'rest' and name == f"/{PKG}.Things/{k['method']}":
                return 'path:' + k['method']
            if transport == 'rest' and name == k['method']:
                return 'name:' + k['method']
        return 'other'

    def logger_token(self, name):
        pre = f'{MODULE}.services.things.transports.'
        return name[len(pre):] if name.startswith(pre) else 'other'

    # ---- the log handler ---------------------------------------------------------------------------
    def on_record(self, rec):
        c = self.case
        if c is None:
            return                     # records outside a call (client construction) are not part of any trace
        k = KINDS[c['kind']]
        req = getattr(rec, 'request', None) or getattr(rec, 'httpRequest', None)
        resp = getattr(rec, 'response', None) or getattr(rec, 'httpResponse', None)
        rpc = self.rpc_token(c['transport'], getattr(rec, 'rpcName', None))
        lg_ = self.logger_token(rec.name)
        if rec.levelno != logging.DEBUG or (req is None) == (resp is None) or not isinstance(req or resp, dict):
            self.add(ev='logother', payload='other', rpc=rpc, md=[], logger=lg_, text=str(rec.getMessage())[:200])
        elif req is not None:
            md = getattr(rec, 'metadata', None)
            self.add(ev='logreq', payload=self.token_of_json(k['req'], req.get('payload'), REQS, 'q'), rpc=rpc,
                     md=md_pairs(md.items()) if isinstance(md, dict) else [['?', 'other']], logger=lg_,
                     text=str(rec.getMessage())[:200], rpcName=str(getattr(rec, 'rpcName', None)))
        else:
            st = resp.get('status')
            self.add(ev='logresp', payload=self.token_of_json(k['resp'], resp.get('payload'), REPLIES, 'r'), rpc=rpc, md=[], logger=lg_,
                     text=str(rec.getMessage())[:200], rpcName=str(getattr(rec, 'rpcName', None)), status=str(st))

    # ---- servers -----------------------------------------------------------------------------------
    def reply_bytes(self, c):
        k = KINDS[c['kind']]
        return b'' if c['kind'] == 'void' else self.pool.encode(k['resp'], REPLIES[k['resp']][c['replyv']])

    def respond_grpc(self, path, reqs, md, tr):
        from harness import loopback_grpc as lg
        c = self.case
        k = KINDS[c['kind']]
        self.add(ev='served', payload=self.token_of_bytes(k['req'], reqs[0], REQS, 'q') if len(reqs) == 1 else 'other', rpc='-',
                 md=md_pairs(md), logger='-', path=path)
        self.raw.setdefault('served', []).append(dict(path=path, reqs=[base64.b64encode(r).decode() for r in reqs],
                                                      md=sorted([a, base64.b64encode(b.encode('latin1')).decode()] for a, b in md)))
        if c['status'] != 'OK':
            raise lg.Abort(c['status'])
        return [self.reply_bytes(c)]

    def respond_http(self, entry):
        c = self.case
        k = KINDS[c['kind']]
        try:
            m = self.pool.cls(k['req'])()
            self.jf.Parse(entry['body'].decode() or '{}', m)
            tok = self.token_of_dict(k['req'], self.jf.MessageToDict(m, preserving_proto_field_name=True), REQS, 'q')
        except Exception:
            tok = 'other'
        self.add(ev='served', payload=tok, rpc='-', md=md_pairs(entry['headers']), logger='-', path=entry['path'])
        self.raw.setdefault('served', []).append(dict(path=entry['verb'] + ' ' + entry['path'] + '?' + entry['query'],
                                                      reqs=[base64.b64encode(entry['body']).decode()],
                                                      md=sorted([a.lower(), base64.b64encode(b.encode('latin1')).decode()]
                                                                for a, b in entry['headers'] if a.lower() != 'host')))
        if c['status'] != 'OK':
            st = HTTP[c['status']]
            return st, json.dumps({'error': {'code': st, 'message': 'scripted', 'status': c['status']}}).encode(), {}
        if c['kind'] == 'void':
            return 200, b'{}', {}
        return 200, json.dumps(REPLIES[k['resp']][c['replyv']]).encode(), {'x-reply': '1'}

    # ---- the caller --------------------------------------------------------------------------------
    def request_object(self, mod, c):
        """the caller's request: a message of the type the method documents (proto-plus, or the dependency's pb2)."""
        k = KINDS[c['kind']]
        raw = self.pool.encode(k['req'], REQS[k['req']][c['reqv']])
        if c['kind'] == 'dep':
            from other.dep.v1 import dep_pb2
            return dep_pb2.DepReq.FromString(raw)
        return mod.Req.deserialize(raw)

    def scrub(self, s):
        for hp in self.hostports:
            s = s.replace(hp, 'HOST')
        return s

    def outcome(self, c, res=None, exc=None):
        from google.api_core import exceptions as core_exceptions
        k = KINDS[c['kind']]
        n = self.http_calls if c['transport'] == 'rest' else sum(1 for e in self.chlog if e['ev'] == 'ChannelCall')
        if exc is not None:
            if isinstance(exc, core_exceptions.GoogleAPICallError):
                tok = STATUS_OF_HTTP.get(exc.code, f'E{exc.code}')
            else:
                tok = 'X:' + type(exc).__name__
            self.raw['result'] = dict(exc=type(exc).__name__, msg=self.scrub(str(exc))[:300])
        elif res is None:
            tok = 'none'
            self.raw['result'] = dict(none=True)
        else:
            pb = type(res).pb(res) if hasattr(type(res), 'pb') else res
            b = pb.SerializeToString(deterministic=True)
            tok = self.token_of_bytes(k['resp'], b, REPLIES, 'r')
            self.raw['result'] = dict(type=type(res).__name__, bytes=base64.b64encode(b).decode())
        self.raw['calls'] = n
        self.add(ev='return', payload=tok, rpc='-', md=[], logger='-', calls=n)
        return n

    def begin(self, c):
        self.events, self.raw = [], {}
        del self.chlog[:]
        self.http_calls = 0
        self.case = c

    def end(self, c, out):
        self.case = None
        n = self.raw.get('calls', 0)
        out.append(dict(i=c['i'], events=sorted(self.events, key=lambda e: e['seq']), calls=n, raw=self.raw))


def main():
    from harness import rt
    from harness import loopback_grpc as lg
    from harness import loopback_http as lh
    pl = rt.read_payload()
    mode = pl['mode']
    if (mode == 'env') != (os.environ.get(ENV) == MODULE) or (mode != 'env' and os.environ.get(ENV)):
        raise RuntimeError(f'mode {mode} but {ENV}={os.environ.get(ENV)!r}')
    w = World(pl)
    srv = lg.Server(w.respond_grpc)
    hsrv = lh.Server(w.respond_http)
    w.hostports = [srv.target, hsrv.hostport]
    out = []
    info = {}

    class Capture(logging.Handler):
        def emit(self, record):
            w.on_record(record)

    try:
        mod, sclient, sch = rt.grpc_client(MODULE, 'things', 'Things', srv.target, w.chlog)
        _, rclient = rt.rest_client(MODULE, 'things', 'Things', hsrv.hostport)
        # the first client constructor has run client_logging.initialize_logging(): only now touch the package logger
        plog = logging.getLogger(MODULE)
        info['after_init'] = dict(level=plog.level, handlers=len(plog.handlers), propagate=plog.propagate)
        if mode == 'level':
            plog.setLevel(logging.DEBUG)
        plog.addHandler(Capture(level=logging.NOTSET))
        tlog = logging.getLogger(f'{MODULE}.services.things.transports.grpc')
        info['enabled'] = tlog.isEnabledFor(logging.DEBUG)
        if info['enabled'] != (mode != 'off'):
            raise RuntimeError(f'mode {mode}: transport logger isEnabledFor(DEBUG) = {info["enabled"]} ({info})')
        sess = rclient.transport._session
        orig_request = sess.request

        def counted(*a, **k):
            w.http_calls += 1
            return orig_request(*a, **k)
        sess.request = counted

        def kwargs(c, m):
            kw = dict(request=w.request_object(m, c))
            if MD[c['md']]:
                kw['metadata'] = list(MD[c['md']])
            return kw

        for c in pl['cases']:
            if c['transport'] not in ('grpc', 'rest'):
                continue
            client = sclient if c['transport'] == 'grpc' else rclient
            w.begin(c)
            try:
                res = getattr(client, KINDS[c['kind']]['snake'])(**kwargs(c, mod))
                w.outcome(c, res=res)
            except Exception as e:
                w.outcome(c, exc=e)
            w.end(c, out)

        acases = [c for c in pl['cases'] if c['transport'] == 'grpc_asyncio']
        if acases:
            async def amain():
                amod, aclient, ach = rt.grpc_client(MODULE, 'things', 'Things', srv.target, w.chlog, asyncio_=True)
                for c in acases:
                    w.begin(c)
                    try:
                        res = await getattr(aclient, KINDS[c['kind']]['snake'])(**kwargs(c, amod))
                        w.outcome(c, res=res)
                    except Exception as e:
                        w.outcome(c, exc=e)
                    w.end(c, out)
                await ach.close()
            asyncio.run(amain())
    finally:
        srv.stop(); hsrv.stop()
    rt.emit(dict(obs=out, logger=info))


if __name__ == '__main__':
    try:
        main()
    except Exception:
        traceback.print_exc()
        raise SystemExit(3)
