"""Driver (fresh interpreter, emitted tree on sys.path): replay operation histories through the emitted
long-running method (sync / asyncio client x grpc / rest transport) and record LroTrace events (C08).

payload: {api, module, service, service_snake, pkg,
          method: {name, snake, req, field, arg, grpc_path, http_verb, http_path, http_arg_suffix},
          kind: 'future'|'plain', resp, meta, out,              # full names, as the SPEC resolved them (used only to
                                                                # build the server's replies from the INPUT descriptors)
          opname, poll_prefix,
          runs: [{id, mode: sync|asyncio, transport: grpc|rest, inst: 1|2, form: request|flattened, k, outcome: response|error,
                  value, code}]}
result : {runs: [{id, mode, transport, events, error}], versions}

Server script for one run: operation states s_1 .. s_{k+1};  s_i (i <= k) is not done, s_{k+1} is done and carries
the packed response (value) or the error Status (code); every state carries metadata with progress p = i.  The
reply to the RPC is s_1, the i-th GetOperation is answered with s_{i+1} (the last state again when overrun).

Events (all carry the same fields; unused ones are ''/0):
  start   rpc, chan, name    a call reached the server on the method's path / HTTP binding; name = the value of
                             the request field `method.field` as decoded from the request (path variable for rest)
  poll    rpc, chan, name    a call reached the server on GetOperation; name as decoded from the request
  other   rpc                any other call that reached the server
  wrap    future, mtype, mvalue     the client method returned (future kind: sync|async|none)
  resolve type, value, mtype, mvalue        future.result() returned
  fail    code, mtype, mvalue               future.result() raised an API error
  return  type, value        (plain methods) the client method returned a message
  crash   detail             anything else that was raised (also: the emitted client / transport could not be
                             imported or constructed - then it is the only event of the run)
Two client instances of the service live in the process for every (mode, transport) group, each on its own
recorded channel (grpc) / transport (rest) to its OWN loopback server; a run is made through instance `inst`.
chan = i  iff the call reached server i and (grpc) is accounted for by the log of the recorded channel of
instance i, resp. (rest) carries the Host of server i;  0 otherwise (a channel nobody handed to the transport).
"""
import asyncio
import inspect
import json
import re
import traceback

from google.api_core import exceptions as gexc
from google.longrunning import operations_pb2
from google.protobuf import any_pb2, json_format

from harness import rt
from harness import loopback_grpc as lg
from harness import loopback_http as lh

GET_OP = '/google.longrunning.Operations/GetOperation'
EMPTY = 'google.protobuf.Empty'


# ---- virtual time -------------------------------------------------------------------------------------
class Clock:
    now = 1000.0
    sleeps = 0


def patch_time():
    """polling goes through google.api_core.retry: replace the `time` (and `asyncio.sleep`) names used by the
    retry loops so that no poll really sleeps.  Version-checked: a missing patch point is machinery failure."""
    import google.api_core.retry.retry_unary as ru
    import google.api_core.retry.retry_base as rb
    import google.api_core.retry.retry_unary_async as rua
    for m in (ru, rb, rua):
        if not hasattr(m, 'time'):
            raise RuntimeError(f'virtual clock: {m.__name__} has no `time` name (api-core changed)')
    if not hasattr(rua, 'asyncio'):
        raise RuntimeError('virtual clock: retry_unary_async has no `asyncio` name (api-core changed)')

    class FakeTime:
        def monotonic(self):
            return Clock.now

        def time(self):
            return Clock.now

        def sleep(self, d):
            Clock.sleeps += 1
            Clock.now += max(d, 0)

    real_sleep = asyncio.sleep

    class FakeAsyncio:
        def __getattr__(self, n):
            return getattr(asyncio, n)

        async def sleep(self, d, *a, **k):
            Clock.sleeps += 1
            Clock.now += max(d, 0)
            await real_sleep(0)

    ft = FakeTime()
    ru.time = ft
    rb.time = ft
    rua.time = ft
    rua.asyncio = FakeAsyncio()


# ---- projections --------------------------------------------------------------------------------------
def full_name(obj):
    """protobuf full name of the message type an object is an instance of ('' if it is not a message)."""
    try:
        t = type(obj)
        if hasattr(t, 'pb') and hasattr(t, 'meta'):          # proto-plus
            return t.pb(obj).DESCRIPTOR.full_name
        if hasattr(obj, 'DESCRIPTOR'):
            return obj.DESCRIPTOR.full_name
    except Exception:
        pass
    return '' if obj is None else 'PY:' + type(obj).__name__


def wire(obj):
    t = type(obj)
    if hasattr(t, 'pb') and hasattr(t, 'meta'):
        return t.serialize(obj)
    return obj.SerializeToString()


def blank(**kw):
    e = dict(ev='', rpc='', chan=0, name='', future='', type='', value=0, mtype='', mvalue=0, code=0, detail='')
    e.update(kw)
    return e


class Script:
    def __init__(self, pool, pl):
        self.pool, self.pl = pool, pl
        self.run = None
        self.events = []
        self.chlogs = [[], []]   # logs of the recorded channels of client instance 1 and 2
        self.srv_seen = {}       # (server, path) -> number of calls that reached that server
        self.http_hostports = ['', '']
        self.cursor = 1

    def reset(self, run):
        self.run, self.events, self.cursor = run, [], 1
        for lgx in self.chlogs:
            del lgx[:]
        self.srv_seen = {}

    # -- what the server answers (built from the INPUT descriptors only)
    def value_of(self, tname, b):
        """abstract value of a message of type tname: its int field (n / p), 0 for Empty."""
        if tname == EMPTY:
            return 0
        d = self.pool.decode(tname, b)
        return int(d.get('n', d.get('p', 0)))

    def pack(self, tname, fields):
        a = any_pb2.Any()
        m = self.pool.cls(tname)()
        if tname != EMPTY:
            json_format.ParseDict(fields, m)
        a.Pack(m)
        return a

    def state(self, i):
        r = self.run
        k = r['k']
        i = min(i, k + 1)
        op = operations_pb2.Operation(name=self.pl['opname'], done=(i == k + 1))
        if self.pl['kind'] == 'future':
            op.metadata.CopyFrom(self.pack(self.pl['meta'], {'p': i}))
            if op.done:
                if r['outcome'] == 'response':
                    op.response.CopyFrom(self.pack(self.pl['resp'], {'n': r['value'], 'x': f"v{r['value']}"}))
                else:
                    op.error.code = r['code']
                    op.error.message = 'scripted'
        return op

    def plain_reply(self):
        """(message class full name, message) for a method that is not wrapped in a future."""
        out = self.pl['out']
        if out == 'google.longrunning.Operation':
            return self.state(1)
        m = self.pool.cls(out)()
        json_format.ParseDict({'n': self.run['value']}, m)
        return m

    # -- gRPC
    def grpc_chan(self, idx, path):
        """idx: the loopback server (1 | 2) that saw the call = the server client instance idx was pointed at.
        The call went out on channel idx iff the log of the recorded channel of instance idx accounts for it."""
        n_srv = self.srv_seen[(idx, path)] = self.srv_seen.get((idx, path), 0) + 1
        n_ch = sum(1 for e in self.chlogs[idx - 1] if e['ev'] == 'ChannelCall' and e['path'] == path)
        return idx if n_ch >= n_srv else 0

    def grpc_respond(self, idx, path, reqs, md, tr):
        chan = self.grpc_chan(idx, path)
        m = self.pl['method']
        if path == m['grpc_path']:
            arg = self.pool.decode(m['req'], reqs[0]).get(m['field'], '') if len(reqs) == 1 else '?'
            self.events.append(blank(ev='start', rpc=m['name'], chan=chan, name=arg))
            if self.pl['kind'] == 'future':
                return [self.state(1).SerializeToString()]
            return [self.plain_reply().SerializeToString()]
        if path == GET_OP:
            req = operations_pb2.GetOperationRequest.FromString(reqs[0]) if len(reqs) == 1 else None
            self.events.append(blank(ev='poll', rpc='GetOperation', chan=chan, name=req.name if req is not None else '?'))
            self.cursor += 1
            return [self.state(self.cursor).SerializeToString()]
        self.events.append(blank(ev='other', rpc=path, chan=chan))
        raise lg.Abort('UNIMPLEMENTED', 'not scripted: ' + path)

    # -- REST
    def http_respond(self, idx, entry):
        m = self.pl['method']
        verb, path = entry['verb'], entry['path']
        host = dict((k.lower(), v) for k, v in entry['headers']).get('host', '')
        chan = idx if host == self.http_hostports[idx - 1] else 0

        def js(msg):
            return json_format.MessageToJson(msg, descriptor_pool=self.pool.pool).encode()
        if verb == m['http_verb'] and path == m['http_path']:
            arg = path[len(self.pl['poll_prefix']):len(path) - len(m['http_arg_suffix'])]
            self.events.append(blank(ev='start', rpc=m['name'], chan=chan, name=arg))
            if self.pl['kind'] == 'future':
                return 200, js(self.state(1)), {}
            return 200, js(self.plain_reply()), {}
        pre = self.pl['poll_prefix']
        if verb == 'GET' and path.startswith(pre):
            self.events.append(blank(ev='poll', rpc='GetOperation', chan=chan, name=path[len(pre):]))
            self.cursor += 1
            return 200, js(self.state(self.cursor)), {}
        self.events.append(blank(ev='other', rpc=f'{verb} {path}', chan=chan))
        return 404, b'{"error": {"code": 404, "message": "not scripted", "status": "NOT_FOUND"}}', {}


def err_code(e):
    """status code of the operation error an API error carries: the google.rpc.Status attached by api-core
    (`errors`), else its grpc status code; -1 if it carries neither."""
    for x in (getattr(e, 'errors', None) or ()):
        if hasattr(x, 'DESCRIPTOR') and x.DESCRIPTOR.full_name == 'google.rpc.Status':
            return int(x.code)
    c = getattr(e, 'grpc_status_code', None)
    try:
        return int(c.value[0])
    except Exception:
        return -1


def observe_meta(script, op):
    md = op.metadata
    if md is None:
        return '', 0
    t = full_name(md)
    return t, script.value_of(script.pl['meta'], wire(md)) if t == script.pl['meta'] else -1


def observe_msg(script, msg, tname):
    t = full_name(msg)
    return t, script.value_of(tname, wire(msg)) if t == tname else -1


def crash(script, e):
    script.events.append(blank(ev='crash', detail=f'{type(e).__name__}: {e}'[:300]))
    return f'{type(e).__name__}: {e}'[:300]


def settle_fail(script, op, e):
    if isinstance(e, gexc.GoogleAPICallError) and err_code(e) >= 0:
        try:
            mt, mv = observe_meta(script, op)
        except Exception as e2:
            return crash(script, e2)
        script.events.append(blank(ev='fail', code=err_code(e), mtype=mt, mvalue=mv, detail=type(e).__name__))
        return None
    return crash(script, e)


def call_args(script):
    """the caller's argument, in a request object or as the flattened keyword named after the request field."""
    m = script.pl['method']
    if script.run.get('form', 'request') == 'flattened':
        return {m['field']: m['arg']}
    return {'request': {m['field']: m['arg']}}


def run_sync(script, client):
    pl = script.pl
    m = pl['method']
    try:
        ret = getattr(client, m['snake'])(**call_args(script))
    except Exception as e:
        return crash(script, e)
    if pl['kind'] != 'future':
        t, v = observe_msg(script, ret, pl['out']) if pl['out'] != 'google.longrunning.Operation' else (full_name(ret), 0)
        script.events.append(blank(ev='return', type=t, value=v,
                                   future='sync' if hasattr(ret, 'result') and callable(ret.result) else 'none'))
        return None
    op = ret
    try:
        fut = ('async' if inspect.iscoroutinefunction(type(op).result) else 'sync') if hasattr(op, 'result') else 'none'
        mt, mv = observe_meta(script, op)
        script.events.append(blank(ev='wrap', future=fut, mtype=mt, mvalue=mv))
    except Exception as e:
        return crash(script, e)
    try:
        r = op.result()
    except Exception as e:
        return settle_fail(script, op, e)
    try:
        t, v = observe_msg(script, r, pl['resp'])
        mt, mv = observe_meta(script, op)
        script.events.append(blank(ev='resolve', type=t, value=v, mtype=mt, mvalue=mv))
    except Exception as e:
        return crash(script, e)
    return None


async def run_async(script, client):
    pl = script.pl
    m = pl['method']
    try:
        ret = await getattr(client, m['snake'])(**call_args(script))
    except Exception as e:
        return crash(script, e)
    if pl['kind'] != 'future':
        t, v = observe_msg(script, ret, pl['out']) if pl['out'] != 'google.longrunning.Operation' else (full_name(ret), 0)
        script.events.append(blank(ev='return', type=t, value=v,
                                   future='async' if hasattr(ret, 'result') and callable(ret.result) else 'none'))
        return None
    op = ret
    try:
        fut = ('async' if inspect.iscoroutinefunction(type(op).result) else 'sync') if hasattr(op, 'result') else 'none'
        mt, mv = observe_meta(script, op)
        script.events.append(blank(ev='wrap', future=fut, mtype=mt, mvalue=mv))
    except Exception as e:
        return crash(script, e)
    try:
        r = op.result()
        if inspect.isawaitable(r):
            r = await r
    except Exception as e:
        return settle_fail(script, op, e)
    try:
        t, v = observe_msg(script, r, pl['resp'])
        mt, mv = observe_meta(script, op)
        script.events.append(blank(ev='resolve', type=t, value=v, mtype=mt, mvalue=mv))
    except Exception as e:
        return crash(script, e)
    return None


def main():
    pl = rt.read_payload()
    patch_time()
    pool = rt.Pool(pl['api'])
    script = Script(pool, pl)
    # two loopback servers of each kind: client instance i (its own channel / transport) talks to server i
    gsrvs = [lg.Server(lambda *a, _i=i: script.grpc_respond(_i, *a)) for i in (1, 2)]
    hsrvs = [lh.Server(lambda e, _i=i: script.http_respond(_i, e)) for i in (1, 2)]
    script.http_hostports = [h.hostport for h in hsrvs]
    out = []
    mod, svc, snake = pl['module'], pl['service'], pl['service_snake']
    by = {}
    for r in pl['runs']:
        by.setdefault((r['mode'], r['transport']), []).append(r)

    def unusable(mode, transport, e):
        """the emitted client / transport could not even be imported or constructed: every run of the group
        records that as its only event (a verdict about the emitted code, not about the harness)."""
        msg = f'client construction: {type(e).__name__}: {e}'[:300]
        done = {o['id'] for o in out}
        for r in by[(mode, transport)]:
            if r['id'] not in done:
                out.append(dict(id=r['id'], mode=mode, transport=transport, events=[blank(ev='crash', detail=msg)], error=msg))

    def sync_group(transport, make):
        if ('sync', transport) not in by:
            return
        try:
            clients, close = make()          # BOTH instances exist in this process before the first call
            for r in by[('sync', transport)]:
                script.reset(r)
                err = run_sync(script, clients[r.get('inst', 1) - 1])
                out.append(dict(id=r['id'], mode='sync', transport=transport, events=script.events, error=err))
            close()
        except Exception as e:
            unusable('sync', transport, e)

    def make_sync_grpc():
        _, C = rt.import_client(mod, svc, False)
        T = rt.transport_class(mod, snake, svc, 'grpc')
        chs = [lg.sync_channel(g.target, script.chlogs[i]) for i, g in enumerate(gsrvs)]
        return [C(transport=T(channel=ch, host=g.target)) for ch, g in zip(chs, gsrvs)], (lambda: [ch.close() for ch in chs])

    def make_sync_rest():
        from google.auth.credentials import AnonymousCredentials
        _, C = rt.import_client(mod, svc, False)
        T = rt.transport_class(mod, snake, svc, 'rest')
        return [C(transport=T(host=h.hostport, url_scheme='http', credentials=AnonymousCredentials()))
                for h in hsrvs], (lambda: None)

    async def async_group(transport, make):
        if ('asyncio', transport) not in by:
            return
        try:
            clients, close = make()
            for r in by[('asyncio', transport)]:
                script.reset(r)
                err = await run_async(script, clients[r.get('inst', 1) - 1])
                out.append(dict(id=r['id'], mode='asyncio', transport=transport, events=script.events, error=err))
            await close()
        except Exception as e:
            unusable('asyncio', transport, e)

    def make_async_grpc():
        _, C = rt.import_client(mod, svc, True)
        T = rt.transport_class(mod, snake, svc, 'grpc_asyncio')
        chs = [lg.aio_channel(g.target, script.chlogs[i]) for i, g in enumerate(gsrvs)]

        async def close():
            for ch in chs:
                await ch.close()
        return [C(transport=T(channel=ch, host=g.target)) for ch, g in zip(chs, gsrvs)], close

    def make_async_rest():
        import importlib
        from google.auth.aio.credentials import AnonymousCredentials as AAnon
        _, C = rt.import_client(mod, svc, True)
        T = getattr(importlib.import_module(f'{mod}.services.{snake}.transports'), f'Async{svc}RestTransport')
        trs = [T(host=h.hostport, url_scheme='http', credentials=AAnon()) for h in hsrvs]

        async def close():
            for tr in trs:
                await tr.close()
        return [C(transport=tr) for tr in trs], close

    try:
        sync_group('grpc', make_sync_grpc)
        sync_group('rest', make_sync_rest)
        if ('asyncio', 'grpc') in by or ('asyncio', 'rest') in by:
            async def amain():
                await async_group('grpc', make_async_grpc)
                await async_group('rest', make_async_rest)
            asyncio.run(amain())
    finally:
        for x in gsrvs + hsrvs:
            x.stop()
    import google.api_core
    import grpc
    rt.emit(dict(runs=out, sleeps=Clock.sleeps,
                 versions=dict(api_core=google.api_core.__version__, grpc=grpc.__version__)))


if __name__ == '__main__':
    try:
        main()
    except Exception:
        traceback.print_exc()
        raise SystemExit(3)
