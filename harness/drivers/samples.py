"""Driver (fresh interpreter, emitted tree on sys.path): compile, inspect and EXECUTE every emitted sample.

payload: {api, module, root_module, pkg, services: [{name, snake}], rpcs: {RpcName: {form, req: full name, reqs: {Service: full name}}},
          book, list_resp: full names of the reply types}
result : {samples: {file: OBS}, metadata: {file, entries: [..]} | null, clients: {..}, errors: [..]}

Everything returned is a *projection* (DESIGN 0): line kinds by pure lexing, JSON field selection, `inspect`
of the imported client, requests decoded with the INPUT descriptors.  No expectation lives here.

Execution world: `google.auth.default` returns anonymous credentials; `grpc.secure_channel` /
`grpc.aio.secure_channel` return an insecure channel to the loopback gRPC server; `requests.Session.request`
re-targets the URL at the loopback HTTP server.  Nothing else of the emitted library or of api-core is touched.
The servers answer every path with one valid reply of the method's declared response type (LRO: a done Operation
with the packed response, paged: one page with an empty token, server streams: two messages, void: Empty); the gRPC
server turns to a call 50 ms after it arrived (a request that is cancelled before that was never served).
"""
import ast
import asyncio
import contextlib
import glob
import importlib
import importlib.util
import inspect
import io
import json
import os
import re
import sys
import threading
import time
import traceback
import typing
import urllib.parse
from concurrent import futures

import grpc
from google.protobuf import json_format

from harness import rt
from harness import loopback_http as lh

# ---- lexing: one kind per line (pure, no expectation) --------------------------------------------------
MARKERS = [('m_client', re.compile(r'^\s+# Create a client')),
           ('m_reqinit', re.compile(r'^\s+# Initialize request argument\(s\)')),
           ('m_exec', re.compile(r'^\s+# Make the request')),
           ('m_resp', re.compile(r'^\s+# Handle the response'))]
START_RE = re.compile(r'^# \[START ([^\]\s]*)\]\s*$')
END_RE = re.compile(r'^# \[END ([^\]\s]*)\]\s*$')


def line_kind(line):
    s = line.rstrip('\n')
    if not s.strip():
        return 'blank'
    if s.startswith('# [START'):
        return 'start'
    if s.startswith('# [END'):
        return 'end'
    for k, rx in MARKERS:
        if rx.match(s):
            return k
    if re.match(r'^(async\s+)?def\s', s):
        return 'def'
    if re.match(r'^(from|import)\s', s):
        return 'import'
    if s.startswith('#'):
        return 'comment'
    return 'code'


class Intern:
    """line text -> small integer (TLC compares texts by identity only); blank = 0."""

    def __init__(self):
        self.ids = {'': 0}

    def __call__(self, text):
        t = text.rstrip()
        if t not in self.ids:
            self.ids[t] = len(self.ids)
        return self.ids[t]


def lex(text, intern):
    lines = text.splitlines()
    kinds = [line_kind(l) for l in lines]
    texts = [intern(l) for l in lines]
    tags_start = [m.group(1) for m in (START_RE.match(l) for l in lines) if m]
    tags_end = [m.group(1) for m in (END_RE.match(l) for l in lines) if m]
    return kinds, texts, tags_start, tags_end


# ---- AST: which names does the sample import and use ---------------------------------------------------
def import_check(text, root, root_module):
    """[{module, name, kind: emitted|dependency|unresolved}], [{base, attr, public}] for every attribute taken
    from an imported module alias."""
    try:
        tree = ast.parse(text)
    except SyntaxError:
        return None, None
    imports, aliases = [], {}

    def classify(modname):
        if modname == root_module or modname.startswith(root_module + '.') or root_module.startswith(modname + '.'):
            return 'emitted'
        return 'dependency'

    for node in ast.walk(tree):
        if isinstance(node, ast.Import):
            for a in node.names:
                try:
                    m = importlib.import_module(a.name)
                    imports.append(dict(module=a.name, name='', kind=classify(a.name)))
                    # `import a.b` binds `a`; `import a.b as c` binds c to a.b
                    aliases[a.asname or a.name.split('.')[0]] = m if a.asname else importlib.import_module(a.name.split('.')[0])
                except Exception:
                    imports.append(dict(module=a.name, name='', kind='unresolved'))
        elif isinstance(node, ast.ImportFrom):
            for a in node.names:
                modname = node.module or ''
                obj = None
                try:
                    try:
                        obj = importlib.import_module(f'{modname}.{a.name}')
                        full = f'{modname}.{a.name}'
                    except ImportError:
                        obj = getattr(importlib.import_module(modname), a.name)
                        full = modname
                    imports.append(dict(module=modname, name=a.name, kind=classify(full)))
                    aliases[a.asname or a.name] = obj
                except Exception:
                    imports.append(dict(module=modname, name=a.name, kind='unresolved'))
    uses = {}
    for node in ast.walk(tree):
        if isinstance(node, ast.Attribute) and isinstance(node.value, ast.Name) and node.value.id in aliases:
            base = aliases[node.value.id]
            if not inspect.ismodule(base):
                continue
            pub = getattr(base, '__all__', None)
            if pub is not None:
                public = node.attr in pub
            else:
                public = hasattr(base, node.attr) and not node.attr.startswith('_')
            uses[(node.value.id, node.attr)] = public
    return imports, [dict(base=b, attr=a, public=p) for (b, a), p in sorted(uses.items())]


# ---- loopback world ------------------------------------------------------------------------------------
LATENCY = 0.05


class World:
    def __init__(self, pl):
        self.pl = pl
        self.pool = rt.Pool(pl['api'])
        self.lock = threading.Lock()
        self.epoch = 0
        self.calls = []          # dict(epoch, path, reqs:[bytes], t)
        self.inflight = 0
        self.paths = {}          # grpc path / http path -> (service, rpc)
        for s in pl['services']:
            for r in pl['rpcs']:
                self.paths[f"/{pl['pkg']}.{s['name']}/{r}"] = (s['name'], r)
                self.paths[f"/v1/{s['snake']}/{r}"] = (s['name'], r)

    def req_type(self, service, rpc):
        """request message of the RPC in THIS service (services may share RPC names with different requests)."""
        r = self.pl['rpcs'][rpc]
        return (r.get('reqs') or {}).get(service) or r['req']

    # replies, built from the input descriptors
    def reply_dicts(self, rpc):
        form = self.pl['rpcs'][rpc]['form']
        book = {'name': 'b'}
        if form == 'paged':
            return 'list', [{'books': [{'name': 'a'}], 'next_page_token': ''}]
        if form == 'lro':
            return 'op', [book]
        if form == 'void':
            return 'empty', [{}]
        if form in ('sstream', 'bidi'):
            return 'book', [book, dict(name='c')]
        return 'book', [book]

    def reply_bytes(self, rpc):
        kind, ds = self.reply_dicts(rpc)
        if kind == 'op':
            from google.longrunning import operations_pb2
            from google.protobuf import any_pb2
            inner = self.pool.cls(self.pl['book'])()
            json_format.ParseDict(ds[0], inner)
            a = any_pb2.Any(); a.Pack(inner)
            return [operations_pb2.Operation(name='operations/1', done=True, response=a).SerializeToString()]
        t = {'list': self.pl['list_resp'], 'book': self.pl['book'], 'empty': 'google.protobuf.Empty'}[kind]
        return [self.pool.encode(t, d) for d in ds]

    def reply_json(self, rpc):
        kind, ds = self.reply_dicts(rpc)
        if kind == 'op':
            d = {'name': 'operations/1', 'done': True,
                 'response': dict({'@type': 'type.googleapis.com/' + self.pl['book']}, **ds[0])}
            return json.dumps(d)
        form = self.pl['rpcs'][rpc]['form']
        if form in ('sstream', 'bidi'):
            return json.dumps(ds)
        return json.dumps(ds[0])

    def grpc_handler(self):
        w = self

        class H(grpc.GenericRpcHandler):
            def service(self, hcd):
                path = hcd.method

                def ss(req_iter, ctx):
                    ent = dict(epoch=w.epoch, path=path, reqs=[], via='grpc')
                    with w.lock:
                        w.calls.append(ent); w.inflight += 1
                    try:
                        # a server is never instantaneous: it turns to the call LATENCY seconds after it arrived, so a
                        # sample that does not wait for its call cannot have it served by luck (deterministic verdicts)
                        time.sleep(LATENCY)
                        for r in req_iter:
                            ent['reqs'].append(r)
                        rpc = w.paths.get(path, (None, None))[1]
                        out = w.reply_bytes(rpc) if rpc else []
                    except BaseException:
                        out = []
                    finally:
                        with w.lock:
                            w.inflight -= 1
                    for o in out:
                        yield o
                return grpc.stream_stream_rpc_method_handler(ss)
        return H()

    def http_responder(self, entry):
        path = entry['path']
        svc, rpc = self.paths.get(path, (None, None))
        ent = dict(epoch=self.epoch, path=path, reqs=[], via='http', body=entry['body'], query=entry['query'])
        with self.lock:
            self.calls.append(ent)
        if rpc is None:
            return 404, b'{}', {}
        m = self.pool.cls(self.req_type(svc, rpc))()
        try:
            if entry['body']:
                json_format.Parse(entry['body'].decode(), m, descriptor_pool=self.pool.pool)
            ent['reqs'].append(m.SerializeToString())
        except Exception as e:
            ent['decode_error'] = repr(e)[:200]
        return 200, self.reply_json(rpc).encode(), {}

    def settle(self, limit=2.0):
        t0 = time.time()
        while self.inflight and time.time() - t0 < limit:
            time.sleep(0.002)


def populated_paths(msg, prefix=''):
    """every populated field path of a decoded request (input-descriptor message), recursively; repeated and map
    fields count as populated when non-empty; elements of repeated messages contribute their paths too."""
    out = []
    for fd, val in msg.ListFields():
        p = prefix + fd.name
        out.append(p)
        if fd.type == fd.TYPE_MESSAGE:
            if fd.message_type.GetOptions().map_entry:
                continue
            if fd.label == fd.LABEL_REPEATED:
                for el in val:
                    out.extend(populated_paths(el, p + '.'))
            else:
                out.extend(populated_paths(val, p + '.'))
    return sorted(set(out))


# ---- executing one sample ------------------------------------------------------------------------------
def execute(w, path, text, repeat=3):
    """compile once, then load and run the sample `repeat` times (a sample whose call only sometimes reaches the server is
    racy, not correct); every run is reported."""
    obs = dict(compiles=True, syntax_error=None, functions=[], runs=[])
    try:
        code = compile(text, path, 'exec')
    except SyntaxError as e:
        obs['compiles'] = False; obs['syntax_error'] = f'{e.msg} (line {e.lineno})'
        return obs
    for _ in range(repeat):
        run = dict(raised=None, returned=False, calls=[], stage='import')
        with w.lock:
            w.epoch += 1
            epoch = w.epoch
        out = io.StringIO()
        try:
            with contextlib.redirect_stdout(out):
                ns = {'__name__': 'sample_under_test', '__file__': path}
                exec(code, ns)
                fns = sorted(n for n, v in ns.items() if n.startswith('sample_') and callable(v))
                obs['functions'] = fns
                run['stage'] = 'run'
                if len(fns) == 1:
                    fn = ns[fns[0]]
                    obs['is_async'] = asyncio.iscoroutinefunction(fn)
                    if obs['is_async']:
                        asyncio.run(fn())
                    else:
                        fn()
                    run['returned'] = True
        except BaseException as e:           # noqa - a sample may raise anything, including SystemExit
            if isinstance(e, KeyboardInterrupt):
                raise
            tb = traceback.extract_tb(e.__traceback__)
            fr = next((f for f in reversed(tb) if f.filename == path), None)
            run['raised'] = dict(type=type(e).__name__, msg=str(e)[:300], line=fr.lineno if fr else 0,
                                 text=(fr.line or '') if fr else '')
        w.settle()
        run['stdout'] = out.getvalue()[:300]
        with w.lock:
            mine = [c for c in w.calls if c['epoch'] == epoch]
        for c in mine:
            svc_rpc = w.paths.get(c['path'])
            reqs = []
            for raw in c['reqs']:
                if not svc_rpc:
                    reqs.append(['?unknown-path']); continue
                m = w.pool.cls(w.req_type(svc_rpc[0], svc_rpc[1]))()
                try:
                    m.ParseFromString(raw)
                    reqs.append(populated_paths(m))
                except Exception as e:
                    reqs.append(['?decode:' + type(e).__name__])
            run['calls'].append(dict(path=c['path'], via=c['via'], service=svc_rpc[0] if svc_rpc else None,
                                     rpc=svc_rpc[1] if svc_rpc else None, nreq=len(c['reqs']), reqs=reqs,
                                     decode_error=c.get('decode_error')))
        obs['runs'].append(run)
    return obs


# ---- metadata and client introspection -----------------------------------------------------------------
def resolve(dotted):
    """import the longest module prefix of a dotted name and walk the attributes; (object, None) or (None, why)."""
    parts = dotted.split('.')
    if not dotted or any(p == '' for p in parts):
        return None, 'malformed name'
    for i in range(len(parts), 0, -1):
        try:
            obj = importlib.import_module('.'.join(parts[:i]))
        except Exception:
            continue
        try:
            for p in parts[i:]:
                obj = getattr(obj, p)
            return obj, None
        except AttributeError as e:
            return None, str(e)[:120]
    return None, 'no importable prefix'


def shape_of_annotation(ann):
    """return annotation -> (shape, class): shape in none|plain|iterable; asyncio wrappers are looked through."""
    if ann is None or ann is type(None) or ann is inspect.Signature.empty:
        return 'none', None
    shape = 'plain'
    for _ in range(4):
        origin = typing.get_origin(ann)
        if origin is None:
            break
        import collections.abc as cabc
        if origin in (cabc.Awaitable, cabc.Coroutine):
            ann = typing.get_args(ann)[-1]
        elif origin in (cabc.Iterable, cabc.AsyncIterable, cabc.Iterator, cabc.AsyncIterator):
            shape = 'iterable'; ann = typing.get_args(ann)[0]
        else:
            break
    return shape, ann


def project_entry(e):
    cm = e.get('clientMethod', {})
    segs = {}
    order = []
    for s in e.get('segments', []):
        t = s.get('type', '?')
        order.append(t)
        segs[t] = dict(s=int(s.get('start', 0)), e=int(s.get('end', 0)), has_s='start' in s, has_e='end' in s)
    rt_ = cm.get('resultType')
    shape = 'none' if rt_ is None else ('iterable' if rt_.startswith('Iterable[') else 'plain')
    inner = None if rt_ is None else (rt_[len('Iterable['):-1] if shape == 'iterable' else rt_)
    return dict(tag=e.get('regionTag'), file=e.get('file'), title=e.get('title'),
                client=cm.get('client', {}).get('shortName'), client_full=cm.get('client', {}).get('fullName'),
                method=cm.get('shortName'), method_full=cm.get('fullName'),
                rpc=cm.get('method', {}).get('shortName'), rpc_full=cm.get('method', {}).get('fullName'),
                service=cm.get('method', {}).get('service', {}).get('shortName'),
                service_full=cm.get('method', {}).get('service', {}).get('fullName'),
                is_async=bool(cm.get('async', False)),
                params=[p.get('name') for p in cm.get('parameters', [])],
                result_shape=shape, result_name=inner, segments=segs, segment_order=order)


def docstring_block(doc):
    """lines of the first `.. code-block:: python` of a docstring, de-indented (pure text selection)."""
    if not doc:
        return None
    lines = inspect.cleandoc(doc).splitlines()
    for i, l in enumerate(lines):
        if l.strip().startswith('.. code-block::'):
            ind = len(l) - len(l.lstrip())
            block = []
            for b in lines[i + 1:]:
                if b.strip() and (len(b) - len(b.lstrip())) <= ind:
                    break
                block.append(b)
            nonblank = [len(b) - len(b.lstrip()) for b in block if b.strip()]
            cut = min(nonblank) if nonblank else 0
            return [b[cut:] if b.strip() else '' for b in block]
    return None


def inspect_entry(pe, module, intern):
    """what the imported package says about the client method a metadata entry names."""
    out = dict(class_exists=False, method_exists=False, params=[], result_shape='?', result_same=False,
               client_full_resolves=False, method_full_resolves=False, doc=None, doc_kinds=None, is_coroutine=False)
    try:
        mod = importlib.import_module(module)
    except Exception as e:
        out['error'] = f'import {module}: {type(e).__name__}: {e}'[:300]
        return out
    cls = getattr(mod, pe['client'] or '', None)
    out['class_exists'] = inspect.isclass(cls)
    obj, _ = resolve(pe['client_full'] or '')
    out['client_full_resolves'] = obj is not None and obj is cls
    if cls is None:
        return out
    meth = getattr(cls, pe['method'] or '', None)
    out['method_exists'] = callable(meth)
    obj, _ = resolve(pe['method_full'] or '')
    out['method_full_resolves'] = obj is not None and obj is meth
    if meth is None:
        return out
    sig = inspect.signature(meth)
    out['params'] = [p for p in sig.parameters if p != 'self']
    out['is_coroutine'] = asyncio.iscoroutinefunction(meth)
    shape, klass = shape_of_annotation(sig.return_annotation)
    out['result_shape'] = shape
    if pe['result_name'] is None:
        out['result_same'] = klass is None
    else:
        named, _ = resolve(pe['result_name'])
        out['result_same'] = named is not None and named is klass
        out['result_annotation'] = getattr(klass, '__qualname__', repr(klass))
    block = docstring_block(meth.__doc__)
    if block is not None:
        out['doc'] = [intern(b) for b in block]
        out['doc_kinds'] = ['blank' if not b.strip() else 'text' for b in block]
    return out


def main():
    pl = rt.read_payload()
    root = os.getcwd()
    w = World(pl)
    intern = Intern()
    result = dict(samples={}, metadata=None, errors=[])
    # the world the samples run in
    import google.auth
    from google.auth import credentials as gac
    import requests
    srv = grpc.server(futures.ThreadPoolExecutor(max_workers=8))
    srv.add_generic_rpc_handlers((w.grpc_handler(),))
    port = srv.add_insecure_port('127.0.0.1:0')
    srv.start()
    target = f'127.0.0.1:{port}'
    hsrv = lh.Server(w.http_responder)
    google.auth.default = lambda *a, **k: (gac.AnonymousCredentials(), None)
    grpc.secure_channel = lambda tgt, creds, *a, **k: grpc.insecure_channel(target)
    grpc.aio.secure_channel = lambda tgt, creds, *a, **k: grpc.aio.insecure_channel(target)
    real_request = requests.Session.request

    def loop_request(self, method, url, *a, **k):
        u = urllib.parse.urlsplit(url)
        url = urllib.parse.urlunsplit(('http', hsrv.hostport, u.path, u.query, u.fragment))
        return real_request(self, method, url, *a, **k)
    requests.Session.request = loop_request
    try:
        sdir = os.path.join(root, 'samples', 'generated_samples')
        files = sorted(glob.glob(os.path.join(sdir, '*.py')))
        for f in files:
            text = open(f).read()
            kinds, texts, ts, te = lex(text, intern)
            imports, uses = import_check(text, root, pl['root_module'])
            obs = dict(kinds=kinds, texts=texts, start_tags=ts, end_tags=te, imports=imports, uses=uses,
                       final_newline=text.endswith('\n'))
            obs['exec'] = execute(w, f, text, repeat=int(pl.get('repeat', 3)))
            result['samples'][os.path.basename(f)] = obs
        metas = sorted(glob.glob(os.path.join(sdir, 'snippet_metadata*.json')))
        if metas:
            md = json.load(open(metas[0]))
            entries = []
            for e in md.get('snippets', []):
                pe = project_entry(e)
                pe['client_obs'] = inspect_entry(pe, pl['module'], intern)
                entries.append(pe)
            result['metadata'] = dict(file=os.path.basename(metas[0]), n_files=len(metas), entries=entries,
                                      library=md.get('clientLibrary', {}))
    finally:
        srv.stop(0); hsrv.stop()
        requests.Session.request = real_request
    rt.emit(result)


if __name__ == '__main__':
    try:
        main()
    except Exception:
        traceback.print_exc()
        raise SystemExit(3)
