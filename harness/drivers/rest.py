"""Driver (fresh interpreter, emitted tree on sys.path): client sessions against the emitted REST transport
behind the loopback HTTP server; records RestTrace events (C04).

payload: {api, module, service, service_snake, pkg, numeric,
          leaves: {leaf: {top, json, jrel, kind, ptype}},          # vocabulary of spec/Rest.tla (LeafTab)
          methods: {mid: {name, snake, req, resp, rtype}},
          sessions: [{id, mid, calls: [{req: {leaf: [str..]}, reply: {name, kind, big_n, unknown}}]}]}
result : {sessions: [{id, mid, events: [...], raw: [...]}]}

Everything is observed from OUTSIDE the emitted code:
  call    the request valuation handed to the client method (built through the INPUT descriptors)
  http    verb, URL path split on "/" (percent-decoded), query pairs grouped by key (parse_qsl, repeated keys and
          order inside a key kept), JSON body flattened to dotted keys -> list of canonical scalar texts
  reply   the response valuation the scripted server answered with
  return  the returned message serialised and decoded with the INPUT descriptor of the declared response type
  raise   NotImplementedError | error (any other exception)
The projection is purely syntactic; it contains no expectation.
"""
import json
import traceback
import urllib.parse

from harness import rt
from harness import loopback_http as lh


def conv(ptype, text):
    if ptype in ('string', 'bytes', 'enum'):     # bytes travel as base64 text through ParseDict
        return text
    if ptype == 'bool':
        return text == 'true'
    if ptype in ('double', 'float'):
        return float(text)
    return int(text)


def request_dict(leaves, val):
    """abstract valuation {leaf: [texts]} -> nested dict keyed by proto field names (for json_format.ParseDict)."""
    d = {}
    for leaf, vs in val.items():
        if not vs:
            continue
        info = leaves[leaf]
        if info['kind'] == 'segs':
            v = '/'.join(vs)
        elif info['kind'] in ('repi', 'reps'):
            v = [conv(info['ptype'], x) for x in vs]
        else:
            v = conv(info['ptype'], vs[0])
        parts = leaf.split('.')
        cur = d
        for p in parts[:-1]:
            cur = cur.setdefault(p, {})
        cur[parts[-1]] = v
    return d


def canon(v):
    """canonical text of a JSON scalar."""
    if v is True:
        return 'true'
    if v is False:
        return 'false'
    if isinstance(v, float):
        return str(int(v)) if v == int(v) else repr(v)
    if v is None:
        return 'null'
    return str(v)


def flatten(obj, prefix=''):
    out = {}
    if isinstance(obj, dict):
        for k, v in obj.items():
            key = f'{prefix}.{k}' if prefix else k
            if isinstance(v, dict):
                out.update(flatten(v, key))
            elif isinstance(v, list):
                out[key] = [canon(x) if not isinstance(x, (dict, list)) else json.dumps(x, sort_keys=True) for x in v]
            else:
                out[key] = [canon(v)]
    else:
        out[prefix or '?'] = [canon(obj)]
    return out


def canon_query(kind, text):
    if kind == 'float':
        try:
            return canon(float(text))
        except ValueError:
            return text
    return text


def project_http(entry, kind_by_json):
    segs = [urllib.parse.unquote(s) for s in entry['path'].split('/')[1:]]
    q = {}
    for k, v in urllib.parse.parse_qsl(entry['query'], keep_blank_values=True):
        q.setdefault(k, []).append(canon_query(kind_by_json.get(k), v))
    body = entry['body']
    has = len(body) > 0
    b = {}
    if has:
        try:
            b = flatten(json.loads(body.decode('utf-8')))
        except Exception:
            b = {'<unparsable-body>': [body.decode('utf-8', 'replace')[:200]]}
    return dict(ev='http', verb=entry['verb'].lower(), path=segs, query=q, hasBody=has, body=b)


def reply_json(reply, numeric, enum):
    d = {}
    if reply['name']:
        d['name'] = reply['name'][0]
    if reply['kind']:
        d['kind'] = int(enum[reply['kind'][0]]) if numeric else reply['kind'][0]
    if reply['big_n']:
        d['bigN'] = reply['big_n'][0]          # int64 travels as a JSON string
    if reply.get('unknown'):
        d['unknownField'] = {'a': [1, 'x']}     # a server may know newer fields than the client
    return json.dumps(d).encode()


def project_result(pool, m, resp):
    pb = type(resp).pb(resp) if hasattr(type(resp), 'pb') else resp
    full = pb.DESCRIPTOR.full_name
    rtype = full[-1] if full.rsplit('.', 1)[-1] in ('RespA', 'RespB', 'RespP') else '?'
    try:
        d = pool.decode(m['resp'], pb.SerializeToString())
        res = dict(name=[str(d['name'])] if 'name' in d else [], kind=[str(d['kind'])] if 'kind' in d else [],
                   big_n=[str(d['big_n'])] if 'big_n' in d else [])
        extra = sorted(set(d) - {'name', 'kind', 'big_n'})
        if extra:
            res['name'] = res['name'] + ['<extra:' + ','.join(extra) + '>']
    except Exception as e:  # bytes of another type
        res = dict(name=['<undecodable:' + type(e).__name__ + '>'], kind=[], big_n=[])
    return rtype, res


def main():
    pl = rt.read_payload()
    pool = rt.Pool(pl['api'])
    leaves = pl['leaves']
    kind_by_json = {v['json']: v['kind'] for v in leaves.values()}
    state = dict(reply=None, events=None)

    def responder(entry):
        state['events'].append(project_http(entry, kind_by_json))
        state['raw'].append(dict(verb=entry['verb'], path=entry['path'], query=entry['query'],
                                 body=entry['body'].decode('utf-8', 'replace')))
        r = state['reply']
        state['events'].append(dict(ev='reply', reply=dict(name=r['name'], kind=r['kind'], big_n=r['big_n'],
                                                           unknown=bool(r.get('unknown')))))
        return 200, reply_json(r, pl['numeric'], pl['enum']), {}

    srv = lh.Server(responder)
    # one TCP segment per reply: with the default unbuffered wfile the status line/headers and the body go out in
    # separate small writes and Nagle + delayed ACK cost ~40 ms per call on a keep-alive connection
    srv.httpd.RequestHandlerClass.wbufsize = -1
    srv.httpd.RequestHandlerClass.disable_nagle_algorithm = True
    out = []
    try:
        mod, client = rt.rest_client(pl['module'], pl['service_snake'], pl['service'], srv.hostport)
        for si, s in enumerate(pl['sessions']):
            m = pl['methods'][s['mid']]
            events, raw = [], []
            state['events'], state['raw'] = events, raw
            # every other session reuses ONE request object, edited in place between the calls (a caller may do that;
            # each call must still transcode the object's current content)
            reuse, shared = si % 2 == 1, None
            for c in s['calls']:
                val = {l: list(c['req'].get(l, [])) for l in leaves}
                events.append(dict(ev='call', req={l: v for l, v in val.items() if v}))
                state['reply'] = c['reply']
                try:
                    data = pool.encode(m['req'], request_dict(leaves, val))
                    cls = getattr(mod, m['name'] + 'Request')
                    if reuse and shared is not None:
                        request = shared
                        cls.pb(request).Clear()
                        cls.pb(request).MergeFromString(data)
                    else:
                        request = cls.deserialize(data)
                        shared = request
                    resp = getattr(client, m['snake'])(request=request)
                    rtype, res = project_result(pool, m, resp)
                    events.append(dict(ev='return', rtype=rtype, result=res))
                    raw.append(dict(returned=rtype))
                except NotImplementedError as e:
                    events.append(dict(ev='raise', type='NotImplementedError'))
                    raw.append(dict(raised=f'NotImplementedError: {e}'[:200]))
                except Exception as e:
                    events.append(dict(ev='raise', type='error'))
                    raw.append(dict(raised=f'{type(e).__name__}: {e}'[:200]))
            out.append(dict(id=s['id'], mid=s['mid'], events=events, raw=raw))
    finally:
        srv.stop()
    rt.emit(dict(sessions=out))


if __name__ == '__main__':
    try:
        main()
    except Exception:
        traceback.print_exc()
        raise SystemExit(3)
