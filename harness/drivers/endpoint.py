"""Driver for the Endpoint extension: construct the emitted sync and asyncio clients under each environment / client-option
combination with a recording transport factory; observe endpoint, universe domain, cert source or the raised error."""
import os
import traceback

from harness import rt


def main():
    pl = rt.read_payload()
    import importlib
    from google.auth.transport import mtls
    from google.api_core import client_options as co
    from google.auth.credentials import AnonymousCredentials
    mod = importlib.import_module(pl['module'])
    SyncC = getattr(mod, pl['service'] + 'Client')
    AsyncC = getattr(mod, pl['service'] + 'AsyncClient', None)
    provided = lambda: (b'cert', b'key')
    default = lambda: (b'dcert', b'dkey')
    out = []
    for c in pl['cases']:
        i = c['input']
        for name in ('GOOGLE_API_USE_CLIENT_CERTIFICATE', 'GOOGLE_API_USE_MTLS_ENDPOINT', 'GOOGLE_CLOUD_UNIVERSE_DOMAIN'):
            os.environ.pop(name, None)
        if i['envCert'] != 'unset':
            os.environ['GOOGLE_API_USE_CLIENT_CERTIFICATE'] = i['envCert']
        if i['envMtls'] != 'unset':
            os.environ['GOOGLE_API_USE_MTLS_ENDPOINT'] = i['envMtls']
        if i['envUniverse'] != 'unset':
            os.environ['GOOGLE_CLOUD_UNIVERSE_DOMAIN'] = i['envUniverse']
        mtls.has_default_client_cert_source = lambda: i['defaultCertAvailable']
        mtls.default_client_cert_source = lambda: default
        opts = {}
        if i['optEndpoint'] != 'none':
            opts['api_endpoint'] = i['optEndpoint']
        if i['optUniverse'] != 'none':
            opts['universe_domain'] = i['optUniverse']
        if i['optCert'] != 'none':
            opts['client_cert_source'] = provided
        obs = {}
        for kind, C in (('sync', SyncC), ('async', AsyncC)):
            if C is None:
                continue
            seen = {}

            class T:
                def __init__(self, **kw):
                    seen.update(kw)
                    self.host = kw.get('host')
                    self.kind = 'fake'

                def __str__(self):
                    return 'fake-transport'
            try:
                kw = {}
                o2 = dict(opts)
                if 'credentials' in i['creds']:
                    kw['credentials'] = AnonymousCredentials()
                if 'api_key' in i['creds']:
                    o2['api_key'] = 'k'
                if 'scopes' in i['creds']:
                    o2['scopes'] = ['s']
                if 'credentials_file' in i['creds']:
                    o2['credentials_file'] = 'creds.json'
                if i['transport'] == 'instance':
                    TBase = importlib.import_module(f"{pl['module']}.services.{pl['service_snake']}.transports").__dict__[pl['service'] + 'Transport']

                    class Inst(TBase):
                        def __init__(self):
                            self._host = 'instance.example:443'; self._wrapped_methods = {}

                        @property
                        def host(self):
                            return self._host

                        @property
                        def kind(self):
                            return 'grpc_asyncio' if kind == 'async' else 'grpc'
                    if kind == 'async':
                        continue            # the asyncio client only takes transport names / callables through to the sync constructor
                    kw['transport'] = Inst()
                elif i['transport'] == 'callable' or i['transport'] == 'none' or i['transport'] == 'name':
                    # a recording factory stands in for the named/default transport class (no channel is opened)
                    kw['transport'] = lambda **k: T(**k)
                    if i['transport'] in ('none', 'name'):
                        import google.auth._default as gad
                        gad.get_api_key_credentials = lambda key: AnonymousCredentials()
                client = C(client_options=co.ClientOptions(**o2), **kw)
                cs = seen.get('client_cert_source_for_mtls')
                ep = client.api_endpoint
                tmpl = C._DEFAULT_ENDPOINT_TEMPLATE if hasattr(C, '_DEFAULT_ENDPOINT_TEMPLATE') else SyncC._DEFAULT_ENDPOINT_TEMPLATE
                if i['transport'] == 'instance':
                    epa = 'TRANSPORT-HOST' if ep == 'instance.example:443' else 'OTHER:' + str(ep)
                elif ep == SyncC.DEFAULT_MTLS_ENDPOINT and ep != i['optEndpoint']:
                    epa = 'MTLS'
                elif ep == i['optEndpoint']:
                    epa = ep
                else:
                    epa = 'TEMPLATE:' + client.universe_domain if ep == tmpl.format(UNIVERSE_DOMAIN=client.universe_domain) else 'OTHER:' + str(ep)
                obs[kind] = dict(error='none', endpoint=epa, universe=client.universe_domain, host=(i['transport'] == 'instance' or seen.get('host') == ep),
                                 cert='none' if cs is None else ('provided' if cs is provided else ('default' if cs is default else 'other')))
            except Exception as e:
                obs[kind] = dict(error=type(e).__name__, endpoint='', universe='', cert='none', host=True)
        out.append(dict(i=c['i'], obs=obs))
    rt.emit(dict(obs=out))


if __name__ == '__main__':
    try:
        main()
    except Exception:
        traceback.print_exc()
        raise SystemExit(3)
