"""Driver (fresh interpreter, emitted tree on sys.path): call the resource path helpers of the emitted
sync client class and of the asyncio client class and return raw observations (no expectations here).

payload: {module, services: [{name}], inventory: bool, sync_only: bool (template set without asyncio client),
          resources: [{service, helper, calls: [{id, kind: built|foreign, args: {var: value}, str}]}]}
result : {inventory: {service: {sync: [attr..], async: [attr..]}},
          obs: [{id, helper, has_sync: [build?, parse?], has_async: [build?, parse?], same_fn: bool,
                 built, built_err, parse_in, parsed: [[k, v]..] | null, parse_err, rebuilt, rebuilt_err,
                 a_built, a_parsed, a_err}]}

For kind=built the string handed to parse is the string the build helper returned (a real round trip);
for kind=foreign it is the given `str`.  `rebuilt` is build(**parsed) when parsed is non-empty.
"""
import importlib
import traceback

from harness import rt


def _call(fn, *a, **kw):
    try:
        return fn(*a, **kw), None
    except Exception as e:  # observation, not a verdict
        return None, f'{type(e).__name__}: {e}'[:300]


def _items(d):
    if d is None:
        return None
    if not isinstance(d, dict):
        return [['<not a dict>', repr(d)[:100]]]
    return [[str(k), v if isinstance(v, str) else repr(v)] for k, v in d.items()]


def observe(C, A, res):
    h = res['helper']
    bn, pn = f'{h}_path', f'parse_{h}_path'
    out = []
    has_sync = [hasattr(C, bn), hasattr(C, pn)]
    has_async = [hasattr(A, bn), hasattr(A, pn)] if A is not None else [False, False]
    same = bool(all(has_sync) and all(has_async) and getattr(A, bn) is getattr(C, bn) and getattr(A, pn) is getattr(C, pn))
    for n, c in enumerate(res['calls']):
        # the helpers are static: every other call reaches them through an INSTANCE of the client (client.x_path(...)), not the class
        Cx = C.__new__(C) if n % 2 else C
        Ax = A.__new__(A) if (n % 2 and A is not None) else A
        o = dict(id=c['id'], helper=h, has_sync=has_sync, has_async=has_async, same_fn=same, built=None, built_err=None,
                 parse_in=None, parsed=None, parse_err=None, rebuilt=None, rebuilt_err=None,
                 a_built=None, a_parsed=None, a_err=None)
        if all(has_sync):
            b, p = getattr(Cx, bn), getattr(Cx, pn)
            o['built'], o['built_err'] = _call(b, **c['args'])
            s = o['built'] if c['kind'] == 'built' else c['str']
            o['parse_in'] = s
            if isinstance(s, str):
                d, o['parse_err'] = _call(p, s)
                o['parsed'] = _items(d)
                if isinstance(d, dict) and not d:
                    # the dict belongs to the caller: writing to it must not show up in any later result
                    d['verif_caller_wrote_here'] = 'x'
                if isinstance(d, dict) and d:
                    o['rebuilt'], o['rebuilt_err'] = _call(b, **d)
                if all(has_async):
                    ab, e1 = _call(getattr(Ax, bn), **c['args'])
                    ad, e2 = _call(getattr(Ax, pn), s)
                    if isinstance(ad, dict) and 'verif_caller_wrote_here' in ad:
                        ad = dict(ad)          # (reported through the sync observation of a later call; keep this comparison about agreement)
                    o['a_built'], o['a_parsed'], o['a_err'] = ab, _items(ad), e1 or e2
        out.append(o)
    return out


def main():
    pl = rt.read_payload()
    mod = importlib.import_module(pl['module'])
    classes = {}
    inventory = {}
    for s in pl['services']:
        C = getattr(mod, s['name'] + 'Client')
        A = None if pl.get('sync_only') else getattr(mod, s['name'] + 'AsyncClient', None)
        classes[s['name']] = (C, A)
        if pl.get('inventory'):
            inventory[s['name']] = dict(sync=sorted(a for a in dir(C) if a.endswith('_path')),
                                        **{'async': sorted(a for a in dir(A) if a.endswith('_path')) if A else []})
    obs = []
    for res in pl.get('resources', []):
        C, A = classes[res['service']]
        obs.extend(observe(C, A, res))
    rt.emit(dict(inventory=inventory, obs=obs))


if __name__ == '__main__':
    try:
        main()
    except Exception:
        traceback.print_exc()
        raise SystemExit(3)
