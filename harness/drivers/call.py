"""Driver (fresh interpreter, emitted tree on sys.path): execute Call.tla cases against the emitted sync gRPC,
asyncio gRPC and REST clients; record what the SERVER saw (decoded with the input descriptors), which stub arity
the channel was asked for, and what the caller got back.

payload: {api, module, cases: [{i, method, transport, form, args:{reqs:[val..], kw: val}, script:[{name,count}..], cs, ss, void}]}
result : {obs: [{i, events: [...], error}]}
events : sent{path, kind, msgs:[valuation..]} | return{values:[{name,count}..], is_none} | raise{type, msg}
"""
import asyncio
import json
import traceback

from google.protobuf import json_format

from harness import rt, callrun
from harness import loopback_grpc as lg
from harness import loopback_http as lh

PKG = callrun.PKG


def reply_dict(r):
    d = {}
    if r['name']:
        d['name'] = callrun.REPLY_VALUES['name'][r['name']]
    if r['count']:
        d['count'] = callrun.REPLY_VALUES['count'][r['count']]
    return d


def reply_abs(d):
    return dict(name=next((k for k, v in callrun.REPLY_VALUES['name'].items() if v == d.get('name')), 0 if not d.get('name') else 8),
                count=next((k for k, v in callrun.REPLY_VALUES['count'].items() if v == d.get('count')), 0 if not d.get('count') else 8))


class World:
    def __init__(self, pl):
        self.pl = pl
        self.pool = rt.Pool(pl['api'])
        self.case = None
        self.events = None
        self.chlog = []
        self.seen_ids = set()
        self.kinds = {}
        self.server_seen = None
        self.expect_server = 1

    def harvest(self):
        for e in self.chlog:
            if e['ev'] == 'Factory':
                self.kinds[e['path']] = e['kind']

    def types(self, c):
        m = callrun.METHODS[c['method']]
        q = lambda t: (t[1:] if t.startswith('.') else f'{PKG}.{t}')
        return q(m['req']), (q(m['resp']) if m['resp'] else 'google.protobuf.Empty')

    def project_req(self, c, raw):
        rq, _ = self.types(c)
        m = self.pool.cls(rq)(); m.ParseFromString(raw)
        d = json_format.MessageToDict(m, preserving_proto_field_name=True)
        presence = [f for f in ('opt_request_id',) if f in [x.name for x, _ in m.ListFields()]]
        val = callrun.abstract(d, self.seen_ids, presence)
        if val['flag'] == 1:   # both variants of the bool field are True on the wire: attribute it to the variant the case used
            used = [v['flag'] for v in c['args']['reqs'] + [c['args']['kw']] if v['flag']]
            if used and all(u == 2 for u in used):
                val['flag'] = 2
        return val

    # ---- gRPC server side
    def respond_on(self, server_id):
        def f(path, reqs, md, tr):
            self.server_seen = server_id
            return self.respond(path, reqs, md, tr)
        return f

    def respond(self, path, reqs, md, tr):
        c = self.case
        self.harvest()
        kind = self.kinds.get(path)
        self.events.append(dict(ev='sent', path=path, kind=kind or '?', msgs=[self.project_req(c, r) for r in reqs],
                                own=self.server_seen == self.expect_server))
        _, rs = self.types(c)
        if c['void']:
            return [b'']
        return [self.pool.encode(rs, reply_dict(r)) for r in c['script']]

    # ---- HTTP server side
    def respond_http(self, entry):
        c = self.case
        rq, rs = self.types(c)
        m = self.pool.cls(rq)()
        if entry['body']:
            json_format.Parse(entry['body'].decode(), m)
        raw = m.SerializeToString()
        self.events.append(dict(ev='sent', path=entry['path'], kind='http', msgs=[self.project_req(c, raw)], own=True))
        if c['void']:
            return 200, b'{}', {}
        if c['ss']:
            body = '[' + ','.join(json.dumps(reply_dict(r)) for r in c['script']) + ']'
            return 200, body.encode(), {}
        return 200, json.dumps(reply_dict(c['script'][0])).encode(), {}


PPD = False


def build_call(w, mod, c):
    """positional/keyword arguments of the client call for this case."""
    m = callrun.METHODS[c['method']]
    dep = m['req'].startswith('.')
    form = c['form']
    reqs = c['args']['reqs']

    def msg(val):
        d = callrun.concretise(val)
        if dep and PPD:
            # option proto-plus-deps: the dependency package is a proto-plus library of its own
            from other.dep_v1.types import dep as depmod
            return depmod.DepReq(**d)
        if dep:
            from other.dep.v1 import dep_pb2
            if 'kind' in d:
                d['kind'] = getattr(dep_pb2, d['kind'])
            return dep_pb2.DepReq(**d)
        cls = getattr(mod, 'Req')
        # the caller builds the message with the PYTHON attribute names
        if 'class' in d:
            d['class_'] = d.pop('class')
        vals = d.pop('vals', None)
        out = cls(**d)
        if vals:
            out.vals.extend(vals)      # (see callrun.get_cases: the constructor cannot take a repeated Value)
        return out

    if c['cs']:
        return dict(requests=iter([msg(v) for v in reqs]))
    kw = {}
    if form == 'msg':
        kw['request'] = msg(reqs[0])
    elif form == 'dict':
        kw['request'] = callrun.concretise(reqs[0])
    elif form == 'none':
        pass
    elif form == 'kwargs':
        kw.update(callrun.kw_python(c['args']['kw']))
    elif form == 'both':
        kw['request'] = msg(reqs[0])
        kw.update(callrun.kw_python(c['args']['kw']))
    return kw


def project_result(w, c, res, many):
    _, rs = w.types(c)
    vals = []
    items = res if many else [res]
    for r in items:
        if r is None:
            continue
        pb = type(r).pb(r) if hasattr(type(r), 'pb') else r
        d = w.pool.decode(rs, pb.SerializeToString())
        vals.append(reply_abs(d))
    return vals


def run_sync(w, client, mod, c):
    kw = build_call(w, mod, c)
    fn = getattr(client, callrun.METHODS[c['method']]['snake'])
    res = fn(**kw)
    if c['ss']:
        got = list(res)
        w.events.append(dict(ev='return', values=project_result(w, c, got, True), is_none=False))
    else:
        w.events.append(dict(ev='return', values=[] if c['void'] else project_result(w, c, res, False), is_none=res is None))


async def run_async(w, client, mod, c):
    kw = build_call(w, mod, c)
    fn = getattr(client, callrun.METHODS[c['method']]['snake'])
    if c['ss']:
        call = fn(**kw)
        stream = await call if asyncio.iscoroutine(call) else call
        if asyncio.iscoroutine(stream):
            stream = await stream
        got = [x async for x in stream]
        w.events.append(dict(ev='return', values=project_result(w, c, got, True), is_none=False))
    else:
        res = await fn(**kw)
        if c['cs'] and hasattr(res, '__await__'):
            res = await res          # stream-unary: the client returns the call object, the reply is its result
        w.events.append(dict(ev='return', values=[] if c['void'] else project_result(w, c, res, False), is_none=res is None))


def main():
    pl = rt.read_payload()
    global PPD
    PPD = bool(pl.get('ppd'))
    w = World(pl)
    # two servers and two clients per kind: a call must go out on the channel of the client it was made on
    srv = lg.Server(w.respond_on(1))
    srv2 = lg.Server(w.respond_on(2))
    hsrv = lh.Server(w.respond_http)
    out = []
    try:
        mod, sclient, sch = rt.grpc_client(pl['module'], 'things', 'Things', srv.target, w.chlog)
        _, sclient2, sch2 = rt.grpc_client(pl['module'], 'things', 'Things', srv2.target, w.chlog)
        _, rclient = rt.rest_client(pl['module'], 'things', 'Things', hsrv.hostport)

        def one(c, runner):
            w.case, w.events = c, []
            w.harvest()
            del w.chlog[:]
            err = None
            try:
                runner(c)
            except Exception as e:
                w.events.append(dict(ev='raise', type=type(e).__name__, msg=str(e)[:300]))
            out.append(dict(i=c['i'], events=w.events, error=err))

        for n, c in enumerate(pl['cases']):
            if c['transport'] == 'grpc':
                w.expect_server = 1 + n % 2
                one(c, lambda c: run_sync(w, sclient if w.expect_server == 1 else sclient2, mod, c))
            elif c['transport'] == 'rest':
                one(c, lambda c: run_sync(w, rclient, mod, c))

        acases = [c for c in pl['cases'] if c['transport'] == 'grpc_asyncio' and not pl.get('ads')]
        if acases:
            async def amain():
                amod, aclient, ach = rt.grpc_client(pl['module'], 'things', 'Things', srv.target, w.chlog, asyncio_=True)
                _, aclient2, ach2 = rt.grpc_client(pl['module'], 'things', 'Things', srv2.target, w.chlog, asyncio_=True)
                for n, c in enumerate(acases):
                    w.expect_server = 1 + n % 2
                    w.case, w.events = c, []
                    w.harvest()
                    del w.chlog[:]
                    try:
                        await run_async(w, aclient if w.expect_server == 1 else aclient2, amod, c)
                    except Exception as e:
                        w.events.append(dict(ev='raise', type=type(e).__name__, msg=str(e)[:300]))
                    out.append(dict(i=c['i'], events=w.events, error=None))
                await ach.close(); await ach2.close()
            asyncio.run(amain())
    finally:
        srv.stop(); srv2.stop(); hsrv.stop()
    rt.emit(dict(obs=out))


if __name__ == '__main__':
    try:
        main()
    except Exception:
        traceback.print_exc()
        raise SystemExit(3)
