"""Driver (fresh interpreter, emitted tree on sys.path): project the declarations of the emitted message / enum
classes and execute valuation scripts on them (C02, spec/Types.tla, spec/TypesTrace.tla).

payload: {api, module ('acme.ty_v1'), pkg ('acme.ty.v1'),
          subjects: [{id, full, scripts: [[{op,f,k,x}..]..], random: n, rlen: m}], seed}
result : {import_error: text | None,
          traces: [{kind: val|enum|file, id, full, script, path, msgs, enums, fields, values, tops, events}]}

Everything here is projection (DESIGN 0): the header of a trace is read off the INPUT descriptors, the events
are read off the emitted classes / the bytes they produce; bytes are decoded with dynamic messages built from
the input descriptors (rt.Pool), never with the emitted classes.  Abstract value indices are positions in the
VALUES tables below (0 = the type's default value); sub-messages are numbered by `subvalue`.
"""
import importlib
import json
import random
import traceback

from google.protobuf import descriptor_pb2

from harness import rt

KIND = {1: 'double', 2: 'float', 3: 'int64', 4: 'uint64', 5: 'int32', 6: 'fixed64', 7: 'fixed32', 8: 'bool',
        9: 'string', 11: 'message', 12: 'bytes', 13: 'uint32', 14: 'enum', 15: 'sfixed32', 16: 'sfixed64',
        17: 'sint32', 18: 'sint64'}
_I32 = [0, 1, -1, 2147483647, -2147483648, 300]
_I64 = [0, 1, -1, 2 ** 63 - 1, -2 ** 63, 1 << 40]
_U32 = [0, 1, 2 ** 32 - 1, 7, 128, 1 << 31]
_U64 = [0, 1, 2 ** 64 - 1, 7, 1 << 63, 1 << 35]
VALUES = {
    'double': [0.0, 1.5, -2.25, 1e300, -1e-300, 3.0], 'float': [0.0, 1.5, -2.25, 3.0, -0.5, 1024.0],
    'int64': _I64, 'sint64': _I64, 'sfixed64': _I64, 'uint64': _U64, 'fixed64': _U64,
    'int32': _I32, 'sint32': _I32, 'sfixed32': _I32, 'uint32': _U32, 'fixed32': _U32,
    'bool': [False, True],
    'string': ['', 'a', 'é✓ b', 'x' * 200, '0', 'class'],
    'bytes': [b'', b'a', b'\x00\xff', b'\x80' * 130, b'0', b'\n'],
    'enum': [0, 1, 5],        # every enum the harness declares as a field type has the numbers 0, 1, 5
}
GARBLED = 99
NSUB = 4                     # sub-message values 0..3


def words(name):
    return [dict(l=w, c=w[:1].upper() + w[1:]) for w in name.split('_')]


# ---- projection of a message descriptor (input or runtime) --------------------------------------------------
def project_fields(desc):
    """[{name, json, number, kind, card, group, presence, ref, key}] in declaration order."""
    dp = descriptor_pb2.DescriptorProto()
    desc.CopyToProto(dp)
    p3 = {f.number: f.proto3_optional for f in dp.field}
    out = []
    for f in desc.fields:
        is_map = bool(f.message_type is not None and f.message_type.GetOptions().map_entry and f.label == 3)
        t = f.message_type.fields_by_name['value'] if is_map else f
        card = 'map' if is_map else 'repeated' if f.label == 3 else 'optional' if p3.get(f.number) else 'single'
        oneof = f.containing_oneof.name if (f.containing_oneof is not None and not p3.get(f.number)) else ''
        ref = t.message_type.full_name if t.message_type is not None else t.enum_type.full_name if t.enum_type is not None else ''
        out.append(dict(name=f.name, json=f.json_name, number=f.number, kind=KIND.get(t.type, f'type{t.type}'), card=card,
                        group=oneof, presence=bool(f.has_presence), ref=ref,
                        key=KIND.get(f.message_type.fields_by_name['key'].type, '?') if is_map else ''))
    return out


def nested_names(desc):
    return (sorted(n.name for n in desc.nested_types if not n.GetOptions().map_entry), sorted(e.name for e in desc.enum_types))


def shape_of(desc, pkg):
    """abstract shape of an INPUT message descriptor (header of a trace)."""
    msgs, enums = nested_names(desc)
    return dict(path=desc.full_name[len(pkg) + 1:].split('.'), msgs=msgs, enums=enums,
                fields=[dict(name=words(f['name']), number=f['number'], kind=f['kind'], card=f['card'], group=f['group'],
                             ref=f['ref'], key=f['key']) for f in project_fields(desc)])


def observed_decl(cls, in_numbers, pkg):
    """what the emitted class declares: runtime descriptor + the Python attribute names (Class.meta.fields)."""
    desc = cls.pb(cls()).DESCRIPTOR
    attr_of = {f.number: a for a, f in cls.meta.fields.items()}
    pf = project_fields(desc)
    if sorted(f['number'] for f in pf) == sorted(in_numbers):       # same numbers: list in the input's order
        by = {f['number']: f for f in pf}
        pf = [by[n] for n in in_numbers]
    msgs, enums = nested_names(desc)
    full = desc.full_name
    path = full[len(pkg) + 1:].split('.') if full.startswith(pkg + '.') else ['?' + full]
    return dict(path=path, msgs=msgs, enums=enums,
                fields=[dict(attr=attr_of.get(f['number'], '?' + f['name']), json=f['json'], number=f['number'], kind=f['kind'],
                             card=f['card'], oneof=f['group'], presence=f['presence'], ref=f['ref'], key=f['key']) for f in pf])


# ---- concrete <-> abstract values --------------------------------------------------------------------------
def wire_numbers(b):
    """field numbers of the top-level records of a serialised message (generic tag walk)."""
    nums, i, n = set(), 0, len(b)

    def varint(i):
        r, s = 0, 0
        while True:
            c = b[i]; i += 1
            r |= (c & 0x7f) << s; s += 7
            if not c & 0x80:
                return r, i
    while i < n:
        tag, i = varint(i)
        nums.add(tag >> 3)
        wt = tag & 7
        if wt == 0:
            _, i = varint(i)
        elif wt == 1:
            i += 8
        elif wt == 2:
            ln, i = varint(i); i += ln
        elif wt == 5:
            i += 4
        else:
            raise ValueError(f'wire type {wt}')
    return sorted(nums)


class World:
    """input descriptors, emitted classes, value tables for one subject message."""

    def __init__(self, pl):
        self.pl = pl
        self.pool = rt.Pool(pl['api'])
        self.pkg = pl['pkg']
        self.gen_classes = {}          # full name -> emitted class (proto-plus message / enum)

    def in_desc(self, full):
        return self.pool.pool.FindMessageTypeByName(full)

    # sub-message number idx of type `desc` (input side), reached through field `via` of the subject `subj`
    def subvalue(self, desc, idx, subj=None, via=None):
        m = self.pool.cls(desc.full_name)()
        if idx == 0:
            return m
        if subj is not None and desc.full_name == subj.full_name:
            # recursive reference: nest through the same field, idx levels deep
            inner = self.subvalue(desc, idx - 1, subj, via)
            f = desc.fields_by_name[via]
            if f.label == 3 and f.message_type.GetOptions().map_entry:
                kf = f.message_type.fields_by_name['key']
                getattr(m, via)[VALUES[KIND[kf.type]][0]].MergeFrom(inner)      # [key] creates the entry
            elif f.label == 3:
                getattr(m, via).add().MergeFrom(inner)
            else:
                getattr(m, via).SetInParent()
                getattr(m, via).MergeFrom(inner)
            return m
        if desc.full_name == 'google.protobuf.Duration':
            m.seconds = idx
        elif 'tag' in desc.fields_by_name:
            m.tag = idx
        else:
            raise RuntimeError('no value table for ' + desc.full_name)
        return m

    def sub_index(self, desc, msg, subj, via):
        b = msg.SerializeToString(deterministic=True)
        for i in range(NSUB + 1):
            try:
                if self.subvalue(desc, i, subj, via).SerializeToString(deterministic=True) == b:
                    return i
            except RuntimeError:
                break
        return GARBLED


def scalar_index(kind, v):
    tab = VALUES[kind]
    for i, x in enumerate(tab):
        if type(x) is bool or type(v) is bool:
            if type(x) is type(v) and x == v:
                return i
        elif x == v and (not isinstance(x, (str, bytes)) or type(x) is type(v)):
            return i
    return GARBLED


class Subject:
    def __init__(self, world, full, cls):
        self.w = world
        self.full = full
        self.cls = cls
        self.desc = world.in_desc(full)
        self.infields = project_fields(self.desc)
        self.shape = shape_of(self.desc, world.pkg)
        self.decl = observed_decl(cls, [f['number'] for f in self.infields], world.pkg)
        self.attr = {f['number']: f['attr'] for f in self.decl['fields']}
        self.InCls = world.pool.cls(full)

    # -- input side ------------------------------------------------------------------------------------
    def val_desc(self, f):
        fd = self.desc.fields_by_name[f['name']]
        return fd.message_type.fields_by_name['value'] if f['card'] == 'map' else fd

    def in_concrete(self, f, x):
        """abstract value index -> python value / input-side message."""
        if f['kind'] == 'message':
            return self.w.subvalue(self.val_desc(f).message_type, x, self.desc, f['name'])
        return VALUES[f['kind']][x]

    def key_concrete(self, f, k):
        return VALUES[f['key']][k]

    def index_of(self, f, v):
        if f['kind'] == 'message':
            return self.w.sub_index(self.val_desc(f).message_type, v, self.desc, f['name'])
        if f['kind'] == 'enum':
            return scalar_index('enum', int(v))
        return scalar_index(f['kind'], v)

    def project_in(self, m):
        """valuation of a dynamic message of the INPUT descriptor."""
        out = []
        for f in self.infields:
            fd = self.desc.fields_by_name[f['name']]
            v = getattr(m, f['name'])
            if f['card'] == 'map':
                out.append(sorted([scalar_index(f['key'], k), self.index_of(f, x)] for k, x in v.items()))
            elif f['card'] == 'repeated':
                out.append([self.index_of(f, x) for x in v])
            elif fd.has_presence:
                out.append([self.index_of(f, v)] if m.HasField(f['name']) else [])
            else:
                out.append([] if v == fd.default_value else [self.index_of(f, v)])
        return out

    def decode_in(self, b):
        m = self.InCls()
        m.ParseFromString(b)
        return self.project_in(m)

    def build_in(self, val):
        """dynamic message of the input descriptor holding the valuation."""
        m = self.InCls()
        for f, xs in zip(self.infields, val):
            n = f['name']
            if f['card'] == 'map':
                for k, x in xs:
                    ck = self.key_concrete(f, k)
                    if f['kind'] == 'message':
                        getattr(m, n)[ck].MergeFrom(self.in_concrete(f, x))      # [ck] creates the entry
                    else:
                        getattr(m, n)[ck] = self.in_concrete(f, x)
            elif f['card'] == 'repeated':
                for x in xs:
                    if f['kind'] == 'message':
                        getattr(m, n).add().MergeFrom(self.in_concrete(f, x))
                    else:
                        getattr(m, n).append(self.in_concrete(f, x))
            elif xs:
                if f['kind'] == 'message':
                    getattr(m, n).SetInParent()
                    getattr(m, n).MergeFrom(self.in_concrete(f, xs[0]))
                else:
                    setattr(m, n, self.in_concrete(f, xs[0]))
        return m

    # -- emitted side ----------------------------------------------------------------------------------
    def gen_concrete(self, f, x):
        """value handed to the emitted class: python scalars, enum numbers, and for message-typed fields an
        instance of the class registered for the referenced type obtained from canonical bytes."""
        if f['kind'] != 'message':
            return VALUES[f['kind']][x]
        b = self.in_concrete(f, x).SerializeToString(deterministic=True)
        ref = self.val_desc(f).message_type.full_name
        c = self.w.gen_classes.get(ref)
        if c is not None:
            return c.deserialize(b)
        from google.protobuf import descriptor_pool, message_factory
        return message_factory.GetMessageClass(descriptor_pool.Default().FindMessageTypeByName(ref)).FromString(b)

    def apply(self, inst, o):
        f = self.infields[o['f'] - 1]
        a = self.attr[f['number']]
        if o['op'] == 'set':
            setattr(inst, a, self.gen_concrete(f, o['x']))
        elif o['op'] == 'clear':
            delattr(inst, a)
        elif o['op'] == 'append':
            getattr(inst, a).append(self.gen_concrete(f, o['x']))
        elif o['op'] == 'put':
            getattr(inst, a)[self.key_concrete(f, o['k'])] = self.gen_concrete(f, o['x'])
        else:
            raise ValueError(o['op'])

    def project_gen(self, inst):
        """valuation of an instance of the emitted class, read through its Python attributes (message-typed
        values through the wrapped pb message, to get at their bytes)."""
        out = []
        raw = self.cls.pb(inst)
        for f in self.infields:
            a = self.attr[f['number']]
            v = getattr(inst, a)
            if f['kind'] == 'message':
                rv = getattr(raw, a)
                sub = self.val_desc(f).message_type
                idx = lambda m: self.w.sub_index(sub, self.w.pool.cls(sub.full_name).FromString(m.SerializeToString()),
                                                 self.desc, f['name'])
                if f['card'] == 'map':
                    out.append(sorted([scalar_index(f['key'], k), idx(x)] for k, x in rv.items()))
                elif f['card'] == 'repeated':
                    out.append([idx(x) for x in rv])
                else:
                    out.append([idx(rv)] if a in inst else [])
            elif f['card'] == 'map':
                out.append(sorted([scalar_index(f['key'], k), self.index_of(f, x)] for k, x in dict(v).items()))
            elif f['card'] == 'repeated':
                out.append([self.index_of(f, x) for x in list(v)])
            else:
                out.append([self.index_of(f, v)] if a in inst else [])
        return out

    # -- one script ------------------------------------------------------------------------------------
    def run(self, script, events):
        inst = self.cls()
        seen = self.decode_in(self.cls.serialize(inst))
        for o in script:
            self.apply(inst, o)
            seen = self.decode_in(self.cls.serialize(inst))
            events.append(dict(ev='op', o=o, seen=seen))
        b = self.cls.serialize(inst)
        events.append(dict(ev='encode', nums=wire_numbers(b)))
        seen = self.decode_in(b)
        events.append(dict(ev='decode_in', val=seen))
        events.append(dict(ev='json', keys=sorted(json.loads(self.cls.to_json(inst)).keys())))
        b2 = self.build_in(seen).SerializeToString()
        events.append(dict(ev='encode_in', nums=wire_numbers(b2)))
        events.append(dict(ev='decode_gen', val=self.project_gen(self.cls.deserialize(b2))))

    def random_script(self, rnd, n):
        """seeded random operations (larger messages, code -> spec only); the specification judges them."""
        ops, lens = [], {}
        for _ in range(n):
            i = rnd.randrange(len(self.infields))
            f = self.infields[i]
            nv = NSUB if f['kind'] == 'message' else len(VALUES[f['kind']])
            x = rnd.randrange(nv)
            if rnd.random() < 0.12:
                ops.append(dict(op='clear', f=i + 1, k=0, x=0)); lens[i] = 0
            elif f['card'] == 'map':
                ops.append(dict(op='put', f=i + 1, k=rnd.randrange(len(VALUES[f['key']])), x=x))
            elif f['card'] == 'repeated':
                if lens.get(i, 0) >= 7:
                    continue
                lens[i] = lens.get(i, 0) + 1
                ops.append(dict(op='append', f=i + 1, k=0, x=x))
            else:
                ops.append(dict(op='set', f=i + 1, k=0, x=x))
        return ops


def walk_messages(fd):
    def rec(d):
        if d.GetOptions().map_entry:
            return
        yield d
        for n in d.nested_types:
            yield from rec(n)
    for m in fd.message_types_by_name.values():
        yield from rec(m)


def walk_enums(fd):
    for e in fd.enum_types_by_name.values():
        yield e
    for m in walk_messages(fd):
        for e in m.enum_types:
            yield e


def main():
    pl = rt.read_payload()
    w = World(pl)
    pkg, module = pl['pkg'], pl['module']
    rnd = random.Random(pl.get('seed', 0))
    blank = dict(id='', full='', script=-1, path=[], msgs=[], enums=[], fields=[], values=[], tops=[])
    traces = []
    target_files = [f for f in pl['api']['files'] if f.get('target', True)]
    try:
        types_pkg = importlib.import_module(module + '.types')
        mods = {f['name']: importlib.import_module(module + '.types.' + f['name'].rsplit('/', 1)[1][:-len('.proto')])
                for f in target_files}
    except Exception:
        rt.emit(dict(import_error=traceback.format_exc()[-3000:], traces=[]))
        return
    located = {}
    for f in target_files:
        fd = w.pool.pool.FindFileByName(f['name'])
        mod = mods[f['name']]
        # module manifest
        tops = sorted(list(fd.message_types_by_name) + list(fd.enum_types_by_name))
        try:
            ev = dict(ev='manifest', names=sorted(mod.__protobuf__.manifest), all=sorted(mod.__all__),
                      exported=sorted(n for n in dir(types_pkg) if getattr(types_pkg, n) is getattr(mod, n, None)))
        except Exception as e:
            ev = dict(ev='error', what=f'{type(e).__name__}: {e}'[:300])
        traces.append(dict(blank, kind='file', full=f['name'], tops=tops, events=[ev]))
        # locate every class by its nesting path
        for d in list(walk_messages(fd)) + list(walk_enums(fd)):
            obj = mod
            try:
                for seg in d.full_name[len(pkg) + 1:].split('.'):
                    obj = getattr(obj, seg)
                located[d.full_name] = obj
            except AttributeError as e:
                located[d.full_name] = e
        for d in walk_messages(fd):
            if not isinstance(located[d.full_name], Exception):
                w.gen_classes[d.full_name] = located[d.full_name]
    scripted = {s['full']: s for s in pl['subjects']}
    for f in target_files:
        fd = w.pool.pool.FindFileByName(f['name'])
        for e in walk_enums(fd):
            cls = located[e.full_name]
            hdr = dict(blank, kind='enum', full=e.full_name, values=[dict(name=v.name, number=v.number) for v in e.values])
            try:
                if isinstance(cls, Exception):
                    raise cls
                ev = dict(ev='declare_enum', members=[dict(name=n, number=int(m.value)) for n, m in cls.__members__.items()])
            except Exception as ex:
                ev = dict(ev='error', what=f'{type(ex).__name__}: {ex}'[:300])
            traces.append(dict(hdr, events=[ev]))
        for d in walk_messages(fd):
            cls = located[d.full_name]
            sub = scripted.get(d.full_name, {})
            hdr = dict(blank, kind='val', id=sub.get('id', ''), full=d.full_name, **shape_of(d, pkg))
            try:
                if isinstance(cls, Exception):
                    raise cls
                s = Subject(w, d.full_name, cls)
            except Exception as ex:
                traces.append(dict(hdr, events=[dict(ev='error', what=f'{type(ex).__name__}: {ex}'[:300])]))
                continue
            scripts = [(i, sc) for i, sc in enumerate(sub.get('scripts', []))]
            scripts += [(-2 - i, s.random_script(rnd, sub.get('rlen', 12))) for i in range(sub.get('random', 0))] if s.infields else []
            if not scripts:
                traces.append(dict(hdr, events=[dict(ev='declare', decl=s.decl)]))
            for i, sc in scripts:
                events = [dict(ev='declare', decl=s.decl)]
                try:
                    s.run(sc, events)
                except Exception as ex:
                    events.append(dict(ev='error', what=f'{type(ex).__name__}: {ex}'[:300],
                                       tb=traceback.format_exc()[-600:]))
                traces.append(dict(hdr, script=i, ops=sc, events=events))
    rt.emit(dict(import_error=None, traces=traces))


if __name__ == '__main__':
    try:
        main()
    except Exception:
        traceback.print_exc()
        raise SystemExit(3)
