"""Driver (fresh interpreter, emitted tree on sys.path): replay server fault scripts through the emitted sync and
asyncio gRPC clients and the emitted REST client under virtual time and record RetryTrace events.

payload: {api, module, services: {proto service name: {class, snake}}, methods: {proto method name: snake},
          reply: full name of the reply type, request: {..}, unit: ticks per second,
          cases: [{id, sel: {svc, meth}, ovr: {rmode, r: {on, init, max, mult, codes, deadline}, timeout},
                   script: [code..], jit: [num, den], transport: grpc | grpc_asyncio | rest}],
          streams: {method: cs | bidi}, modes: [sync, async, rest]}
          (grpc cases run in the mode sync, grpc_asyncio in async, rest in rest; a streaming method is called with
          a plain request iterator; over asyncio the returned call object is awaited / iterated by the driver)
result : {traces: [{id, mode, events, error}]}

REST: nothing is sent.  `requests.Session.request` - the layer BELOW the AuthorizedSession the emitted transport
creates - is replaced by a recorder that notes the `timeout` it is called with (one attempt per HTTP request) and
answers from the script with a real `requests.Response`: fault code c -> the HTTP status api-core itself assigns to
the exception class of c, OK -> 200 with the JSON of the reply message.

Events are projections of what was observed from OUTSIDE the emitted code:
  invoke  the arguments this driver passed                      {svc, meth, transport, rmode, r_*, timeout}
  attempt the `timeout` kwarg of one invocation on the channel  {timeout}          (ticks, -1 = None)
          (rest: the `timeout` of one requests.Session.request)
  fault   the status code the scripted server aborted with      {code}
  reply   the scripted server answered normally
  sleep   one sleep asked of the (virtual) clock                {asked, slept}     asked = upper bound given to
                                                                                   random.uniform for this sleep
  return  the client method returned
  raise   the client method raised                              {code, asked, slept}  code = gRPC status of the
          exception, or RetryError (asked/slept = the draw that was refused), or the exception type name
"""
import asyncio
import traceback

from harness import rt, vtime
from harness import loopback_grpc as lg

NO, DFLT = -1, -2


class Ctx:
    def __init__(self, pl, pool):
        self.pl, self.pool = pl, pool
        self.unit = pl['unit']
        self.events = None
        self.script = []
        self.reply = pool.encode(pl['reply'], {'name': 'ok'})
        self.reply_json = b'{"name": "ok"}'

    def ticks(self, x):
        if x is None:
            return NO
        return int(round(x * self.unit))

    def secs(self, t):
        return t / self.unit

    # server side
    def respond(self, path, reqs, md, tr):
        if self.script:
            code = self.script.pop(0)
            self.events.append(dict(ev='fault', code=code))
            raise lg.Abort(code)
        self.events.append(dict(ev='reply'))
        return [self.reply]

    # HTTP side: stands for requests.Session.request
    def http_request(self, session, method, url, **kw):
        import requests
        from google.api_core import exceptions as core_exceptions
        import grpc
        t = kw.get('timeout')
        ok = t is None or (isinstance(t, (int, float)) and not isinstance(t, bool))
        self.events.append(dict(ev='attempt', timeout=self.ticks(t) if ok else -9))
        resp = requests.Response()
        resp.url = url
        resp.encoding = 'utf-8'
        resp.headers['Content-Type'] = 'application/json'
        resp.request = requests.Request(method, url).prepare()
        if self.script:
            code = self.script.pop(0)
            self.events.append(dict(ev='fault', code=code))
            status = core_exceptions.exception_class_for_grpc_status(getattr(grpc.StatusCode, code)).code
            resp.status_code = int(status)
            resp._content = ('{"error": {"code": %d, "message": "scripted", "status": "%s"}}' % (int(status), code)).encode()
        else:
            self.events.append(dict(ev='reply'))
            resp.status_code = 200
            resp._content = self.reply_json
        return resp

    # channel side (list-like sink handed to record_channel)
    def append(self, e):
        if e.get('ev') == 'ChannelCall' and self.events is not None:
            self.events.append(dict(ev='attempt', timeout=self.ticks(e['timeout'])))

    # clock side
    def on_sleep(self, asked, d):
        self.events.append(dict(ev='sleep', asked=self.ticks(asked) if asked is not None else NO, slept=self.ticks(d)))


def call_kwargs(ctx, ovr, asyncio_):
    from google.api_core import exceptions as core_exceptions
    from google.api_core import retry as retries
    from google.api_core import retry_async as retries_async
    import grpc
    kw = {}
    if ovr['timeout'] == NO:
        kw['timeout'] = None
    elif ovr['timeout'] != DFLT:
        kw['timeout'] = ctx.secs(ovr['timeout'])
    if ovr['rmode'] == 'none':
        kw['retry'] = None
    elif ovr['rmode'] == 'custom':
        r = ovr['r']
        classes = [core_exceptions.exception_class_for_grpc_status(getattr(grpc.StatusCode, c)) for c in r['codes']]
        R = retries_async.AsyncRetry if asyncio_ else retries.Retry
        kw['retry'] = R(predicate=retries.if_exception_type(*classes), initial=ctx.secs(r['init']),
                        maximum=ctx.secs(r['max']), multiplier=r['mult'][0] / r['mult'][1],
                        timeout=None if r['deadline'] == NO else ctx.secs(r['deadline']))
    return kw


def invoke_event(c):
    o = c['ovr']
    r = o['r']
    return dict(ev='invoke', svc=c['sel']['svc'], meth=c['sel']['meth'], transport=c.get('transport', 'grpc'),
                rmode=o['rmode'], timeout=o['timeout'],
                r_on=r['on'], r_init=r['init'], r_max=r['max'], r_mult=r['mult'], r_codes=sorted(r['codes']),
                r_deadline=r['deadline'])


def raise_event(vc, ctx, e):
    from google.api_core import exceptions as core_exceptions
    if isinstance(e, core_exceptions.RetryError):
        d = vc.pending_draw()
        return dict(ev='raise', code='RetryError', asked=ctx.ticks(d[1]) if d else NO, slept=ctx.ticks(d[2]) if d else NO)
    code = getattr(e, 'grpc_status_code', None)
    name = code.name if code is not None and hasattr(code, 'name') else type(e).__name__
    return dict(ev='raise', code=name, asked=0, slept=0)


def main():
    pl = rt.read_payload()
    pool = rt.Pool(pl['api'])
    ctx = Ctx(pl, pool)
    vc = vtime.install(vtime.VClock())
    vc.on_sleep = ctx.on_sleep
    srv = lg.Server(ctx.respond)
    traces = []

    def begin(c):
        ctx.events = [invoke_event(c)]
        ctx.script = list(c['script'])
        vc.reset(c['jit'][0] / c['jit'][1])

    grpc_cases = [c for c in pl['cases'] if c.get('transport', 'grpc') == 'grpc']
    aio_cases = [c for c in pl['cases'] if c.get('transport') == 'grpc_asyncio']
    rest_cases = [c for c in pl['cases'] if c.get('transport') == 'rest']
    streams = pl.get('streams', {})
    import importlib
    Req = getattr(importlib.import_module(pl['module']), pl.get('request_type', 'Req'))

    def request_iterator():
        """a plain iterator, consumed by the first attempt (api-core's retry hands the same object in again)."""
        return iter([Req(**pl['request']), Req(**pl['request'])])

    def run_sync(clients, cases, mode):
        for c in cases:
            begin(c)
            err = None
            fn = getattr(clients[c['sel']['svc']], pl['methods'][c['sel']['meth']])
            kind = streams.get(c['sel']['meth'])
            try:
                if kind is None:
                    fn(request=dict(pl['request']), **call_kwargs(ctx, c['ovr'], False))
                else:
                    out = fn(requests=request_iterator(), **call_kwargs(ctx, c['ovr'], False))
                    if kind == 'bidi':
                        for _ in out:
                            pass
                ctx.events.append(dict(ev='return'))
            except Exception as e:
                err = f'{type(e).__name__}: {e}'[:200]
                ctx.events.append(raise_event(vc, ctx, e))
            traces.append(dict(id=c['id'], mode=mode, events=ctx.events, error=err))

    try:
        if 'rest' in pl['modes'] and rest_cases:
            import requests
            real = requests.Session.request
            requests.Session.request = lambda session, method, url, **kw: ctx.http_request(session, method, url, **kw)
            try:
                clients = {svc: rt.rest_client(pl['module'], info['snake'], info['class'], '127.0.0.1:9')[1]
                           for svc, info in pl['services'].items()}
                run_sync(clients, rest_cases, 'rest')
            finally:
                requests.Session.request = real
        if 'sync' in pl['modes'] and grpc_cases:
            clients = {}
            for svc, info in pl['services'].items():
                clients[svc] = rt.grpc_client(pl['module'], info['snake'], info['class'], srv.target, ctx)[1]
            run_sync(clients, grpc_cases, 'sync')
        if 'async' in pl['modes'] and aio_cases:
            async def amain():
                clients, chans = {}, []
                for svc, info in pl['services'].items():
                    _, cl, ch = rt.grpc_client(pl['module'], info['snake'], info['class'], srv.target, ctx, asyncio_=True)
                    clients[svc] = cl
                    chans.append(ch)
                for c in aio_cases:
                    begin(c)
                    err = None
                    fn = getattr(clients[c['sel']['svc']], pl['methods'][c['sel']['meth']])
                    kind = streams.get(c['sel']['meth'])
                    try:
                        if kind is None:
                            await fn(request=dict(pl['request']), **call_kwargs(ctx, c['ovr'], True))
                        else:
                            # the asyncio client hands back the call object; the caller awaits / iterates it
                            call = await fn(requests=request_iterator(), **call_kwargs(ctx, c['ovr'], True))
                            if kind == 'bidi':
                                async for _ in call:
                                    pass
                            else:
                                await call
                        ctx.events.append(dict(ev='return'))
                    except Exception as e:
                        err = f'{type(e).__name__}: {e}'[:200]
                        ctx.events.append(raise_event(vc, ctx, e))
                    traces.append(dict(id=c['id'], mode='async', events=ctx.events, error=err))
                for ch in chans:
                    await ch.close()
            asyncio.run(amain())
    finally:
        srv.stop()
    rt.emit(dict(traces=traces))


if __name__ == '__main__':
    try:
        main()
    except Exception:
        traceback.print_exc()
        raise SystemExit(3)
