"""Driver for C12 (fresh interpreter, emitted tree on sys.path): for every word of one position observe under which
name the entity is reachable in the surface and which name travels on the wire.

payload: {api, module, position, words}
result : {obs: [{word, position, surface_seen, wire_seen, problems:[..]}]}
"""
import importlib
import inspect
import json
import traceback
import urllib.parse

from harness import rt
from harness import loopback_grpc as lg
from harness import loopback_http as lh

PKG = 'acme.nm.v1'


def cap(w):
    return w[:1].upper() + w[1:]


def main():
    pl = rt.read_payload()
    pool = rt.Pool(pl['api'])
    position, words = pl['position'], pl['words']
    state = dict(last=None, http=None)

    def respond(path, reqs, md, tr):
        state['last'] = dict(path=path, reqs=reqs, md=md)
        return [pool.encode(f'{PKG}.Out', {'name': 'ok'})]

    def respond_http(entry):
        state['http'] = entry
        return 200, b'{"name": "ok"}', {}

    srv = lg.Server(respond); hsrv = lh.Server(respond_http)
    out = []
    try:
        chlog = []
        mod, client, ch = rt.grpc_client(pl['module'], 'nm', 'Nm', srv.target, chlog)
        _, rclient = rt.rest_client(pl['module'], 'nm', 'Nm', hsrv.hostport)
        for i, w in enumerate(words):
            attr = w + '_'
            o = dict(word=w, position=position, surface_seen='', wire_seen='', problems=[])
            try:
                M = getattr(mod, f'M{i}')
                meth = f'call{i}'
                state['last'] = state['http'] = None

                def fields_of(cls):
                    return list(cls.meta.fields)

                def decoded(j=0):
                    return pool.decode(f'{PKG}.M{i}', state['last']['reqs'][j])

                def header():
                    for k, v in state['last']['md']:
                        if k == 'x-goog-request-params':
                            return urllib.parse.parse_qsl(v, keep_blank_values=True)
                    return []

                if position == 'top_field':
                    fs = fields_of(M)
                    o['surface_seen'] = attr if attr in fs else (w if w in fs else '')
                    msg = M(**{attr: 'v'})
                    if getattr(msg, attr) != 'v':
                        o['problems'].append(f'attribute {attr} does not read back')
                    getattr(client, meth)(request=msg)
                    d = decoded()
                    o['wire_seen'] = w if d.get(w) == 'v' else ('?' + json.dumps(d))
                    js = json.loads(M.to_json(msg))
                    from harness import absapi
                    want = absapi.camel(w)          # protoc's lowerCamel JSON name of the ORIGINAL field name
                    if want not in js:
                        o['problems'].append(f'JSON keys {list(js)} lack {want}')
                    # REST: the field is REQUIRED and bound to the query string (set, then unset -> default-valued)
                    for val in ('v', None):
                        state['http'] = None
                        getattr(rclient, meth)(request=M(**({attr: val} if val else {})))
                        q = urllib.parse.parse_qsl(state['http']['query'], keep_blank_values=True)
                        keys = [k for k, _ in q if not k.startswith('$')]
                        if (want, val or '') not in q:
                            o['problems'].append(f'REST query {q} lacks {want}={val or ""!r}')
                        if any(k not in (want, 'plain') for k in keys):
                            o['problems'].append(f'REST query carries foreign keys: {q}')
                elif position == 'nested_field':
                    In = getattr(mod, f'In{i}')
                    fs = fields_of(In)
                    o['surface_seen'] = attr if attr in fs else (w if w in fs else '')
                    getattr(client, meth)(request=M(inner=In(**{attr: 'v'})))
                    d = decoded()
                    o['wire_seen'] = w if (d.get('inner') or {}).get(w) == 'v' else ('?' + json.dumps(d))
                elif position == 'flattened_param':
                    for c in (client,):
                        params = list(inspect.signature(getattr(c, meth)).parameters)
                        o['surface_seen'] = attr if attr in params else (w if w in params else '')
                    getattr(client, meth)(**{attr: 'v', 'plain': 'p'})
                    d = decoded()
                    o['wire_seen'] = w if d.get(w) == 'v' and d.get('plain') == 'p' else ('?' + json.dumps(d))
                elif position == 'flattened_dotted':
                    params = list(inspect.signature(getattr(client, meth)).parameters)
                    o['surface_seen'] = attr if attr in params else (w if w in params else '')
                    getattr(client, meth)(**{attr: 'v', 'plain': 'p', 'other': 'o'})
                    d = decoded()
                    inner = d.get('inner') or {}
                    o['wire_seen'] = w if inner.get(w) == 'v' and inner.get('other') == 'o' and d.get('plain') == 'p' else ('?' + json.dumps(d))
                elif position == 'http_path_sibling':
                    fs = fields_of(M)
                    o['surface_seen'] = attr if attr in fs else (w if w in fs else '')
                    sib = (w + '_id_') if (w + '_id_') in fs else (w + '_id')
                    getattr(rclient, meth)(request=M(**{attr: 'items/x', sib: 'k1', 'plain': 'p'}))
                    h = state['http']
                    ok_path = h and h['path'] == f'/v1/m{i}/k1/things/items/x'
                    q = urllib.parse.parse_qsl(h['query']) if h else []
                    body = json.loads(h['body'].decode() or '{}') if h else None
                    getattr(client, meth)(request=M(**{attr: 'items/x', sib: 'k1'}))
                    hp = header()
                    ok_hdr = (w, 'items/x') in hp and (w + '_id', 'k1') in hp
                    o['wire_seen'] = w if ok_path and ok_hdr and body == {'plain': 'p'} else f'?path={h and h["path"]} body={body} header={hp}'
                elif position == 'http_path_top':
                    fs = fields_of(M)
                    o['surface_seen'] = attr if attr in fs else (w if w in fs else '')
                    getattr(rclient, meth)(request=M(**{attr: 'items/x', 'plain': 'p'}))
                    h = state['http']
                    ok_path = h and h['path'] == f'/v1/m{i}/items/x'
                    getattr(client, meth)(request=M(**{attr: 'items/x'}))
                    hp = header()
                    ok_hdr = (w, 'items/x') in hp
                    o['wire_seen'] = w if ok_path and ok_hdr else f'?path={h and h["path"]} header={hp}'
                elif position == 'http_path_dotted':
                    In = getattr(mod, f'In{i}')
                    fs = fields_of(In)
                    o['surface_seen'] = attr if attr in fs else (w if w in fs else '')
                    getattr(rclient, meth)(request=M(inner=In(**{attr: 'items/x'}), plain='p'))
                    h = state['http']
                    ok_path = h and h['path'] == f'/v1/m{i}/items/x'
                    getattr(client, meth)(request=M(inner=In(**{attr: 'items/x'})))
                    hp = header()
                    ok_hdr = (f'inner.{w}', 'items/x') in hp
                    o['wire_seen'] = w if ok_path and ok_hdr else f'?path={h and h["path"]} header={hp}'
                elif position == 'http_path_head':
                    In = getattr(mod, f'In{i}')
                    fs = fields_of(M)
                    o['surface_seen'] = attr if attr in fs else (w if w in fs else '')
                    getattr(rclient, meth)(request=M(**{attr: In(other='items/x'), 'plain': 'p'}))
                    h = state['http']
                    ok_path = h and h['path'] == f'/v1/m{i}/items/x'
                    getattr(client, meth)(request=M(**{attr: In(other='items/x')}))
                    hp = header()
                    ok_hdr = (f'{w}.other', 'items/x') in hp
                    o['wire_seen'] = w if ok_path and ok_hdr else f'?path={h and h["path"]} header={hp}'
                elif position == 'http_body_additional':
                    In = getattr(mod, f'In{i}')
                    fs = fields_of(M)
                    o['surface_seen'] = attr if attr in fs else (w if w in fs else '')
                    seen = []
                    for which in ('first', 'second'):
                        state['http'] = None
                        getattr(rclient, meth)(request=M(**{attr: In(other='o'), 'plain': which + '/x'}))
                        h = state['http']
                        body = json.loads(h['body'].decode() or '{}') if h else None
                        seen.append((h and h['path'], body))
                    want = [(f'/v1/m{i}/first/x', {'other': 'o'}), (f'/v1/m{i}/second/x', {'other': 'o'})]
                    o['wire_seen'] = w if seen == want else f'?requests={seen}'
                elif position == 'http_body':
                    In = getattr(mod, f'In{i}')
                    fs = fields_of(M)
                    o['surface_seen'] = attr if attr in fs else (w if w in fs else '')
                    getattr(rclient, meth)(request=M(**{attr: In(other='o'), 'plain': 'p'}))
                    h = state['http']
                    body = json.loads(h['body'].decode() or '{}') if h else None
                    q = urllib.parse.parse_qsl(h['query']) if h else []
                    o['wire_seen'] = w if body == {'other': 'o'} and ('plain', 'p') in q else f'?body={body} query={q}'
                elif position == 'routing_field':
                    fs = fields_of(M)
                    o['surface_seen'] = attr if attr in fs else (w if w in fs else '')
                    getattr(client, meth)(request=M(**{attr: 'v'}))
                    hp = header()
                    o['wire_seen'] = w if (w, 'v') in hp else f'?header={hp}'
                elif position == 'routing_template':
                    fs = fields_of(M)
                    o['surface_seen'] = attr if attr in fs else (w if w in fs else '')
                    getattr(client, meth)(request=M(**{attr: 'items/x'}))
                    hp = header()
                    o['wire_seen'] = w if hp == [(w, 'items/x')] else f'?header={hp}'
                elif position == 'rpc_name':
                    names = [n for n in dir(client) if not n.startswith('__')]
                    o['surface_seen'] = attr if attr in names else (w if w in names else '')
                    getattr(client, attr)(request=M(plain='p'))
                    o['wire_seen'] = w if state['last']['path'] == f'/{PKG}.Nm/{cap(w)}' else '?' + state['last']['path']
                    getattr(rclient, attr)(request=M(plain='p'))
                elif position == 'proto_file':
                    try:
                        tm = importlib.import_module(f"{pl['module']}.types.{attr}")
                        o['surface_seen'] = attr
                    except ImportError:
                        tm = None
                        try:
                            importlib.import_module(f"{pl['module']}.types.{w}"); o['surface_seen'] = w
                        except Exception:
                            o['surface_seen'] = ''
                    T = getattr(tm, f'T{i}') if tm else None
                    full = T.pb(T()).DESCRIPTOR.full_name if T else ''
                    getattr(client, meth)(request=M(plain='p', t=T(x='1') if T else None))
                    d = decoded()
                    o['wire_seen'] = w if full == f'{PKG}.T{i}' and (d.get('t') or {}).get('x') == '1' else f'?{full} {d}'
            except Exception as e:
                o['problems'].append(f'{type(e).__name__}: {e}'[:240])
            out.append(o)
        ch.close()

        # the asyncio client: same surface names, same wire (gRPC positions)
        async def apass():
            amod, aclient, ach = rt.grpc_client(pl['module'], 'nm', 'Nm', srv.target, [], asyncio_=True)
            for i, w in enumerate(words):
                attr = w + '_'
                o = out[i]
                if o['problems'] or o['wire_seen'] != w:
                    continue          # already reported for the sync client
                try:
                    M = getattr(amod, f'M{i}')
                    meth = f'call{i}'
                    state['last'] = None

                    def decoded():
                        return pool.decode(f'{PKG}.M{i}', state['last']['reqs'][0])

                    def header():
                        for k, v in state['last']['md']:
                            if k == 'x-goog-request-params':
                                return urllib.parse.parse_qsl(v, keep_blank_values=True)
                        return []
                    seen = None
                    if position == 'top_field':
                        await getattr(aclient, meth)(request=M(**{attr: 'v'}))
                        seen = decoded().get(w) == 'v'
                    elif position == 'nested_field':
                        In = getattr(amod, f'In{i}')
                        await getattr(aclient, meth)(request=M(inner=In(**{attr: 'v'})))
                        seen = (decoded().get('inner') or {}).get(w) == 'v'
                    elif position == 'flattened_param':
                        params = list(inspect.signature(getattr(aclient, meth)).parameters)
                        if attr not in params:
                            o['problems'].append(f'asyncio client: parameters {params} lack {attr}')
                        await getattr(aclient, meth)(**{attr: 'v', 'plain': 'p'})
                        d = decoded()
                        seen = d.get(w) == 'v' and d.get('plain') == 'p'
                    elif position == 'flattened_dotted':
                        params = list(inspect.signature(getattr(aclient, meth)).parameters)
                        if attr not in params:
                            o['problems'].append(f'asyncio client: parameters {params} lack {attr}')
                        await getattr(aclient, meth)(**{attr: 'v', 'plain': 'p', 'other': 'o'})
                        d = decoded()
                        seen = (d.get('inner') or {}).get(w) == 'v' and (d.get('inner') or {}).get('other') == 'o' and d.get('plain') == 'p'
                    elif position == 'http_path_top':
                        await getattr(aclient, meth)(request=M(**{attr: 'items/x'}))
                        seen = (w, 'items/x') in header()
                    elif position == 'http_path_dotted':
                        In = getattr(amod, f'In{i}')
                        await getattr(aclient, meth)(request=M(inner=In(**{attr: 'items/x'})))
                        seen = (f'inner.{w}', 'items/x') in header()
                    elif position == 'http_path_head':
                        In = getattr(amod, f'In{i}')
                        await getattr(aclient, meth)(request=M(**{attr: In(other='items/x')}))
                        seen = (f'{w}.other', 'items/x') in header()
                    elif position == 'routing_field':
                        await getattr(aclient, meth)(request=M(**{attr: 'v'}))
                        seen = (w, 'v') in header()
                    elif position == 'routing_template':
                        await getattr(aclient, meth)(request=M(**{attr: 'items/x'}))
                        seen = header() == [(w, 'items/x')]
                    elif position == 'rpc_name':
                        if not hasattr(aclient, attr):
                            o['problems'].append(f'asyncio client lacks method {attr}')
                        await getattr(aclient, attr)(request=M(plain='p'))
                        seen = state['last']['path'] == f'/{PKG}.Nm/{cap(w)}'
                    if seen is False:
                        o['problems'].append(f'asyncio client: wire differs ({position}): path={state["last"] and state["last"]["path"]} '
                                             f'md={state["last"] and [m for m in state["last"]["md"] if m[0].startswith("x-goog-req")]}')
                except Exception as e:
                    o['problems'].append(f'asyncio client: {type(e).__name__}: {e}'[:240])
            await ach.close()
        import asyncio
        asyncio.run(apass())
    finally:
        srv.stop(); hsrv.stop()
    rt.emit(dict(obs=out))


if __name__ == '__main__':
    try:
        main()
    except Exception:
        traceback.print_exc()
        raise SystemExit(3)
