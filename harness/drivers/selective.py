"""Driver (fresh interpreter, emitted tree on sys.path): observe the surface of one emitted library (full or
selectively generated) and exercise it.

payload: {api, module, pkg, rpcs: [{s, n, inp, out, kind, resp, meta, opsvc}], depth}
result : {import_errors: [..], types: [{name, kind}], unusable: [{name, kind, step, error}],
          exports: [client class names exported by the package],
          services: {svc: {sync: {cls, public: [rpc..], internal: [rpc..]} | None, async: {...} | None}},
          calls: {"Svc.Rpc": {name, path, stub, request, result, error}}}

Everything is a projection of what is observable from OUTSIDE the emitted code:
* classes are found by walking the `types` modules (qualified Python class names = proto names relative to the package);
* every message class is instantiated, fed bytes produced from the INPUT descriptors (`deserialize`), serialised again and
  the bytes are decoded with the INPUT descriptors (a dangling lazy reference only fails on use);
* every RPC method present on a sync client is called once against the loopback gRPC server; the request is decoded
  at the server with the INPUT descriptors, the reply is produced from the INPUT descriptors, the returned value is
  serialised and decoded with the INPUT descriptors.
No expectation lives here.
"""
import importlib
import inspect
import pkgutil
import re
import traceback

from google.protobuf import any_pb2, json_format
from google.protobuf import descriptor as _d

from harness import rt
from harness import loopback_grpc as lg


def snake(name):
    return re.sub(r'(?<!^)(?=[A-Z])', '_', name).lower()


def short(e):
    return f'{type(e).__name__}: {e}'.replace('\n', ' ')[:300]


# ---- values built from the INPUT descriptors -------------------------------------------------------------------
_SCALAR = {
    _d.FieldDescriptor.TYPE_STRING: lambda n: 'v-' + n, _d.FieldDescriptor.TYPE_BYTES: lambda n: b'\x01\x02',
    _d.FieldDescriptor.TYPE_BOOL: lambda n: True, _d.FieldDescriptor.TYPE_DOUBLE: lambda n: 1.5,
    _d.FieldDescriptor.TYPE_FLOAT: lambda n: 2.5,
}


def fill(msg, depth):
    """set every field of the dynamic message (messages recursively down to `depth`)."""
    for f in msg.DESCRIPTOR.fields:
        is_map = f.message_type is not None and f.message_type.GetOptions().map_entry
        rep = f.label == _d.FieldDescriptor.LABEL_REPEATED
        if is_map:
            vf = f.message_type.fields_by_name['value']
            if vf.message_type is not None:
                if depth > 0:
                    fill(getattr(msg, f.name)['k'], depth - 1)
            elif vf.enum_type is not None:
                getattr(msg, f.name)['k'] = vf.enum_type.values[-1].number
            else:
                getattr(msg, f.name)['k'] = _SCALAR.get(vf.type, lambda n: 7)(vf.name)
        elif f.message_type is not None:
            if depth <= 0:
                continue
            sub = getattr(msg, f.name).add() if rep else getattr(msg, f.name)
            fill(sub, depth - 1)
            if not rep and not sub.ListFields():
                sub.SetInParent()
        else:
            if f.enum_type is not None:
                v = f.enum_type.values[-1].number
            else:
                v = _SCALAR.get(f.type, lambda n: 7)(f.name)
            if rep:
                getattr(msg, f.name).append(v)
            else:
                setattr(msg, f.name, v)
    return msg


class World:
    def __init__(self, pl):
        self.pl = pl
        self.pool = rt.Pool(pl['api'])
        self.pkg = pl['pkg']
        self.depth = pl.get('depth', 4)
        self.current = None
        self.seen = None
        self.chlog = []

    def full(self, t):
        """graph name -> fully qualified proto name (target names are relative to the package)."""
        return t if (t.startswith('google.') or t.startswith('other.')) else f'{self.pkg}.{t}'

    def rich(self, t, page_token=None):
        m = fill(self.pool.cls(self.full(t))(), self.depth)
        if page_token is not None and 'next_page_token' in m.DESCRIPTOR.fields_by_name:
            m.next_page_token = page_token
        return m

    def decode(self, t, raw):
        return self.pool.decode(self.full(t), raw)

    # ---- server side
    def respond(self, path, reqs, md, tr):
        r = self.current
        self.seen = dict(path=path, request=[self.decode(r['inp'], b) for b in reqs])
        k = r['kind']
        if k == 'lro':
            op = self.pool.cls('google.longrunning.Operation')()
            op.name = 'operations/op1'; op.done = True
            op.response.Pack(self.rich(r['resp'])); op.metadata.Pack(self.rich(r['meta']))
            return [op.SerializeToString()]
        if k == 'void':
            return [b'']
        m = self.rich(r['out'], page_token='' if k == 'paged' else None)
        if k in ('extop', 'poll'):
            st = m.DESCRIPTOR.fields_by_name.get('status')
            if st is not None and st.enum_type is not None and 'DONE' in st.enum_type.values_by_name:
                m.status = st.enum_type.values_by_name['DONE'].number
        return [m.SerializeToString()]


def pb_bytes(x):
    t = type(x)
    if hasattr(t, 'pb'):
        return t.pb(x).SerializeToString()
    return x.SerializeToString()


def walk_types(w, module_name, errors):
    """message / enum classes defined in the `types` modules, by qualified class name.  Classes that the INPUT descriptors
    declare as synthetic map entries (proto-plus materialises `XEntry` classes for map fields) are not types of the API."""
    import proto
    found = {}

    def is_map_entry(qualname):
        try:
            return bool(w.pool.pool.FindMessageTypeByName(w.full(qualname)).GetOptions().map_entry)
        except KeyError:
            return False
    try:
        tpkg = importlib.import_module(module_name + '.types')
    except Exception as e:
        errors.append(f'{module_name}.types: {short(e)}')
        return found
    mods = [tpkg]
    for x in pkgutil.iter_modules(tpkg.__path__, tpkg.__name__ + '.'):
        try:
            mods.append(importlib.import_module(x.name))
        except Exception as e:
            errors.append(f'{x.name}: {short(e)}')

    def visit(cls, modname):
        kind = 'enum' if issubclass(cls, proto.Enum) else 'message'
        if kind == 'message' and is_map_entry(cls.__qualname__):
            return
        found.setdefault(cls.__qualname__, (kind, cls))
        for v in list(vars(cls).values()):
            if inspect.isclass(v) and issubclass(v, (proto.Message, proto.Enum)) and v.__module__ == modname \
                    and v.__qualname__.startswith(cls.__qualname__ + '.'):
                visit(v, modname)

    for m in mods[1:]:
        for v in list(vars(m).values()):
            if inspect.isclass(v) and issubclass(v, (proto.Message, proto.Enum)) and v.__module__ == m.__name__ \
                    and '.' not in v.__qualname__:
                visit(v, m.__name__)
    return found


def check_class(w, name, kind, cls):
    """instantiate and round-trip one kept class; returns None or (step, error)."""
    step = 'instantiate'
    try:
        if kind == 'enum':
            ed = w.pool.pool.FindEnumTypeByName(w.full(name))
            for v in ed.values:
                if cls(v.number).name != v.name:
                    return 'enum-values', f'{v.number} is {cls(v.number).name}, declared {v.name}'
            return None
        cls()
        step = 'deserialize'
        src = w.rich(name)
        raw = src.SerializeToString()
        obj = cls.deserialize(raw)
        step = 'serialize'
        back = cls.serialize(obj)
        step = 'compare'
        if w.decode(name, back) != w.decode(name, raw):
            return 'roundtrip', f'{w.decode(name, back)} != {w.decode(name, raw)}'[:300]
        step = 'read-fields'
        for f in src.DESCRIPTOR.fields:
            getattr(obj, f.name)
    except Exception as e:
        return step, short(e)
    return None


def surface_of(cls, rpcs):
    pub = [r['n'] for r in rpcs if callable(getattr(cls, snake(r['n']), None))]
    internal = [r['n'] for r in rpcs if callable(getattr(cls, '_' + snake(r['n']), None))]
    return dict(cls=cls.__name__, public=sorted(pub), internal=sorted(internal))


def client_classes(modname, suffix):
    try:
        m = importlib.import_module(modname)
    except ModuleNotFoundError:
        return None, None
    cs = [v for v in vars(m).values() if inspect.isclass(v) and v.__module__ == modname and v.__name__.endswith(suffix)]
    return m, cs


def call_rpc(w, client, mname, r, types):
    obs = dict(name=mname, path=None, stub=None, request=None, result=None, error=None)
    w.current, w.seen = r, None
    del w.chlog[:]
    try:
        raw = w.rich(r['inp']).SerializeToString()
        if r['inp'] in types:
            request = types[r['inp']][1].deserialize(raw)
        else:   # request class not part of the library: hand over the plain mapping
            request = json_format.MessageToDict(w.rich(r['inp']), preserving_proto_field_name=True)
        fn = getattr(client, mname)
        res = fn(request=request)
        k = r['kind']
        if k == 'lro':
            val = res.result(timeout=10)
            obs['result'] = dict(response=w.decode(r['resp'], pb_bytes(val)), metadata=w.decode(r['meta'], pb_bytes(res.metadata)))
        elif k == 'paged':
            obs['result'] = dict(pages=[w.decode(r['out'], pb_bytes(p)) for p in res.pages])
        elif k == 'void':
            obs['result'] = dict(none=res is None)
        elif k == 'extop':
            obs['result'] = dict(wrapper=[c.__name__ for c in type(res).__mro__ if c.__module__.startswith('google.api_core')][:1])
        else:
            obs['result'] = dict(value=w.decode(r['out'], pb_bytes(res)))
    except Exception as e:
        obs['error'] = short(e)
    if w.seen:
        obs['path'] = w.seen['path']; obs['request'] = w.seen['request']
    for e in w.chlog:
        if e['ev'] == 'Factory' and e['path'] == obs['path']:
            obs['stub'] = e['kind']
    return obs


def anonymous_default_credentials():
    """environment stub: application-default credentials resolve to anonymous ones (an extended-operation RPC builds the
    client of its polling service from the ambient credentials)."""
    import google.auth
    from google.auth.credentials import AnonymousCredentials
    google.auth.default = lambda *a, **k: (AnonymousCredentials(), 'verif-project')


def main():
    pl = rt.read_payload()
    anonymous_default_credentials()
    w = World(pl)
    module = pl['module']
    out = dict(import_errors=[], types=[], unusable=[], exports=[], services={}, calls={})
    try:
        mod = importlib.import_module(module)
        for x in pkgutil.walk_packages(mod.__path__, mod.__name__ + '.'):
            try:
                importlib.import_module(x.name)
            except Exception as e:
                out['import_errors'].append(f'{x.name}: {short(e)}')
    except Exception as e:
        out['import_errors'].append(f'{module}: {short(e)}')
        rt.emit(out)
        return
    out['exports'] = sorted(n for n in dir(mod) if n.endswith('Client') and inspect.isclass(getattr(mod, n)))
    types = walk_types(w, module, out['import_errors'])
    out['types'] = sorted(([n, k] for n, (k, _) in types.items()))
    for n, (k, cls) in sorted(types.items()):
        bad = check_class(w, n, k, cls)
        if bad:
            out['unusable'].append(dict(name=n, kind=k, step=bad[0], error=bad[1]))
    srv = lg.Server(w.respond)
    try:
        for s in sorted({r['s'] for r in pl['rpcs']}):
            rpcs = [r for r in pl['rpcs'] if r['s'] == s]
            base = f'{module}.services.{snake(s)}'
            entry = dict(sync=None, **{'async': None})
            _, sync = client_classes(base + '.client', 'Client')
            _, asy = client_classes(base + '.async_client', 'AsyncClient')
            if sync is None and asy is None:
                continue
            out['services'][s] = entry
            if asy:
                entry['async'] = surface_of(asy[0], rpcs)
            if not sync:
                continue
            entry['sync'] = surface_of(sync[0], rpcs)
            try:
                tmod = importlib.import_module(base + '.transports')
                T = [v for k, v in vars(tmod).items() if inspect.isclass(v) and k.endswith('GrpcTransport')][0]
                ch = lg.sync_channel(srv.target, w.chlog)
                client = sync[0](transport=T(channel=ch))
            except Exception as e:
                for r in rpcs:
                    out['calls'][f"{s}.{r['n']}"] = dict(name=None, path=None, stub=None, request=None, result=None,
                                                        error='client construction: ' + short(e))
                continue
            for r in rpcs:
                for mname in (snake(r['n']), '_' + snake(r['n'])):
                    if callable(getattr(client, mname, None)):
                        out['calls'][f"{s}.{r['n']}"] = call_rpc(w, client, mname, r, types)
                        break
            ch.close()
    finally:
        srv.stop()
    rt.emit(out)


if __name__ == '__main__':
    try:
        main()
    except Exception:
        traceback.print_exc()
        raise SystemExit(3)
