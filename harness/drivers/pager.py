"""Driver (fresh interpreter, emitted tree on sys.path): replay server page histories through the emitted
sync and asyncio pagers behind the loopback gRPC server and record PagerTrace events.

payload: {api, module, service, service_snake, pkg, methods: {kind: {name, snake, req, resp, field}},
          cases: [{id, kind, pages:[{n, more}], base:{...request fields...}, md, timeout}], modes: [sync, async]}
result : {traces: [{id, mode, kind, history, ordered, events, error}]}

Events are projections of what was observed from outside the emitted code: requests decoded at the
server with the INPUT descriptors, invocation metadata at the server, timeout kwarg at the channel, items
as handed out by the iterator, `pager.total` read at each step.
"""
import asyncio
import json
import traceback

from harness import rt
from harness import loopback_grpc as lg


def canon(d):
    return json.dumps(d, sort_keys=True, separators=(',', ':'))


def tok_num(t):
    if t == '':
        return 0
    if t.startswith('t') and t[1:].isdigit():
        return int(t[1:])
    return 99


def item_id(kind, x):
    """abstract id of what the iterator yielded (items are numbered globally by the case)."""
    try:
        if kind == 'msg':
            return int(x.id)
        if kind == 'scalar':
            return int(str(x)[1:])
        if kind == 'map':
            k, v = x
            return int(k[1:]) if int(v.id) == int(k[1:]) else 98
    except Exception:
        pass
    return 97


class Script:
    def __init__(self, pool, pl):
        self.pool, self.pl = pool, pl
        self.case = None
        self.events = None
        self.chlog = []

    def page_dict(self, kind, pages, i):
        before = sum(p['n'] for p in pages[:i - 1])
        ids = [before + k for k in range(1, pages[i - 1]['n'] + 1)]
        d = {'total': i, 'next_page_token': f't{i}' if pages[i - 1]['more'] else ''}
        if kind == 'msg':
            d['items'] = [{'id': x} for x in ids]
        elif kind == 'scalar':
            d['names'] = [f'i{x}' for x in ids]
        else:
            d['by'] = {f'k{x}': {'id': x} for x in ids}
        return d

    def respond(self, path, reqs, md, tr):
        c = self.case
        m = self.pl['methods'][c['kind']]
        req = self.pool.decode(m['req'], reqs[0]) if len(reqs) == 1 else {'page_token': '?'}
        tok = req.pop('page_token', '')
        i = 1 if tok == '' else tok_num(tok) + 1
        # the channel-side record of this attempt is the last ChannelCall
        to = None
        for e in reversed(self.chlog):
            if e['ev'] == 'ChannelCall':
                to = e['timeout']; break
        opts = canon({'md': sorted([k, v] for k, v in md if k.startswith('x-verif')),
                      'timeout': None if to is None else round(to)})
        expected_path = f"/{self.pl['pkg']}.{self.pl['service']}/{m['name']}"
        ev = dict(ev='first' if not any(e['ev'] in ('first', 'fetch') for e in self.events) else 'fetch',
                  token=tok_num(tok), others=canon(req) if path == expected_path else 'WRONG-PATH:' + path,
                  opts=opts, item=0, attr=0)
        self.events.append(ev)
        pages = c['pages']
        if i < 1 or i > len(pages):
            raise lg.Abort('OUT_OF_RANGE', 'no such page')
        return [self.pool.encode(m['resp'], self.page_dict(c['kind'], pages, i))]


def run_sync(pl, script, client, mod, c):
    m = pl['methods'][c['kind']]
    events = script.events
    base = dict(c['base'])
    md = [tuple(x) for x in c.get('md', [])]
    events.append(dict(ev='invoke', others=canon(base), token=0, item=0, attr=0,
                       opts=canon({'md': sorted([k, v] for k, v in md), 'timeout': c.get('timeout')})))
    kw = {}
    if md:
        kw['metadata'] = md
    if c.get('timeout') is not None:
        kw['timeout'] = float(c['timeout'])
    pager = getattr(client, m['snake'])(request=(c.get('_reqobj') if c.get('_reqobj') is not None else base), **kw)
    for x in pager:
        events.append(dict(ev='yield', item=item_id(c['kind'], x), attr=int(pager.total), token=0, others='', opts=''))
    events.append(dict(ev='stop', attr=int(pager.total), item=0, token=0, others='', opts=''))


async def run_async(pl, script, client, mod, c):
    m = pl['methods'][c['kind']]
    events = script.events
    base = dict(c['base'])
    md = [tuple(x) for x in c.get('md', [])]
    events.append(dict(ev='invoke', others=canon(base), token=0, item=0, attr=0,
                       opts=canon({'md': sorted([k, v] for k, v in md), 'timeout': c.get('timeout')})))
    kw = {}
    if md:
        kw['metadata'] = md
    if c.get('timeout') is not None:
        kw['timeout'] = float(c['timeout'])
    pager = await getattr(client, m['snake'])(request=(c.get('_reqobj') if c.get('_reqobj') is not None else base), **kw)
    async for x in pager:
        events.append(dict(ev='yield', item=item_id(c['kind'], x), attr=int(pager.total), token=0, others='', opts=''))
    events.append(dict(ev='stop', attr=int(pager.total), item=0, token=0, others='', opts=''))


def main():
    pl = rt.read_payload()
    pool = rt.Pool(pl['api'])
    script = Script(pool, pl)
    srv = lg.Server(script.respond)
    traces = []
    try:
        if 'sync' in pl['modes']:
            mod, client, ch = rt.grpc_client(pl['module'], pl['service_snake'], pl['service'], srv.target, script.chlog)
            for c0 in pl['cases']:
                # a caller may build ONE request message and list twice with it: both listings must start at the first page
                rounds = [dict(c0)]
                if c0.get('reuse'):
                    obj = getattr(mod, pl['methods'][c0['kind']]['name'] + 'Request')(**c0['base'])
                    rounds = [dict(c0, _reqobj=obj), dict(c0, _reqobj=obj, id=c0['id'] + ':again')]
                for c in rounds:
                    script.case, script.events = c, []
                    del script.chlog[:]
                    err = None
                    try:
                        run_sync(pl, script, client, mod, c)
                    except Exception as e:
                        err = f'{type(e).__name__}: {e}'[:300]
                        script.events.append(dict(ev='raise', item=0, attr=0, token=0, others=type(e).__name__, opts=''))
                    traces.append(dict(id=c['id'], mode='sync', kind=c['kind'], history=c['pages'],
                                       ordered=c['kind'] != 'map', events=script.events, error=err))
        if 'async' in pl['modes']:
            async def amain():
                mod, client, ch = rt.grpc_client(pl['module'], pl['service_snake'], pl['service'], srv.target,
                                                 script.chlog, asyncio_=True)
                for c0 in pl['cases']:
                    rounds = [dict(c0)]
                    if c0.get('reuse'):
                        obj = getattr(mod, pl['methods'][c0['kind']]['name'] + 'Request')(**c0['base'])
                        rounds = [dict(c0, _reqobj=obj), dict(c0, _reqobj=obj, id=c0['id'] + ':again')]
                    for c in rounds:
                        script.case, script.events = c, []
                        del script.chlog[:]
                        err = None
                        try:
                            await run_async(pl, script, client, mod, c)
                        except Exception as e:
                            err = f'{type(e).__name__}: {e}'[:300]
                            script.events.append(dict(ev='raise', item=0, attr=0, token=0, others=type(e).__name__, opts=''))
                        traces.append(dict(id=c['id'], mode='async', kind=c['kind'], history=c['pages'],
                                           ordered=c['kind'] != 'map', events=script.events, error=err))
                await ch.close()
            asyncio.run(amain())
    finally:
        srv.stop()
    rt.emit(dict(traces=traces))


if __name__ == '__main__':
    try:
        main()
    except Exception:
        traceback.print_exc()
        raise SystemExit(3)
