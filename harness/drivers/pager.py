"""Driver (fresh interpreter, emitted tree on sys.path): replay server page histories through the emitted
sync and asyncio pagers behind the loopback gRPC server and record PagerTrace events.

payload: {api, module, service, service_snake, pkg, methods: {kind: {name, snake, req, resp, field}},
          cases: [{id, kind, pages:[{n, more}], base:{...request fields...}, md, timeout}], modes: [sync, async]}
result : {traces: [{id, mode, kind, history, ordered, events, error}]}

Events are projections of what was observed from outside the emitted code: requests decoded at the
server with the INPUT descriptors, invocation metadata at the server, timeout kwarg at the channel, items
as handed out by the iterator, `pager.total` read at each step.
"""
import asyncio
import json
import traceback

from harness import rt
from harness import loopback_grpc as lg


def canon(d):
    return json.dumps(d, sort_keys=True, separators=(',', ':'))


def tok_num(t):
    if t == '':
        return 0
    if t.startswith('t') and t[1:].isdigit():
        return int(t[1:])
    return 99


def item_id(kind, x):
    """abstract id of what the iterator yielded (items are numbered globally by the case)."""
    try:
        if kind == 'msg':
            return int(x.id)
        if kind == 'scalar':
            return int(str(x)[1:])
        if kind == 'map':
            k, v = x
            return int(k[1:]) if int(v.id) == int(k[1:]) else 98
    except Exception:
        pass
    return 97


class Script:
    def __init__(self, pool, pl):
        self.pool, self.pl = pool, pl
        self.case = None
        self.events = None
        self.chlog = []
        self.tolog = []       # the timeout argument the pager passed to its wrapped method (pages >= 2): exact value
        self.kwlog = []       # keyword arguments the pager passed to its wrapped method (pages >= 2), see spy()
        self.served = 0
        self.issued = ''

    def page_dict(self, kind, pages, i):
        before = sum(p['n'] for p in pages[:i - 1])
        ids = [before + k for k in range(1, pages[i - 1]['n'] + 1)]
        # token texts: distinct per page (t1, t2, ...) or, cursor style, the SAME non-empty text on every page
        tok = ('cursor-7' if self.case.get('tokmode') == 'same' else f't{i}') if pages[i - 1]['more'] else ''
        d = {'total': i, 'next_page_token': tok}
        if kind == 'msg':
            d['items'] = [{'id': x} for x in ids]
        elif kind == 'scalar':
            d['names'] = [f'i{x}' for x in ids]
        else:
            d['by'] = {f'k{x}': {'id': x} for x in ids}
        return d

    def respond(self, path, reqs, md, tr):
        c = self.case
        m = self.pl['methods'][c['kind']]
        req = self.pool.decode(m['req'], reqs[0]) if len(reqs) == 1 else {'page_token': '?'}
        tok = req.pop('page_token', '')
        if c.get('tokmode') == 'same':
            # the page is determined by how many were served; the token is "the one issued by the previous page" iff its text is
            i = self.served + 1
            tnum = (self.served if tok == self.issued else 99) if self.served else (0 if tok == '' else 99)
        else:
            i = 1 if tok == '' else tok_num(tok) + 1
            tnum = tok_num(tok)
        # the channel-side record of this attempt is the last ChannelCall
        to = None
        for e in reversed(self.chlog):
            if e['ev'] == 'ChannelCall':
                to = e['timeout']; break
        # retry: not visible at the channel; for pages >= 2 it is what the pager handed to its wrapped method (spy), for the first
        # page it is the caller's own argument
        first = not any(e['ev'] in ('first', 'fetch') for e in self.events)
        rk = c.get('retry', 'default') if first or not self.kwlog else self.kwlog[-1]
        tov = None if to is None else round(to)
        if not first and self.tolog and c.get('timeout') is not None and isinstance(self.tolog[-1], (int, float)) \
                and not isinstance(self.tolog[-1], bool) and self.tolog[-1] != float(c['timeout']):
            # the channel sees time-to-deadline values (rounded above); what the pager itself hands on must be the caller's number
            tov = 'pager-passed:%r' % (self.tolog[-1],)
        opts = canon({'md': sorted([k, v] for k, v in md if k.startswith('x-verif')),
                      'timeout': tov, 'retry': rk})
        expected_path = f"/{self.pl['pkg']}.{self.pl['service']}/{m['name']}"
        ev = dict(ev='first' if not any(e['ev'] in ('first', 'fetch') for e in self.events) else 'fetch',
                  token=tnum, others=canon(req) if path == expected_path else 'WRONG-PATH:' + path,
                  opts=opts, item=0, attr=0)
        self.events.append(ev)
        pages = c['pages']
        if i < 1 or i > len(pages):
            raise lg.Abort('OUT_OF_RANGE', 'no such page')
        pd = self.page_dict(c['kind'], pages, i)
        self.served += 1
        self.issued = pd['next_page_token']
        return [self.pool.encode(m['resp'], pd)]


def retry_kind(v):
    from google.api_core import gapic_v1
    return 'none' if v is None else 'default' if v is gapic_v1.method.DEFAULT else 'object'


def retry_arg(c, asyncio_):
    """the caller's retry argument for this case: absent (the client default), an explicit None, or a Retry object."""
    from google.api_core import retry as retries
    k = c.get('retry', 'default')
    if k == 'none':
        return {'retry': None}
    if k == 'object':
        try:
            from google.api_core import retry_async
            R = retry_async.AsyncRetry if asyncio_ else retries.Retry
        except ImportError:
            R = retries.Retry
        return {'retry': R(predicate=lambda e: False)}
    return {}


def spy(script, pager):
    """record the retry argument of every further page fetch (the pager calls its wrapped method for pages >= 2)."""
    if hasattr(pager, '_method'):
        orig = pager._method

        def wrapped(*a, **kw):
            script.kwlog.append(retry_kind(kw['retry']) if 'retry' in kw else 'absent')
            script.tolog.append(kw.get('timeout', 'absent'))
            return orig(*a, **kw)
        pager._method = wrapped


def caller_moves_on(c):
    """the call has returned: the request message is the caller's again.  In the second listing with a re-used request object the
    caller edits it (preparing the next listing) BEFORE consuming the pager; the listing already started must not notice."""
    obj = c.get('_reqobj')
    if obj is None or not c['id'].endswith(':again'):
        return lambda: None
    old = obj.parent
    obj.parent = 'shelves/the-next-listing'

    def undo():
        obj.parent = old
    return undo


def run_sync(pl, script, client, mod, c):
    m = pl['methods'][c['kind']]
    events = script.events
    base = dict(c['base'])
    md = [tuple(x) for x in c.get('md', [])]
    events.append(dict(ev='invoke', others=canon(base), token=0, item=0, attr=0,
                       opts=canon({'md': sorted([k, v] for k, v in md), 'timeout': c.get('timeout'), 'retry': c.get('retry', 'default')})))
    kw = {}
    if md:
        kw['metadata'] = md
    if c.get('timeout') is not None:
        kw['timeout'] = float(c['timeout'])
    kw.update(retry_arg(c, False))
    pager = getattr(client, m['snake'])(request=(c.get('_reqobj') if c.get('_reqobj') is not None else base), **kw)
    spy(script, pager)
    undo = caller_moves_on(c)
    try:
        for x in pager:
            events.append(dict(ev='yield', item=item_id(c['kind'], x), attr=int(pager.total), token=0, others='', opts=''))
    finally:
        undo()
    events.append(dict(ev='stop', attr=int(pager.total), item=0, token=0, others='', opts=''))


async def run_async(pl, script, client, mod, c):
    m = pl['methods'][c['kind']]
    events = script.events
    base = dict(c['base'])
    md = [tuple(x) for x in c.get('md', [])]
    events.append(dict(ev='invoke', others=canon(base), token=0, item=0, attr=0,
                       opts=canon({'md': sorted([k, v] for k, v in md), 'timeout': c.get('timeout'), 'retry': c.get('retry', 'default')})))
    kw = {}
    if md:
        kw['metadata'] = md
    if c.get('timeout') is not None:
        kw['timeout'] = float(c['timeout'])
    kw.update(retry_arg(c, True))
    pager = await getattr(client, m['snake'])(request=(c.get('_reqobj') if c.get('_reqobj') is not None else base), **kw)
    spy(script, pager)
    undo = caller_moves_on(c)
    try:
        async for x in pager:
            events.append(dict(ev='yield', item=item_id(c['kind'], x), attr=int(pager.total), token=0, others='', opts=''))
    finally:
        undo()
    events.append(dict(ev='stop', attr=int(pager.total), item=0, token=0, others='', opts=''))


def main():
    pl = rt.read_payload()
    pool = rt.Pool(pl['api'])
    script = Script(pool, pl)
    srv = lg.Server(script.respond)
    traces = []
    try:
        if 'sync' in pl['modes']:
            mod, client, ch = rt.grpc_client(pl['module'], pl['service_snake'], pl['service'], srv.target, script.chlog)
            for c0 in pl['cases']:
                # a caller may build ONE request message and list twice with it: both listings must start at the first page
                rounds = [dict(c0)]
                if c0.get('reuse'):
                    obj = getattr(mod, pl['methods'][c0['kind']]['name'] + 'Request')(**c0['base'])
                    rounds = [dict(c0, _reqobj=obj), dict(c0, _reqobj=obj, id=c0['id'] + ':again')]
                for c in rounds:
                    script.case, script.events = c, []
                    del script.chlog[:]; del script.kwlog[:]; del script.tolog[:]; script.served, script.issued = 0, ''
                    err = None
                    try:
                        run_sync(pl, script, client, mod, c)
                    except Exception as e:
                        err = f'{type(e).__name__}: {e}'[:300]
                        script.events.append(dict(ev='raise', item=0, attr=0, token=0, others=type(e).__name__, opts=''))
                    traces.append(dict(id=c['id'], mode='sync', kind=c['kind'], history=c['pages'],
                                       ordered=c['kind'] != 'map', events=script.events, error=err))
        if 'async' in pl['modes']:
            async def amain():
                mod, client, ch = rt.grpc_client(pl['module'], pl['service_snake'], pl['service'], srv.target,
                                                 script.chlog, asyncio_=True)
                for c0 in pl['cases']:
                    rounds = [dict(c0)]
                    if c0.get('reuse'):
                        obj = getattr(mod, pl['methods'][c0['kind']]['name'] + 'Request')(**c0['base'])
                        rounds = [dict(c0, _reqobj=obj), dict(c0, _reqobj=obj, id=c0['id'] + ':again')]
                    for c in rounds:
                        script.case, script.events = c, []
                        del script.chlog[:]; del script.kwlog[:]; del script.tolog[:]; script.served, script.issued = 0, ''
                        err = None
                        try:
                            await run_async(pl, script, client, mod, c)
                        except Exception as e:
                            err = f'{type(e).__name__}: {e}'[:300]
                            script.events.append(dict(ev='raise', item=0, attr=0, token=0, others=type(e).__name__, opts=''))
                        traces.append(dict(id=c['id'], mode='async', kind=c['kind'], history=c['pages'],
                                           ordered=c['kind'] != 'map', events=script.events, error=err))
                await ch.close()
            asyncio.run(amain())
    finally:
        srv.stop()
    rt.emit(dict(traces=traces))


if __name__ == '__main__':
    try:
        main()
    except Exception:
        traceback.print_exc()
        raise SystemExit(3)
