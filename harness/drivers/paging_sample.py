"""Driver: for each method ListI of the packed paging API, call it once against the loopback server and observe whether a
pager comes back and which response field it iterates (items carry distinguishable values per field)."""
import traceback

from harness import rt
from harness import loopback_grpc as lg


def main():
    pl = rt.read_payload()
    pool = rt.Pool(pl['api'])
    pkg = pl['pkg']

    def respond(path, reqs, md, tr):
        i = int(path.rsplit('List', 1)[1])
        cls = pool.cls(f'{pkg}.Resp{i}')
        m = cls()
        for f in m.DESCRIPTOR.fields:
            if f.name == 'next_page_token' or f.name == 'total':
                continue
            if f.label == f.LABEL_REPEATED:
                if f.message_type is not None and f.message_type.GetOptions().map_entry:
                    getattr(m, f.name)['k'].id = 1
                elif f.message_type is not None:
                    getattr(m, f.name).add().id = 1
                else:
                    getattr(m, f.name).append(f.name)
        return [m.SerializeToString()]

    srv = lg.Server(respond)
    obs = []
    try:
        mod, client, ch = rt.grpc_client(pl['module'], 'pc', 'Pc', srv.target, [])
        for i in range(pl['n']):
            want = pl['expect'][i]
            o = dict(i=i)
            try:
                res = getattr(client, f'list{i}')(request={})
                is_pager = type(res).__name__.endswith('Pager')
                o['pager'] = is_pager
                if bool(want) != is_pager:
                    o['problem'] = f"method returns {type(res).__name__}; the specification says {'paginated over ' + want if want else 'not paginated'}"
                elif is_pager:
                    items = list(res)
                    # which field was iterated: compare with the first page's field contents
                    page = next(iter(res.pages))
                    fld = getattr(page, want)
                    exp = list(fld.items()) if hasattr(fld, 'items') else list(fld)
                    if [repr(x) for x in items] != [repr(x) for x in exp]:
                        o['problem'] = f'pager does not iterate field {want}: yielded {items!r}'
            except Exception as e:
                o['problem'] = f'{type(e).__name__}: {e}'[:240]
            obs.append(o)
        ch.close()
    finally:
        srv.stop()
    rt.emit(dict(obs=obs))


if __name__ == '__main__':
    try:
        main()
    except Exception:
        traceback.print_exc()
        raise SystemExit(3)
