"""Driver (fresh interpreter, emitted tree on sys.path) for spec/Mixins.tla (C17).

For every service of the emitted library named in the payload:
1. lists which of the ten mixin client methods exist on the emitted sync and asyncio clients;
2. creates one client INSTANCE per loopback server (two gRPC and two HTTP servers, instances A and B, all alive in the one
   process) for the sync gRPC client, the asyncio gRPC client and the sync REST client, calls every mixin method that exists on
   the instances in the order of payload `order` (A, B, A) and records WHICH server got the request and what it saw:
     gRPC: method path, whether the request bytes decode with the STANDARD request type (installed pb2 modules
           google.longrunning.operations_pb2 / google.iam.v1.iam_policy_pb2 / google.cloud.location.locations_pb2,
           i.e. the input descriptors) to the message the caller passed, the x-goog-request-params header;
     REST: verb, raw path, where the non-path request fields travelled (body / query), body present or not;
   and what the caller got back (descriptor full name of the returned object, equality with the server's reply).

payload: {module, services: [{service, service_snake}..], kinds: [grpc|grpc_asyncio|rest ..], order: [A, B, A],
          rpcs: [{rpc, snake, reqtype, resptype, field, value}]}          (table printed by the specification)
result : {services: {<service>: {present: {sync: [snake..], asyncio: [snake..] | null},
                                 calls: [{rpc, kind, inst, raised, sent: [{server, ...}], ret_type, ret_same}]}}}
The driver holds no expectation: which calls must look how is decided in TLA+.
"""
import asyncio
import json
import traceback
import urllib.parse

from google.protobuf import json_format, symbol_database, unknown_fields
from google.longrunning import operations_pb2            # noqa: F401  (registers the standard types)
from google.iam.v1 import iam_policy_pb2, policy_pb2     # noqa: F401
from google.cloud.location import locations_pb2          # noqa: F401
from google.protobuf import empty_pb2                    # noqa: F401

from harness import rt
from harness import loopback_grpc as lg
from harness import loopback_http as lh

SYM = symbol_database.Default()

# request content besides the name/resource field (input data; proto field names)
EXTRA = {
    'ListOperations': {'filter': 'state=done', 'page_size': 5},
    'WaitOperation': {'timeout': '5s'},
    'SetIamPolicy': {'policy': {'version': 3, 'etag': 'ZXRhZw=='}},
    'GetIamPolicy': {'options': {'requested_policy_version': 3}},
    'TestIamPermissions': {'permissions': ['things.get', 'things.list']},
    'ListLocations': {'filter': 'region=eu', 'page_size': 7},
}
# what the server answers (standard response types)
REPLY = {
    'google.longrunning.Operation': {'name': 'things/t1/operations/reply', 'done': True},
    'google.longrunning.ListOperationsResponse': {'operations': [{'name': 'things/t1/operations/o1'}], 'next_page_token': 'tok'},
    'google.iam.v1.Policy': {'version': 3, 'etag': 'cmVwbHk='},
    'google.iam.v1.TestIamPermissionsResponse': {'permissions': ['things.get']},
    'google.cloud.location.ListLocationsResponse': {'locations': [{'name': 'projects/p1/locations/eu', 'location_id': 'eu'}]},
    'google.cloud.location.Location': {'name': 'projects/p1/locations/eu', 'location_id': 'eu'},
    'google.protobuf.Empty': {},
}


def cls_of(full_name):
    return SYM.GetSymbol(full_name)


def build_request(r):
    m = cls_of(r['reqtype'])()
    d = {r['field']: r['value']}
    d.update(EXTRA.get(r['rpc'], {}))
    json_format.ParseDict(d, m)
    return m


def build_reply(r):
    m = cls_of(r['resptype'])()
    json_format.ParseDict(REPLY[r['resptype']], m)
    return m


class World:
    def __init__(self, pl):
        self.pl = pl
        self.by_rpc = {r['rpc']: r for r in pl['rpcs']}
        self.cur = None          # rpc record of the call in flight
        self.sent = None

    # ---- gRPC server side (tag = which of the loopback servers got the request)
    def respond(self, tag, path, reqs, md, tr):
        r = self.cur
        want = build_request(r)
        got = cls_of(r['reqtype'])()
        decodes, same = True, False
        try:
            got.ParseFromString(reqs[0] if reqs else b'')
            decodes = len(unknown_fields.UnknownFieldSet(got)) == 0
            same = got == want
        except Exception:
            decodes = False
        hdr = [v for k, v in md if k == 'x-goog-request-params']
        self.sent.append(dict(server=tag, path=path, nreq=len(reqs), req_decodes=bool(decodes), req_same=bool(same), headers=hdr))
        return [build_reply(r).SerializeToString()]

    # ---- HTTP server side
    def respond_http(self, tag, entry):
        r = self.cur
        extra = EXTRA.get(r['rpc'], {})
        body = entry['body']
        q = urllib.parse.parse_qs(entry['query'], keep_blank_values=True)
        body_kind, body_msg, body_has_var = 'none', None, False
        if body:
            try:
                j = json.loads(body.decode())
                body_kind = 'json' if isinstance(j, dict) else 'other'
                body_msg = cls_of(r['reqtype'])()
                json_format.ParseDict(j, body_msg)
                body_has_var = bool(getattr(body_msg, r['field']))
            except Exception:
                body_kind = 'other'
        # where did the non-path fields travel?
        want_extra = cls_of(r['reqtype'])()
        json_format.ParseDict(extra, want_extra)
        in_body = in_query = False
        if extra:
            if body_msg is not None:
                probe = cls_of(r['reqtype'])(); probe.CopyFrom(body_msg); probe.ClearField(r['field'])
                in_body = probe == want_extra
            top = {k.split('.')[0] for k in q}
            camel = set(json_format.MessageToDict(want_extra).keys())      # JSON names of the top-level extra fields
            in_query = bool(camel) and camel <= top
        extra_in = ('none' if not extra else 'both' if in_body and in_query else 'body' if in_body
                    else 'query' if in_query else 'lost')
        self.sent.append(dict(server=tag, verb=entry['verb'].lower(), path=urllib.parse.unquote(entry['path']), rawpath=entry['path'],
                              query=entry['query'], body_kind=body_kind, body_has_var=body_has_var, extra_in=extra_in))
        reply = build_reply(r)
        return 200, json_format.MessageToJson(reply).encode(), {}


def project_return(r, res):
    if res is None:
        return 'None', True
    d = getattr(res, 'DESCRIPTOR', None)
    if d is None and hasattr(type(res), 'pb'):          # proto-plus wrapper (the API's own RPCs)
        res = type(res).pb(res); d = res.DESCRIPTOR
    if d is None:
        return type(res).__name__, False
    same = False
    try:
        same = res.SerializeToString(deterministic=True) == build_reply(r).SerializeToString(deterministic=True) \
            if d.full_name == r['resptype'] else False
    except Exception:
        pass
    return d.full_name, same


def drive_service(pl, w, servers, service, service_snake):
    """presence + calls for the clients of one service of the emitted library.  servers: {instance: (grpc server, http
    server)}; one client instance per server is created for every client kind / transport, all alive at the same time, and
    every method is called on the instances in the order pl['order'] (e.g. A, B, A)."""
    calls = []
    present = dict(sync=None, asyncio=None)
    names = [r['snake'] for r in pl['rpcs']]
    order = pl.get('order') or ['A']
    insts = sorted(set(order))
    mod, C = rt.import_client(pl['module'], service, False)
    present['sync'] = [n for n in names if callable(getattr(C, n, None))]
    try:
        _, AC = rt.import_client(pl['module'], service, True)
        present['asyncio'] = [n for n in names if callable(getattr(AC, n, None))]
    except AttributeError:
        AC = None
    chlog = []

    def record(r, kind, inst, fn):
        w.cur, w.sent = r, []
        rec = dict(rpc=r['rpc'], kind=kind, inst=inst, raised=None, ret_type=None, ret_same=False)
        try:
            res = fn(build_request(r))
            rec['ret_type'], rec['ret_same'] = project_return(r, res)
        except Exception as e:
            rec['raised'] = f'{type(e).__name__}: {str(e)[:300]}'
        rec['sent'] = w.sent
        calls.append(rec)

    if 'grpc' in pl['kinds']:
        made = {i: rt.grpc_client(pl['module'], service_snake, service, servers[i][0].target, chlog) for i in insts}
        for r in pl['rpcs']:
            if r['snake'] in present['sync']:
                for i in order:
                    record(r, 'grpc', i, lambda req, r=r, c=made[i][1]: getattr(c, r['snake'])(request=req))
        for i in insts:
            made[i][2].close()
    if 'rest' in pl['kinds']:
        rmade = {i: rt.rest_client(pl['module'], service_snake, service, servers[i][1].hostport)[1] for i in insts}
        for r in pl['rpcs']:
            if r['snake'] in present['sync']:
                for i in order:
                    record(r, 'rest', i, lambda req, r=r, c=rmade[i]: getattr(c, r['snake'])(request=req))
    if 'grpc_asyncio' in pl['kinds'] and AC is not None:
        async def amain():
            amade = {i: rt.grpc_client(pl['module'], service_snake, service, servers[i][0].target, chlog, asyncio_=True) for i in insts}
            for r in pl['rpcs']:
                if r['snake'] not in present['asyncio']:
                    continue
                for i in order:
                    w.cur, w.sent = r, []
                    rec = dict(rpc=r['rpc'], kind='grpc_asyncio', inst=i, raised=None, ret_type=None, ret_same=False)
                    try:
                        res = await getattr(amade[i][1], r['snake'])(request=build_request(r))
                        rec['ret_type'], rec['ret_same'] = project_return(r, res)
                    except Exception as e:
                        rec['raised'] = f'{type(e).__name__}: {str(e)[:300]}'
                    rec['sent'] = w.sent
                    calls.append(rec)
            for i in insts:
                await amade[i][2].close()
        asyncio.run(amain())
    return dict(present=present, calls=calls)


def main():
    pl = rt.read_payload()
    w = World(pl)
    servers = {}
    out = {}
    try:
        for i in sorted(set(pl.get('order') or ['A'])):
            servers[i] = (lg.Server(lambda *a, _i=i: w.respond(_i, *a)), lh.Server(lambda e, _i=i: w.respond_http(_i, e)))
        for sv in pl['services']:
            out[sv['service']] = drive_service(pl, w, servers, sv['service'], sv['service_snake'])
    finally:
        for g, h in servers.values():
            g.stop(); h.stop()
    rt.emit(dict(services=out))


if __name__ == '__main__':
    try:
        main()
    except Exception:
        traceback.print_exc()
        raise SystemExit(3)
