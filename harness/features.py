"""Feature set (chosen by TLC from spec/Features.tla) -> abstract API + generator options.

Every feature is ADDITIVE on a fixed carrier API (a small library service), so that any subset that satisfies the
spec's WF predicate denotes a descriptor set protoc would accept.  The carrier stays inside the "conventional"
profile of DESIGN section 8 unless a feature outside it is requested (those are tagged in Features.tla).
"""
PKG = 'acme.lib.v1'
PDIR = 'acme/lib/v1'

SCALAR_KINDS = ['double', 'float', 'int64', 'uint64', 'int32', 'fixed64', 'fixed32', 'bool', 'string', 'bytes', 'uint32',
                'sfixed32', 'sfixed64', 'sint32', 'sint64']


def build(F):
    """F: iterable of feature names -> (api, opts dict)."""
    F = set(F)
    book_fields = [dict(name='name'), dict(name='title'), dict(name='pages', type='int32')]
    shelf_fields = [dict(name='name'), dict(name='theme')]
    enums = []
    extra_msgs = []
    file2 = None
    files = []
    if 'f_scalars' in F:
        book_fields += [dict(name=f's_{k}', type=k) for k in SCALAR_KINDS]
        book_fields += [dict(name=f'r_{k}', type=k, repeated=True) for k in ('int64', 'string', 'bytes', 'double', 'bool')]
    if 'f_enum' in F:
        enums.append(dict(name='Genre', values=['GENRE_UNSPECIFIED', 'FICTION', 'SCIENCE']))
        book_fields += [dict(name='genre', type='enum:Genre'), dict(name='genres', type='enum:Genre', repeated=True)]
    book_msg = dict(name='Book', fields=book_fields)
    if 'f_nested' in F:
        book_msg['messages'] = [dict(name='Chapter', fields=[dict(name='title'), dict(name='kind', type='enum:Book.Chapter.Kind'),
                                                             dict(name='notes', type='Book.Chapter.Note', repeated=True),
                                                             # a NESTED message with a field named like the proto-plus module the
                                                             # class body itself uses (no top-level message has such a field)
                                                             dict(name='proto'), dict(name='after_proto', type='int32')],
                                     messages=[dict(name='Note', fields=[dict(name='text'), dict(name='deep', type='Book.Chapter.Note.Deep')],
                                                    messages=[dict(name='Deep', fields=[dict(name='x', type='int32')])])],
                                     enums=[dict(name='Kind', values=['KIND_UNSPECIFIED', 'INTRO', 'BODY'])])]
        book_msg['enums'] = [dict(name='Binding', values=['BINDING_UNSPECIFIED', 'HARD', 'SOFT'])]
        book_fields += [dict(name='chapters', type='Book.Chapter', repeated=True), dict(name='binding', type='enum:Book.Binding'),
                        # references from the top-level message to types two and three levels inside itself
                        dict(name='first_note', type='Book.Chapter.Note'), dict(name='deepest', type='Book.Chapter.Note.Deep'),
                        dict(name='chapter_kind', type='enum:Book.Chapter.Kind')]
        # ... and from a sibling top-level message into the nest
        shelf_fields += [dict(name='pinned_note', type='Book.Chapter.Note')]
    if 'f_map' in F:
        book_fields += [dict(name='labels', type='map:string,string'), dict(name='counts', type='map:int32,int64'),
                        dict(name='flags', type='map:bool,double'), dict(name='related', type='map:string,Shelf')]
        if 'f_enum' in F:
            book_fields.append(dict(name='genre_by', type='map:string,enum:Genre'))
    if 'f_oneof' in F:
        book_fields += [dict(name='isbn', oneof='ident'), dict(name='serial', type='int64', oneof='ident'),
                        dict(name='origin', type='Shelf', oneof='ident')]
    if 'f_optional' in F:
        book_fields += [dict(name='rating', type='int32', optional=True), dict(name='subtitle', optional=True),
                        dict(name='home', type='Shelf', optional=True)]
    if 'f_recursive' in F:
        book_fields += [dict(name='sequel', type='Book'), dict(name='editions', type='Book', repeated=True)]
    if 'f_mutual' in F:
        shelf_fields.append(dict(name='featured', type='Book'))
        book_fields.append(dict(name='shelf', type='Shelf'))
    if 'f_forward' in F:
        book_fields.append(dict(name='publisher', type='Publisher'))     # declared later in the file
    if 'f_wkt' in F:
        book_fields += [dict(name='create_time', type='google.protobuf.Timestamp'), dict(name='ttl', type='google.protobuf.Duration'),
                        dict(name='payload', type='google.protobuf.Any'), dict(name='attrs', type='google.protobuf.Struct'),
                        dict(name='val', type='google.protobuf.Value'), dict(name='mask', type='google.protobuf.FieldMask'),
                        dict(name='wrapped', type='google.protobuf.Int32Value'), dict(name='err', type='google.rpc.Status')]
    if 'f_reserved' in F:
        book_fields += [dict(name='class'), dict(name='type'), dict(name='format'), dict(name='import', type='int32')]
    if 'f_deppkg' in F:
        files.append(dict(name='other/dep/v1/dep.proto', package='other.dep.v1', target=False, imports=[],
                          messages=[dict(name='Dep', fields=[dict(name='x')]),
                                    dict(name='DepReq', fields=[dict(name='name'), dict(name='dep', type='.other.dep.v1.Dep')])]))
        book_fields.append(dict(name='dep', type='.other.dep.v1.Dep'))
    shelf_msg = dict(name='Shelf', fields=shelf_fields)
    if 'r_resource' in F:
        book_msg['resource'] = dict(type='lib.example.com/Book', patterns=['shelves/{shelf}/books/{book}'])
        shelf_msg['resource'] = dict(type='lib.example.com/Shelf', patterns=['shelves/{shelf}'])
    if 'r_multi_pattern' in F:
        book_msg['resource'] = dict(type='lib.example.com/Book',
                                    patterns=['shelves/{shelf}/books/{book}', 'archives/{archive}/books/{book}'])
    if 'r_wildcard' in F:
        extra_msgs.append(dict(name='Thing', fields=[dict(name='name')], resource=dict(type='lib.example.com/Thing', patterns=['*'])))
        book_fields.append(dict(name='thing', type='Thing'))
    resource_definitions = []
    if 'r_file_level' in F:
        resource_definitions.append(dict(type='lib.example.com/Vault', patterns=['vaults/{vault}', 'regions/{region}/vaults/{vault}']))
        book_fields.append(dict(name='vault', ref='lib.example.com/Vault'))
    req_name = dict(name='name')
    parent = dict(name='parent')
    if 'r_resource' in F or 'r_multi_pattern' in F:
        req_name = dict(name='name', ref='lib.example.com/Book')
        parent = dict(name='parent', ref='lib.example.com/Shelf') if 'r_resource' in F else dict(name='parent')
    if 'r_child_ref' in F and ('r_resource' in F):
        parent = dict(name='parent', child_ref='lib.example.com/Book')
    req = 's_required' in F
    get_req = dict(name='GetBookRequest', fields=[dict(req_name, required=req)])
    create_fields = [dict(parent, required=req), dict(name='book', type='Book', required=req), dict(name='book_id')]
    if 's_uuid4' in F:
        create_fields.append(dict(name='request_id', uuid4=True))
    create_req = dict(name='CreateBookRequest', fields=create_fields)
    update_req = dict(name='UpdateBookRequest', fields=[dict(name='book', type='Book', required=req),
                                                       dict(name='update_mask', type='google.protobuf.FieldMask')])
    delete_req = dict(name='DeleteBookRequest', fields=[dict(req_name, required=req), dict(name='force', type='bool')])
    list_req = dict(name='ListBooksRequest', fields=[dict(parent, required=req), dict(name='page_size', type='int32'),
                                                     dict(name='page_token'), dict(name='filter')] +
                    # required query parameters of non-string scalar kinds (their defaults must travel as false / 0.0 / 0)
                    ([dict(name='show_deleted', type='bool', required=True), dict(name='min_rating', type='double', required=True),
                      dict(name='max_age', type='int64', required=True)] if req else []))
    list_resp = dict(name='ListBooksResponse', fields=[dict(name='books', type='Book', repeated=True), dict(name='next_page_token')])
    msgs = [book_msg, shelf_msg, get_req, create_req, update_req, delete_req, list_req, list_resp] + extra_msgs
    if 'f_forward' in F:
        msgs.append(dict(name='Publisher', fields=[dict(name='name'), dict(name='flagship', type='Book')]))
    sig = 's_flatten' in F
    hb = 'h_none' not in F

    def http(verb, uri, body=None, extra=()):
        if not hb:
            return []
        h = [dict(verb=verb, uri=uri, **({'body': body} if body else {}))]
        return h + list(extra)

    add = [dict(verb='get', uri='/v1/{name=archives/*/books/*}')] if 'h_additional' in F else []
    methods = [
        dict(name='GetBook', **{'in': 'GetBookRequest', 'out': 'Book'}, http=http('get', '/v1/{name=shelves/*/books/*}', None, add),
             sigs=['name'] if sig else []),
        dict(name='CreateBook', **{'in': 'CreateBookRequest', 'out': 'Book'},
             http=http('post', '/v1/{parent=shelves/*}/books', 'book' if 'h_body_star' not in F else '*'),
             sigs=['parent,book,book_id'] if sig else []),
        dict(name='UpdateBook', **{'in': 'UpdateBookRequest', 'out': 'Book'},
             http=http('patch', '/v1/{book.name=shelves/*/books/*}', 'book'), sigs=['book,update_mask'] if sig else []),
        dict(name='DeleteBook', **{'in': 'DeleteBookRequest', 'out': 'google.protobuf.Empty'},
             http=http('delete', '/v1/{name=shelves/*/books/*}'), sigs=['name'] if sig else []),
        dict(name='ListBooks', **{'in': 'ListBooksRequest', 'out': 'ListBooksResponse'},
             http=http('get', '/v1/{parent=shelves/*}/books'), sigs=['parent'] if sig else []),
    ]
    if 'h_verbs' in F and hb:
        msgs.append(dict(name='MoveBookRequest', fields=[dict(name='name'), dict(name='dest')]))
        methods.append(dict(name='MoveBook', **{'in': 'MoveBookRequest', 'out': 'Book'},
                            http=[dict(verb='put', uri='/v1/{name=shelves/*/books/*}:move', body='*')], sigs=['name,dest'] if sig else []))
    if 'f_map' in F and sig:
        # a flattened MAP field (and a flattened repeated field) on its own method
        msgs.append(dict(name='LabelBookRequest', fields=[dict(name='name'), dict(name='labels', type='map:string,string'),
                                                          dict(name='tags', repeated=True)]))
        methods.append(dict(name='LabelBook', **{'in': 'LabelBookRequest', 'out': 'Book'},
                            http=http('post', '/v1/{name=shelves/*/books/*}:label', '*'), sigs=['name,labels,tags']))
    if 'm_sstream' in F:
        methods.append(dict(name='WatchBooks', **{'in': 'ListBooksRequest', 'out': 'Book'}, ss=True,
                            http=http('get', '/v1/{parent=shelves/*}/books:watch')))
    if 'm_cstream' in F:
        methods.append(dict(name='UploadBooks', **{'in': 'CreateBookRequest', 'out': 'Shelf'}, cs=True))
    if 'm_bidi' in F:
        methods.append(dict(name='ChatBooks', **{'in': 'GetBookRequest', 'out': 'Book'}, cs=True, ss=True))
    if 'm_lro' in F:
        msgs.append(dict(name='ExportMetadata', fields=[dict(name='progress', type='int32')]))
        msgs.append(dict(name='ExportBooksRequest', fields=[dict(parent), dict(name='dest')]))
        msgs.append(dict(name='ExportBooksResponse', fields=[dict(name='count', type='int32')]))
        methods.append(dict(name='ExportBooks', **{'in': 'ExportBooksRequest', 'out': 'google.longrunning.Operation'},
                            http=http('post', '/v1/{parent=shelves/*}/books:export', '*'),
                            lro=dict(resp='ExportBooksResponse', meta='ExportMetadata'), sigs=['parent'] if sig else []))
    if 'm_lro_empty' in F:
        msgs.append(dict(name='PurgeMetadata', fields=[dict(name='progress', type='int32')]))
        msgs.append(dict(name='PurgeBooksRequest', fields=[dict(parent)]))
        methods.append(dict(name='PurgeBooks', **{'in': 'PurgeBooksRequest', 'out': 'google.longrunning.Operation'},
                            http=http('post', '/v1/{parent=shelves/*}/books:purge', '*'),
                            lro=dict(resp='google.protobuf.Empty', meta='PurgeMetadata')))
    if 'm_paged_map' in F:
        msgs.append(dict(name='ListByIdRequest', fields=[dict(parent), dict(name='page_size', type='int32'), dict(name='page_token')]))
        msgs.append(dict(name='ListByIdResponse', fields=[dict(name='books', type='map:string,Book'), dict(name='next_page_token')]))
        methods.append(dict(name='ListById', **{'in': 'ListByIdRequest', 'out': 'ListByIdResponse'},
                            http=http('get', '/v1/{parent=shelves/*}/booksById')))
    if 'm_paged_legacy' in F:
        msgs.append(dict(name='ListOldRequest', fields=[dict(parent), dict(name='max_results', type='google.protobuf.UInt32Value'),
                                                        dict(name='page_token')]))
        msgs.append(dict(name='ListOldResponse', fields=[dict(name='names', repeated=True), dict(name='next_page_token')]))
        methods.append(dict(name='ListOld', **{'in': 'ListOldRequest', 'out': 'ListOldResponse'},
                            http=http('get', '/v1/{parent=shelves/*}/old')))
    if 'm_raw_operation' in F:
        # an Operation-returning method WITHOUT operation_info: returns the raw google.longrunning.Operation
        methods.append(dict(name='StartRaw', **{'in': 'GetBookRequest', 'out': 'google.longrunning.Operation'},
                            http=http('post', '/v1/{name=shelves/*/books/*}:startRaw', '*')))
    if 'm_deprecated' in F:
        methods[0]['deprecated'] = True
    if 'm_kw' in F:
        methods.append(dict(name='Import', **{'in': 'GetBookRequest', 'out': 'Book'},
                            http=http('post', '/v1/{name=shelves/*/books/*}:import', '*')))
    if 'm_unsafe' in F:
        methods.append(dict(name='CreateChannel', **{'in': 'GetBookRequest', 'out': 'Book'},
                            http=http('post', '/v1/{name=shelves/*/books/*}:channel', '*')))
    if 'h_nested_var' in F and hb:
        msgs.append(dict(name='RenameRequest', fields=[dict(name='book', type='Book'), dict(name='title')]))
        methods.append(dict(name='RenameBook', **{'in': 'RenameRequest', 'out': 'Book'},
                            http=[dict(verb='post', uri='/v1/{book.name=shelves/*/books/*}:rename', body='*')],
                            sigs=['book,title'] if sig else []))
    if 's_routing' in F:
        methods[0]['routing'] = [dict(field='name', tmpl='{shelf_id=shelves/*}/books/*'), dict(field='name', tmpl='{full=**}')]
    if 'f_deppkg' in F:
        # own request message, reply type from the dependency package (a plain protobuf class): request and reply are of
        # different message flavours
        msgs.append(dict(name='FetchDepRequest', fields=[dict(name='name')]))
        methods.append(dict(name='FetchDep', **{'in': 'FetchDepRequest', 'out': '.other.dep.v1.Dep'},
                            http=http('get', '/v1/{name=deps/*}'), sigs=['name'] if sig else []))
    if 'f_deppkg' in F and 'm_dep_request' in F:
        methods.append(dict(name='CheckDep', **{'in': '.other.dep.v1.DepReq', 'out': '.other.dep.v1.Dep'},
                            http=http('post', '/v1/{name=deps/*}:check', '*'), sigs=['name'] if sig else []))
    services = [dict(name='Library', methods=methods, **({'api_version': '2024-05-01'} if 's_api_version' in F else {}))]
    main = dict(name=f'{PDIR}/library.proto', package=PKG, enums=enums, messages=msgs,
                resource_definitions=resource_definitions, services=services)
    if 'f_crossfile' in F:
        # types in a second target file, referenced from the first (and back)
        res = dict(name=f'{PDIR}/common.proto', package=PKG,
                   messages=[dict(name='Author', fields=[dict(name='name'), dict(name='born', type='int32')]),
                             dict(name='Stamp', fields=[dict(name='t', type='int64')])],
                   enums=[dict(name='Tier', values=['TIER_UNSPECIFIED', 'GOLD'])])
        files.append(res)
        book_fields += [dict(name='author', type='Author'), dict(name='tier', type='enum:Tier'),
                        # a field named like the other file's module: the import of that module must be aliased, and every
                        # reference (direct, through a nested message, through a map entry) must use the same alias
                        dict(name='common', type='Stamp'), dict(name='index', type='Book.Index')]
        # a flattened parameter named like the module of the second file (the client refers to the module by an alias inside
        # that method) next to a method that refers to the same module by its plain name
        msgs += [dict(name='StampBookRequest', fields=[dict(name='name'), dict(name='common', type='Stamp')]),
                 dict(name='GetAuthorRequest', fields=[dict(name='name')])]
        methods += [dict(name='StampBook', **{'in': 'StampBookRequest', 'out': 'Stamp'},
                         http=http('post', '/v1/{name=shelves/*/books/*}:stamp', '*'), sigs=['name,common'] if sig else []),
                    dict(name='GetAuthor', **{'in': 'GetAuthorRequest', 'out': 'Author'},
                         http=http('get', '/v1/{name=authors/*}'), sigs=['name'] if sig else [])]
        if 'm_lro' in F:
            # an LRO whose response type lives in the other file's module, with a PRIMITIVE flattened argument named like that
            # module (the argument shadows the module inside the method, so the module must be aliased there too)
            msgs.append(dict(name='ArchiveBookRequest', fields=[dict(name='name'), dict(name='common')]))
            methods.append(dict(name='ArchiveBook', **{'in': 'ArchiveBookRequest', 'out': 'google.longrunning.Operation'},
                                http=http('post', '/v1/{name=shelves/*/books/*}:archive', '*'),
                                lro=dict(resp='Author', meta='Stamp'), sigs=['name,common']))
        book_msg.setdefault('messages', []).append(
            dict(name='Index', fields=[dict(name='by_name', type='map:string,Author'), dict(name='stamp', type='Stamp'),
                                       dict(name='authors', type='Author', repeated=True)]))
    if 'f_subpackage' in F:
        files.append(dict(name=f'{PDIR}/admin/admin_types.proto', package=PKG + '.admin',
                          messages=[dict(name='AdminThing', fields=[dict(name='name'), dict(name='level', type='int32')])]))
    if 'f_upper_file' in F:
        files.append(dict(name=f'{PDIR}/MyTypes.proto', package=PKG,
                          messages=[dict(name='Cover', fields=[dict(name='color')])]))
        book_fields.append(dict(name='cover', type='Cover'))
    files.append(main)
    if 's_two_services' in F:
        amsgs = [dict(name='AuditRequest', fields=[dict(name='name'), dict(name='book', type='Book')]),
                 dict(name='AuditResponse', fields=[dict(name='ok', type='bool')])]
        files.append(dict(name=f'{PDIR}/admin.proto', package=PKG, messages=amsgs,
                          services=[dict(name='BookAdmin', host='admin.example.com', methods=[
                              dict(name='Audit', **{'in': 'AuditRequest', 'out': 'AuditResponse'},
                                   http=http('post', '/v1/{name=shelves/*}:audit', '*'), sigs=['name'] if sig else [])])]))
    api = dict(files=files)
    opts = dict(transport=['grpc'])
    if 'o_rest' in F:
        opts['transport'] = ['rest']
    if 'o_grpc_rest' in F:
        opts['transport'] = ['grpc', 'rest']
    if 'o_numeric' in F:
        opts['numeric_enums'] = True
    if 'o_metadata' in F:
        opts['metadata'] = True
    if 'o_nosnippets' in F:
        opts['snippets'] = False
    if 'o_iam' in F:
        opts['add_iam'] = True
    if 'o_ads' in F:
        opts['templates'] = 'ads-templates'; opts['old_naming'] = True
    yaml = None
    if 'o_mixins' in F or 's_uuid4' in F or 'o_rest_async' in F:
        yaml = {'type': 'google.api.Service', 'config_version': 3, 'name': 'lib.example.com'}
    if 'o_mixins' in F:
        yaml['apis'] = [{'name': 'google.longrunning.Operations'}, {'name': 'google.cloud.location.Locations'},
                        {'name': 'google.iam.v1.IAMPolicy'}]
        yaml['http'] = {'rules': [
            {'selector': 'google.longrunning.Operations.GetOperation', 'get': '/v1/{name=operations/*}'},
            {'selector': 'google.longrunning.Operations.ListOperations', 'get': '/v1/{name=shelves/*}/operations'},
            {'selector': 'google.longrunning.Operations.CancelOperation', 'post': '/v1/{name=operations/*}:cancel', 'body': '*'},
            {'selector': 'google.longrunning.Operations.DeleteOperation', 'delete': '/v1/{name=operations/*}'},
            {'selector': 'google.cloud.location.Locations.GetLocation', 'get': '/v1/{name=locations/*}'},
            {'selector': 'google.cloud.location.Locations.ListLocations', 'get': '/v1/{name=projects/*}/locations'},
            {'selector': 'google.iam.v1.IAMPolicy.GetIamPolicy', 'get': '/v1/{resource=shelves/*}:getIamPolicy'},
            {'selector': 'google.iam.v1.IAMPolicy.SetIamPolicy', 'post': '/v1/{resource=shelves/*}:setIamPolicy', 'body': '*'},
            {'selector': 'google.iam.v1.IAMPolicy.TestIamPermissions', 'post': '/v1/{resource=shelves/*}:testIamPermissions', 'body': '*'},
        ]}
    if 's_uuid4' in F:
        yaml.setdefault('publishing', {})['method_settings'] = [
            {'selector': f'{PKG}.Library.CreateBook', 'auto_populated_fields': ['request_id']}]
    if 'o_rest_async' in F:
        yaml.setdefault('publishing', {}).setdefault('library_settings', []).append(
            {'version': PKG, 'python_settings': {'experimental_features': {'rest_async_io_enabled': True}}})
    if yaml is not None:
        api['yaml'] = yaml
    return api, opts


def module_of(F):
    return 'acme.lib.v1' if 'o_ads' in set(F) else 'acme.lib_v1'
