"""Loopback HTTP server for the emitted REST transports (DESIGN 3.3).

Logs verb, raw path, raw query string, body bytes and headers of every request; the reply comes from a
responder callable.  Use with  XRestTransport(host=f'127.0.0.1:{port}', url_scheme='http',
credentials=AnonymousCredentials()).
"""
import http.server
import threading


class Server:
    """responder(entry) -> (status:int, body:bytes, headers:dict) ; entry = dict(ev='Http', verb, path, query,
    body, headers)."""

    def __init__(self, responder, log=None):
        self.responder = responder
        self.log = log if log is not None else []
        outer = self

        class H(http.server.BaseHTTPRequestHandler):
            protocol_version = 'HTTP/1.1'
            wbufsize = -1                      # one write per response (no Nagle / delayed-ACK stall)
            disable_nagle_algorithm = True

            def _handle(self):
                n = int(self.headers.get('Content-Length') or 0)
                body = self.rfile.read(n) if n else b''
                raw = self.path
                path, _, query = raw.partition('?')
                entry = dict(ev='Http', verb=self.command, path=path, query=query, body=body,
                             headers=[(k, v) for k, v in self.headers.items()])
                outer.log.append(entry)
                try:
                    status, out, hdrs = outer.responder(entry)
                except Exception as e:  # responder bug -> 500 with the message, visible in the client error
                    status, out, hdrs = 500, repr(e).encode(), {}
                self.send_response(status)
                h = {'Content-Type': 'application/json'}
                h.update(hdrs or {})
                for k, v in h.items():
                    self.send_header(k, v)
                self.send_header('Content-Length', str(len(out)))
                self.end_headers()
                self.wfile.write(out)

            do_GET = do_POST = do_PUT = do_PATCH = do_DELETE = do_HEAD = _handle

            def log_message(self, *a):
                pass

        self.httpd = http.server.ThreadingHTTPServer(('127.0.0.1', 0), H)
        self.port = self.httpd.server_address[1]
        self.hostport = f'127.0.0.1:{self.port}'
        self.thread = threading.Thread(target=self.httpd.serve_forever, daemon=True)
        self.thread.start()

    def stop(self):
        self.httpd.shutdown()
        self.httpd.server_close()
