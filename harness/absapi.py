"""Abstract API (JSON-serialisable dict) -> FileDescriptorProtos -> CodeGeneratorRequest.

This is the single concretisation step shared by both bindings (DESIGN 3.2).  It is a total function
with no expectations in it: it only spells out, as protoc would, the descriptors that the abstract API
denotes.

Abstract API::

  {"files": [ {"name": "acme/lib/v1/lib.proto", "package": "acme.lib.v1", "target": true,
               "imports": [<names of other API files>]   # default: every earlier API file
               "std_deps": [...]                           # default: STD_DEP_NAMES
               "enums": [{"name", "values": [..] | [[name, number]..], "doc"}],
               "messages": [MSG], "resource_definitions": [{"type","patterns"}],
               "services": [{"name","host","scopes","doc","api_version","methods":[METHOD]}]} ],
   "yaml": {...service yaml as dict...} | None, "retry": {...grpc service config...} | None}
  MSG    = {"name","doc","fields":[FIELD],"messages":[MSG],"enums":[ENUM],"resource":{"type","patterns",...}}
  FIELD  = {"name","type","number","repeated","optional","oneof","required","uuid4","ref","child_ref","doc",
            "behaviors": [..]}
  type   = scalar name | "map:<k>,<v>" | "enum:<ref>" | <message ref>
  ref    = "Name" / "Outer.Inner" (relative to the file's package) or ".fully.qualified.Name" or "google...."
  METHOD = {"name","in","out","cs","ss","http":[{"verb","uri","body","response_body"}],"sigs":[..],
            "routing":[{"field","tmpl"}],"lro":{"resp","meta"},"deprecated","doc",
            "ext_lro_service": name}
"""
import json

from google.protobuf import descriptor_pb2 as d
from google.protobuf.compiler import plugin_pb2
from google.api import (annotations_pb2, client_pb2, field_behavior_pb2, resource_pb2, http_pb2,
                        routing_pb2, field_info_pb2, launch_stage_pb2)
from google.protobuf import (empty_pb2, descriptor_pb2, duration_pb2, any_pb2, timestamp_pb2, struct_pb2,
                             wrappers_pb2, field_mask_pb2)
from google.longrunning import operations_pb2
from google.rpc import status_pb2
from google.cloud import extended_operations_pb2

# topological order matters (API.build resolves types file by file)
_DEP_MODS = [descriptor_pb2, duration_pb2, any_pb2, http_pb2, annotations_pb2, launch_stage_pb2, client_pb2,
             field_behavior_pb2, resource_pb2, routing_pb2, field_info_pb2, empty_pb2, timestamp_pb2,
             struct_pb2, wrappers_pb2, field_mask_pb2, status_pb2, operations_pb2, extended_operations_pb2]
try:  # optional extras (present in /venv)
    from google.type import expr_pb2
    from google.iam.v1 import options_pb2, policy_pb2, iam_policy_pb2
    _DEP_MODS += [expr_pb2, options_pb2, policy_pb2, iam_policy_pb2]
except Exception:  # pragma: no cover
    pass
try:
    from google.cloud.location import locations_pb2
    _DEP_MODS += [locations_pb2]
except Exception:  # pragma: no cover
    pass

STD_DEP_NAMES = [m.DESCRIPTOR.name for m in _DEP_MODS if m is not descriptor_pb2]

SCALARS = dict(double=1, float=2, int64=3, uint64=4, int32=5, fixed64=6, fixed32=7, bool=8, string=9,
               bytes=12, uint32=13, sfixed32=15, sfixed64=16, sint32=17, sint64=18)

BEHAVIORS = dict(OPTIONAL=1, REQUIRED=2, OUTPUT_ONLY=3, INPUT_ONLY=4, IMMUTABLE=5)


def camel(s):
    """protoc's ToJsonName: drop underscores, upper-case the following character."""
    out, up = [], False
    for ch in s:
        if ch == '_':
            up = True
        elif up:
            out.append(ch.upper()); up = False
        else:
            out.append(ch)
    return ''.join(out)


def pascal(s):
    return ''.join(p[:1].upper() + p[1:] for p in s.split('_'))


def fdp_of(mod):
    f = d.FileDescriptorProto(); mod.DESCRIPTOR.CopyToProto(f); return f


def _q(pkg, ref):
    """qualify a type reference."""
    if ref.startswith('.'):
        return ref
    if ref.split('.')[0] == 'google':
        return '.' + ref
    return f'.{pkg}.{ref}'


class _Docs:
    """collects SourceCodeInfo locations (leading comments)."""

    def __init__(self, fdp):
        self.fdp = fdp

    def add(self, path, text):
        if text is None:
            return
        loc = self.fdp.source_code_info.location.add()
        loc.path.extend(path)
        loc.leading_comments = text


def _add_enum(container, e, docs, path):
    en = container.add(name=e['name'])
    docs.add(path, e.get('doc'))
    for i, v in enumerate(e['values']):
        if isinstance(v, (list, tuple)):
            en.value.add(name=v[0], number=v[1])
        else:
            en.value.add(name=v, number=i)
    if e.get('allow_alias'):
        en.options.allow_alias = True
    return en


def _add_field(msg, scope, pkg, fld, num, docs, path):
    """scope = fully-qualified name of msg (without leading dot)."""
    name = fld['name']; t = fld.get('type', 'string')
    f = msg.field.add(name=name, number=fld.get('number', num), json_name=fld.get('json_name', camel(name)) or camel(name))
    if 'json_name' in fld and not fld['json_name']:
        f.ClearField('json_name')          # json_name is optional in a descriptor; protoc fills it in, other producers need not
    docs.add(path, fld.get('doc'))
    f.label = 3 if fld.get('repeated') else 1
    if t in SCALARS:
        f.type = SCALARS[t]
    elif t.startswith('enum:'):
        f.type = 14; f.type_name = _q(pkg, t[5:])
    elif t.startswith('map:'):
        k, v = t[4:].split(',', 1)
        entry = msg.nested_type.add(name=pascal(name) + 'Entry')
        entry.options.map_entry = True
        _add_field(entry, scope + '.' + entry.name, pkg, dict(name='key', type=k), 1, _Docs(d.FileDescriptorProto()), [])
        _add_field(entry, scope + '.' + entry.name, pkg, dict(name='value', type=v), 2, _Docs(d.FileDescriptorProto()), [])
        f.type = 11; f.label = 3; f.type_name = f'.{scope}.{entry.name}'
    else:
        f.type = 11; f.type_name = _q(pkg, t)
    if fld.get('optional'):
        f.proto3_optional = True
    if 'oneof' in fld:
        names = [o.name for o in msg.oneof_decl]
        f.oneof_index = names.index(fld['oneof'])
    if fld.get('required'):
        f.options.Extensions[field_behavior_pb2.field_behavior].append(field_behavior_pb2.REQUIRED)
    for b in fld.get('behaviors', []):
        f.options.Extensions[field_behavior_pb2.field_behavior].append(BEHAVIORS[b])
    if fld.get('uuid4'):
        f.options.Extensions[field_info_pb2.field_info].format = field_info_pb2.FieldInfo.UUID4
    if fld.get('ipv4'):
        f.options.Extensions[field_info_pb2.field_info].format = field_info_pb2.FieldInfo.IPV4
    if fld.get('ref'):
        f.options.Extensions[resource_pb2.resource_reference].type = fld['ref']
    if fld.get('child_ref'):
        f.options.Extensions[resource_pb2.resource_reference].child_type = fld['child_ref']
    if fld.get('op_field'):
        f.options.Extensions[extended_operations_pb2.operation_field] = fld['op_field']
    if fld.get('op_request_field'):
        f.options.Extensions[extended_operations_pb2.operation_request_field] = fld['op_request_field']
    if fld.get('op_response_field'):
        f.options.Extensions[extended_operations_pb2.operation_response_field] = fld['op_response_field']
    if fld.get('deprecated'):
        f.options.deprecated = True
    return f


def _add_message(container, scope_prefix, pkg, m, docs, path):
    msg = container.add(name=m['name'])
    scope = f'{scope_prefix}.{m["name"]}'
    docs.add(path, m.get('doc'))
    # real oneofs first (declaration order), synthetic ones after, as protoc does
    for fld in m.get('fields', []):
        if 'oneof' in fld and fld['oneof'] not in [o.name for o in msg.oneof_decl]:
            msg.oneof_decl.add(name=fld['oneof'])
    for i, fld in enumerate(m.get('fields', [])):
        _add_field(msg, scope, pkg, fld, i + 1, docs, path + [2, i])
    for i, fld in enumerate(m.get('fields', [])):
        if fld.get('optional'):
            msg.oneof_decl.add(name='_' + fld['name'])
            msg.field[i].oneof_index = len(msg.oneof_decl) - 1
    base = len(msg.nested_type)  # map entries were appended during field creation
    for j, nm in enumerate(m.get('messages', [])):
        _add_message(msg.nested_type, scope, pkg, nm, docs, path + [3, base + j])
    for j, e in enumerate(m.get('enums', [])):
        _add_enum(msg.enum_type, e, docs, path + [4, j])
    if m.get('resource'):
        r = msg.options.Extensions[resource_pb2.resource]
        res = m['resource']
        r.type = res['type']; r.pattern.extend(res['patterns'])
        if res.get('singular'): r.singular = res['singular']
        if res.get('plural'): r.plural = res['plural']
        if res.get('name_field'): r.name_field = res['name_field']
    if m.get('deprecated'):
        msg.options.deprecated = True
    return msg


def build_file(fd, earlier_names=()):
    pkg = fd['package']
    f = d.FileDescriptorProto(name=fd['name'], package=pkg, syntax='proto3')
    docs = _Docs(f)
    f.dependency.extend(fd.get('std_deps', STD_DEP_NAMES))
    f.dependency.extend(fd.get('imports', list(earlier_names)))
    for i, e in enumerate(fd.get('enums', [])):
        _add_enum(f.enum_type, e, docs, [5, i])
    for i, m in enumerate(fd.get('messages', [])):
        _add_message(f.message_type, pkg, pkg, m, docs, [4, i])
    for rd in fd.get('resource_definitions', []):
        r = f.options.Extensions[resource_pb2.resource_definition].add()
        r.type = rd['type']; r.pattern.extend(rd['patterns'])
    for si, s in enumerate(fd.get('services', [])):
        sv = f.service.add(name=s['name'])
        docs.add([6, si], s.get('doc'))
        if s.get('host', 'lib.example.com') is not None:
            sv.options.Extensions[client_pb2.default_host] = s.get('host', 'lib.example.com')
        if s.get('scopes'):
            sv.options.Extensions[client_pb2.oauth_scopes] = s['scopes']
        if s.get('api_version'):
            sv.options.Extensions[client_pb2.api_version] = s['api_version']
        if s.get('deprecated'):
            sv.options.deprecated = True
        for mi, m in enumerate(s['methods']):
            md = sv.method.add(name=m['name'], input_type=_q(pkg, m['in']), output_type=_q(pkg, m['out']),
                               client_streaming=bool(m.get('cs', False)), server_streaming=bool(m.get('ss', False)))
            docs.add([6, si, 2, mi], m.get('doc'))
            for i, h in enumerate(m.get('http', [])):
                rule = (md.options.Extensions[annotations_pb2.http] if i == 0
                        else md.options.Extensions[annotations_pb2.http].additional_bindings.add())
                if h['verb'] == 'custom':
                    rule.custom.kind = h.get('kind', 'HEAD'); rule.custom.path = h['uri']
                else:
                    setattr(rule, h['verb'], h['uri'])
                if h.get('body'):
                    rule.body = h['body']
                if h.get('response_body'):
                    rule.response_body = h['response_body']
            for sig in m.get('sigs', []):
                md.options.Extensions[client_pb2.method_signature].append(sig)
            if 'routing' in m:
                rr = md.options.Extensions[routing_pb2.routing]
                rr.SetInParent()
                for rp in m['routing']:
                    p = rr.routing_parameters.add(); p.field = rp['field']; p.path_template = rp.get('tmpl', '')
            if m.get('lro') is not None:
                oi = md.options.Extensions[operations_pb2.operation_info]
                oi.response_type = m['lro'].get('resp', ''); oi.metadata_type = m['lro'].get('meta', '')
            if m.get('ext_lro_service'):
                md.options.Extensions[extended_operations_pb2.operation_service] = m['ext_lro_service']
            if m.get('ext_polling'):
                md.options.Extensions[extended_operations_pb2.operation_polling_method] = True
            if m.get('deprecated'):
                md.options.deprecated = True
    return f


def build_request(api, opts=''):
    """opts: the plugin parameter string.  File-valued options (retry-config, service-yaml) must
    already be paths; see gen.with_option_files."""
    req = plugin_pb2.CodeGeneratorRequest()
    for mod in _DEP_MODS:
        req.proto_file.append(fdp_of(mod))
    earlier = []
    for fd in api['files']:
        f = build_file(fd, earlier)
        req.proto_file.append(f)
        earlier.append(f.name)
        if fd.get('target', True):
            req.file_to_generate.append(f.name)
    req.parameter = opts
    return req


def input_pool(req):
    """A descriptor pool + message classes built from the *input* descriptors only: the independent
    decoder used by every projection (never the emitted classes)."""
    from google.protobuf import descriptor_pool, message_factory
    pool = descriptor_pool.DescriptorPool()
    for f in req.proto_file:
        pool.Add(f)
    return pool


def message_class(pool, full_name):
    from google.protobuf import message_factory
    return message_factory.GetMessageClass(pool.FindMessageTypeByName(full_name))


def dumps(api):
    return json.dumps(api, sort_keys=True)
