"""Run the REAL generator from /repo's working tree and materialise what it emits.

Everything is imported from /repo (editable install in /venv), so each check rebuilds from the current
working tree by construction.  Scratch lives under a private mkdtemp and is removed by the caller.
"""
import contextlib
import io
import json
import os
import shutil
import subprocess
import sys
import tempfile

HERE = os.path.dirname(os.path.abspath(__file__))
VERIF = os.path.dirname(HERE)
TOOLS = os.path.join(VERIF, 'tools')
PY = '/venv/bin/python'
GUARD = 'GAPIC_GENERATOR_VERIF'
IMPORT_MARKER = 'EMITTED-LIBRARY-IMPORT-FAILED'


def ensure_env():
    """stand-in pandoc first on PATH (DESIGN 1.3); stable hashing unless a check overrides it."""
    p = os.environ.get('PATH', '')
    if TOOLS not in p.split(os.pathsep):
        os.environ['PATH'] = TOOLS + os.pathsep + p
    os.environ.setdefault('PYTHONHASHSEED', '0')
    os.environ.setdefault('PYTHONDONTWRITEBYTECODE', '1')


ensure_env()


@contextlib.contextmanager
def scratch(prefix='gapicverif-'):
    d = tempfile.mkdtemp(prefix=prefix)
    try:
        yield d
    finally:
        shutil.rmtree(d, ignore_errors=True)


def option_string(opts, workdir, api=None):
    """opts: dict -> plugin parameter string.  Keys: transport (list|str), metadata, snippets(bool),
    numeric_enums, name, namespace, warehouse, add_iam, templates, old_naming, extra (raw list of strings),
    proto_plus_deps.  api['yaml'] / api['retry'] are written to workdir and referenced by path."""
    parts = []
    o = dict(opts or {})
    t = o.get('transport')
    if t:
        parts.append('transport=' + ('+'.join(t) if isinstance(t, (list, tuple)) else t))
    if o.get('metadata'):
        parts.append('metadata')
    if o.get('snippets') is False:
        parts.append('autogen-snippets=false')
    if o.get('numeric_enums'):
        parts.append('rest-numeric-enums')
    if o.get('add_iam'):
        parts.append('add-iam-methods')
    if o.get('old_naming'):
        parts.append('old-naming')
    if o.get('name'):
        parts.append('python-gapic-name=' + o['name'])
    if o.get('namespace'):
        parts.append('python-gapic-namespace=' + o['namespace'])
    if o.get('warehouse'):
        parts.append('warehouse-package-name=' + o['warehouse'])
    if o.get('templates'):
        parts.append('python-gapic-templates=' + o['templates'])
    if o.get('proto_plus_deps'):
        parts.append('proto-plus-deps=' + o['proto_plus_deps'])
    if api is not None and api.get('yaml') is not None:
        import yaml
        p = os.path.join(workdir, 'service.yaml')
        with open(p, 'w') as f:
            yaml.safe_dump(api['yaml'], f)
        parts.append('service-yaml=' + p)
    if api is not None and api.get('retry') is not None:
        p = os.path.join(workdir, 'retry.json')
        with open(p, 'w') as f:
            json.dump(api['retry'], f)
        parts.append('retry-config=' + p)
    parts.extend(o.get('extra', []))
    return ','.join(parts)


_trace_path = None


def trace_dir():
    """Directory of the hook trace files of this check run.  Created (and removed at exit) by the process that first asks for
    it - core.run_check does so before any worker pool is forked; pool workers, which never run atexit handlers, inherit it
    through the environment."""
    d = os.environ.get('GAPICVERIF_TRACE_DIR')
    if not d or not os.path.isdir(d):
        d = tempfile.mkdtemp(prefix='gapicverif-traces-')
        os.environ['GAPICVERIF_TRACE_DIR'] = d
        import atexit, shutil
        atexit.register(lambda p=d, pid=os.getpid(): os.getpid() == pid and shutil.rmtree(p, ignore_errors=True))
    return d


def enable_trace():
    """Turn the /repo hooks on for THIS process.  Events are read back with read_trace()."""
    global _trace_path
    import sys as _sys
    if _trace_path is None:
        fd, _trace_path = tempfile.mkstemp(prefix='gapicverif-trace-', suffix='.ndjson', dir=trace_dir())
        os.close(fd)
        os.environ[GUARD] = _trace_path
    # the call sites test `verif_trace.ENABLED` dynamically, so this also works when gapic is already imported
    from gapic.utils import verif_trace
    verif_trace.ENABLED = True
    return _trace_path


def read_trace(reset=True):
    """events emitted by the hooks in this process since the last reset."""
    if _trace_path is None:
        return []
    from gapic.utils import verif_trace
    if verif_trace._fh is not None:
        verif_trace._fh.flush()
    with open(_trace_path) as f:
        ev = [json.loads(l) for l in f if l.strip()]
    if reset:
        if verif_trace._fh is not None:
            verif_trace._fh.close(); verif_trace._fh = None
        open(_trace_path, 'w').close()
    return ev


def generate_bytes(req_bytes):
    """In-process run of the real CLI entry point on request bytes -> CodeGeneratorResponse."""
    from gapic.cli import generate as g
    from google.protobuf.compiler import plugin_pb2
    out = io.BytesIO()
    g.generate.callback(request=io.BytesIO(req_bytes), output=out)
    return plugin_pb2.CodeGeneratorResponse.FromString(out.getvalue())


def generate(req):
    return generate_bytes(req.SerializeToString())


def generate_api(api, opts, workdir):
    """abstract API + option dict -> (request, response).  Raises whatever the generator raises."""
    from . import absapi
    req = absapi.build_request(api, option_string(opts, workdir, api))
    return req, generate(req)


def generate_subprocess(req_bytes, env=None, cwd=None, timeout=300):
    """separate `python -m gapic.cli.generate` process (C10/C11): returns (rc, stdout bytes, stderr text)."""
    e = dict(os.environ)
    e.update(env or {})
    r = subprocess.run([PY, '-W', 'ignore', '-m', 'gapic.cli.generate'], input=req_bytes, capture_output=True,
                       env=e, cwd=cwd, timeout=timeout)
    return r.returncode, r.stdout, r.stderr.decode('utf-8', 'replace')


def materialise(res, root):
    os.makedirs(root, exist_ok=True)
    for f in res.file:
        p = os.path.join(root, f.name)
        os.makedirs(os.path.dirname(p) or root, exist_ok=True)
        with open(p, 'w') as fh:
            fh.write(f.content)
    return root


def run_driver(module, root, payload, timeout=600, env=None):
    """Run harness driver `module` (e.g. 'harness.drivers.pager') in a FRESH interpreter with the emitted
    tree `root` first on sys.path.  payload (JSON) goes to stdin; the driver prints one JSON document on the
    last line of stdout.  Returns (ok, result|None, stderr_tail)."""
    e = dict(os.environ)
    e['PYTHONPATH'] = os.pathsep.join([root, VERIF] + ([e['PYTHONPATH']] if e.get('PYTHONPATH') else []))
    e.pop(GUARD, None)
    e.update(env or {})
    r = subprocess.run([PY, '-W', 'ignore', '-m', module], input=json.dumps(payload).encode(), capture_output=True,
                       env=e, cwd=root, timeout=timeout)
    out = r.stdout.decode('utf-8', 'replace').strip().splitlines()
    if r.returncode != 0 or not out:
        err = r.stderr.decode('utf-8', 'replace')[-4000:] + '\n' + '\n'.join(out[-5:])
        mod = payload.get('module') if isinstance(payload, dict) else None
        if isinstance(mod, str) and mod:
            # why did the driver die?  An emitted library that cannot even be imported is a verdict about the generator, not a
            # failure of the harness: core.run_check turns this marker into a violation.
            try:
                pr = subprocess.run([PY, '-W', 'ignore', '-c', f'import importlib; importlib.import_module({mod!r})'], capture_output=True,
                                    env=e, cwd=root, timeout=300)
                if pr.returncode != 0:
                    last = [l for l in pr.stderr.decode('utf-8', 'replace').strip().splitlines() if l.strip()][-1:] or ['?']
                    err = f'{IMPORT_MARKER} module={mod}: {last[0][:300]}\n' + err
            except Exception:  # pragma: no cover
                pass
        return False, None, err
    try:
        return True, json.loads(out[-1]), r.stderr.decode('utf-8', 'replace')[-2000:]
    except Exception as ex:  # pragma: no cover
        return False, None, f'bad driver output: {ex}: {out[-1][:500]}'


def repo_state():
    """identify the /repo tree the run was made against (for evidence/replay files)."""
    try:
        head = subprocess.run(['git', '-C', '/repo', 'rev-parse', '--short', 'HEAD'], capture_output=True, text=True).stdout.strip()
        dirty = subprocess.run(['git', '-C', '/repo', 'status', '--porcelain'], capture_output=True, text=True).stdout
        return head + ('+dirty' if dirty.strip() else '')
    except Exception:  # pragma: no cover
        return 'unknown'
