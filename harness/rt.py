"""Runtime helpers for drivers that execute the EMITTED library in a fresh interpreter.

Projection rule: bytes seen on the wire are decoded with dynamic messages built from the *input*
descriptors (never with the emitted classes), to plain dicts keyed by proto field names.
"""
import base64
import importlib
import json
import sys

from google.protobuf import json_format

from . import absapi
from . import loopback_grpc as lg


class Pool:
    def __init__(self, api):
        self.req = absapi.build_request(api, '')
        self.pool = absapi.input_pool(self.req)
        self._cls = {}

    def cls(self, full_name):
        c = self._cls.get(full_name)
        if c is None:
            c = self._cls[full_name] = absapi.message_class(self.pool, full_name)
        return c

    def encode(self, full_name, d):
        m = self.cls(full_name)()
        json_format.ParseDict(d, m)
        return m.SerializeToString()

    def decode(self, full_name, b, defaults=False):
        m = self.cls(full_name)()
        m.ParseFromString(b)
        return json_format.MessageToDict(m, preserving_proto_field_name=True,
                                         always_print_fields_with_no_presence=defaults)


def import_client(module, service, asyncio_=False):
    mod = importlib.import_module(module)
    name = service + ('AsyncClient' if asyncio_ else 'Client')
    return mod, getattr(mod, name)


def transport_class(module, service_snake, service, kind):
    """kind in grpc | grpc_asyncio | rest"""
    tmod = importlib.import_module(f'{module}.services.{service_snake}.transports')
    suffix = {'grpc': 'GrpcTransport', 'grpc_asyncio': 'GrpcAsyncIOTransport', 'rest': 'RestTransport',
              'rest_asyncio': 'AsyncRestTransport'}[kind]
    return getattr(tmod, service + suffix)


def grpc_client(module, service_snake, service, target, chlog, asyncio_=False):
    """client over a recorded real channel to the loopback server."""
    mod, C = import_client(module, service, asyncio_)
    if asyncio_:
        ch = lg.aio_channel(target, chlog)
        T = transport_class(module, service_snake, service, 'grpc_asyncio')
    else:
        ch = lg.sync_channel(target, chlog)
        T = transport_class(module, service_snake, service, 'grpc')
    return mod, C(transport=T(channel=ch)), ch


def rest_client(module, service_snake, service, hostport):
    from google.auth.credentials import AnonymousCredentials
    mod, C = import_client(module, service, False)
    T = transport_class(module, service_snake, service, 'rest')
    return mod, C(transport=T(host=hostport, url_scheme='http', credentials=AnonymousCredentials()))


def read_payload():
    return json.loads(sys.stdin.read())


def emit(obj):
    sys.stdout.write('\n' + json.dumps(obj, default=_default) + '\n')
    sys.stdout.flush()


def _default(o):
    if isinstance(o, bytes):
        return {'__b64__': base64.b64encode(o).decode()}
    if isinstance(o, (set, frozenset)):
        return sorted(o)
    return repr(o)
