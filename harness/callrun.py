"""Shared binding for spec/Call.tla (C03, C05, C18): carrier API, concrete<->abstract valuation tables, driver
dispatch, spec->code comparison and CallTrace validation."""
import json
import os
import random
import re
from concurrent.futures import ProcessPoolExecutor

from . import absapi, core, gen, pipeline, tlc

PKG = 'acme.call.v1'
MODULE = 'acme.call_v1'
FIELDS = ['name', 'count', 'flag', 'tags', 'labels', 'inner.name', 'inner.tags', 'kind', 'class', 'blob', 'vals', 'request_id', 'opt_request_id', 'extra']
# concrete values for the abstract variants 1 and 2 (3 = explicitly empty string, ids only)
VALUES = {
    'name': {1: 'things/a', 2: 'things/b'},
    'count': {1: 7, 2: -3},
    'flag': {1: True, 2: True},
    'tags': {1: ['x'], 2: ['y', 'z']},
    'labels': {1: {'k': 'v'}, 2: {'a': 'b', 'c': 'd'}},
    'inner.name': {1: 'in1', 2: 'in2'},
    'inner.tags': {1: ['p'], 2: ['q', 'r']},        # repeated leaf of the nested message (a dotted signature entry)
    'kind': {1: 'ALPHA', 2: 'BETA'},
    'class': {1: 'c1', 2: 'c2'},
    'blob': {1: b'abcd', 2: b'\x00\xffz'},          # bytes: a dict request must carry them verbatim (no base64 round trip)
    'vals': {1: [1.5], 2: ['s', True]},           # repeated google.protobuf.Value (dynamically typed elements)
    'request_id': {1: 'id-one', 2: 'id-two', 3: ''},
    'opt_request_id': {1: 'oid-one', 2: 'oid-two', 3: ''},
    'extra': {1: {}, 2: {'name': 'x2'}},          # a singular message field: the EMPTY message is a value too (the field is present)
}
REPLY_VALUES = {'name': {1: 'r/a', 2: 'r/b'}, 'count': {1: 5}}
UUID4 = re.compile(r'^[0-9a-f]{8}-[0-9a-f]{4}-4[0-9a-f]{3}-[89ab][0-9a-f]{3}-[0-9a-f]{12}$')

METHODS = {
    'GetThing': dict(snake='get_thing', req='Req', resp='Thing'),
    'DeleteThing': dict(snake='delete_thing', req='Req', resp=None),
    'UpdateThing': dict(snake='update_thing', req='Req', resp='Thing'),
    'CreateThing': dict(snake='create_thing', req='Req', resp='Thing'),
    'TouchThing': dict(snake='touch_thing', req='Req', resp='Thing'),
    'PlainThing': dict(snake='plain_thing', req='Req', resp='Thing'),
    'NullThing': dict(snake='null_thing', req='Req', resp='Empty'),
    'Import': dict(snake='import_', req='Req', resp='Thing'),
    'CreateChannel': dict(snake='create_channel', req='Req', resp='Thing'),
    'WatchThings': dict(snake='watch_things', req='Req', resp='Thing'),
    'UploadThings': dict(snake='upload_things', req='Req', resp='Thing'),
    'ChatThings': dict(snake='chat_things', req='Req', resp='Thing'),
    'CheckDep': dict(snake='check_dep', req='.other.dep.v1.DepReq', resp='.other.dep.v1.Dep'),
}


def carrier_api():
    req_fields = [dict(name='name'), dict(name='count', type='int32'), dict(name='flag', type='bool'),
                  dict(name='tags', repeated=True), dict(name='labels', type='map:string,string'),
                  dict(name='inner', type='Inner'), dict(name='kind', type='enum:Kind'), dict(name='class'), dict(name='blob', type='bytes'),
                  dict(name='vals', type='google.protobuf.Value', repeated=True),
                  dict(name='request_id', uuid4=True), dict(name='opt_request_id', uuid4=True, optional=True),
                  dict(name='req_id_required', uuid4=True, required=True), dict(name='plain_str'), dict(name='extra', type='Inner')]
    dep = dict(name='other/dep/v1/dep.proto', package='other.dep.v1', target=False, imports=[],
               enums=[dict(name='DepKind', values=['KIND_UNSPECIFIED', 'ALPHA', 'BETA'])],
               messages=[dict(name='Dep', fields=[dict(name='name'), dict(name='count', type='int32')]),
                         dict(name='DepReq', fields=[dict(name='name'), dict(name='count', type='int32'),
                                                     dict(name='tags', repeated=True), dict(name='labels', type='map:string,string'),
                                                     dict(name='kind', type='enum:.other.dep.v1.DepKind'), dict(name='blob', type='bytes'),
                                                     dict(name='request_id', uuid4=True)])])

    def m(name, verb, out='Thing', sigs=(), cs=False, ss=False, inp='Req'):
        http = [] if cs else [dict(verb='post', uri=f'/v1/things:{verb}', body='*')]
        return dict(name=name, **{'in': inp, 'out': out}, http=http, sigs=list(sigs), cs=cs, ss=ss)

    methods = [
        # declared FIRST: a method whose request comes from a dependency package must not influence how later methods are rendered
        m('CheckDep', 'check', out='.other.dep.v1.Dep', sigs=['name,tags,kind,labels'], inp='.other.dep.v1.DepReq'),
        m('GetThing', 'get', sigs=['name,count']),
        m('DeleteThing', 'delete', out='google.protobuf.Empty', sigs=['name']),
        m('UpdateThing', 'update', sigs=['inner.name,tags', 'labels,kind,class,flag,opt_request_id', 'extra']),
        m('CreateThing', 'create', sigs=['name,request_id']),
        # (an EMPTY method_signature - 'callable without flattened arguments' - stands before the others and ends nothing)
        m('TouchThing', 'touch', sigs=['', 'name,tags,count', 'name,count', 'vals']),
        m('PlainThing', 'plain'),
        # its reply is the API's OWN message named Empty (with fields): not google.protobuf.Empty, hence not a void method
        m('NullThing', 'null', out='Empty', sigs=['inner.tags']),
        m('Import', 'import'),
        m('CreateChannel', 'createChannel', ss=True),
        m('WatchThings', 'watch', sigs=['name'], ss=True),
        m('UploadThings', 'upload', cs=True),
        m('ChatThings', 'chat', cs=True, ss=True),
    ]
    main = dict(name='acme/call/v1/things.proto', package=PKG,
                enums=[dict(name='Kind', values=['KIND_UNSPECIFIED', 'ALPHA', 'BETA'])],
                messages=[dict(name='Inner', fields=[dict(name='name'), dict(name='level', type='int32'), dict(name='tags', repeated=True)]),
                          dict(name='Thing', fields=[dict(name='name'), dict(name='count', type='int32'), dict(name='kinds', type='map:string,enum:Kind')]),
                          dict(name='Empty', fields=[dict(name='name'), dict(name='count', type='int32')]),
                          dict(name='Req', fields=req_fields)],
                services=[dict(name='Things', methods=methods)])
    yaml = {'type': 'google.api.Service', 'config_version': 3, 'name': 'lib.example.com',
            'publishing': {'method_settings': [{'selector': f'{PKG}.Things.CreateThing',
                                                'auto_populated_fields': ['request_id', 'opt_request_id']},
                                               # a request message from a dependency package (a plain protobuf class)
                                               {'selector': f'{PKG}.Things.CheckDep', 'auto_populated_fields': ['request_id']}]}}
    return dict(files=[dep, main], yaml=yaml)


# ---- valuations ------------------------------------------------------------------------------------
def concretise(val, dep=False):
    """abstract valuation -> python dict usable as proto-plus mapping / pb2 kwargs (proto field names)."""
    d = {}
    for f, v in val.items():
        if not v:
            continue
        cv = VALUES[f][v]
        if f.startswith('inner.'):
            d.setdefault('inner', {})[f.split('.')[1]] = cv
        else:
            d[f] = cv
    return d


def abstract(d, seen_ids=None, presence=()):
    """decoded message dict (proto field names, MessageToDict of the INPUT-descriptor message) -> valuation."""
    val = {f: 0 for f in FIELDS}
    for f in FIELDS:
        if f.startswith('inner.'):
            cv = (d.get('inner') or {}).get(f.split('.')[1])
        else:
            cv = d.get(f)
        if cv is None:
            continue
        if f == 'blob' and isinstance(cv, str):
            import base64
            cv = base64.b64decode(cv)          # MessageToDict renders bytes as base64 text
        if f in ('request_id', 'opt_request_id'):
            if cv == '':
                val[f] = 3 if f in presence else 0
                continue
            if isinstance(cv, str) and UUID4.match(cv):
                if seen_ids is not None:
                    val[f] = 9 if cv not in seen_ids else 7
                    seen_ids.add(cv)
                else:
                    val[f] = 9
                continue
        val[f] = next((k for k, x in VALUES[f].items() if x == cv and k != 3), 8 if cv not in ('', 0, False, [], {}) else 0)
        if f == 'flag' and cv is True:
            val[f] = 1
    return val


def kw_python(kw):
    """flattened keyword arguments as the caller would write them (parameter names)."""
    out = {}
    for f, v in kw.items():
        if not v:
            continue
        pname = {'inner.name': 'name', 'inner.tags': 'tags', 'class': 'class_'}.get(f, f)
        out[pname] = VALUES[f][v]
    return out


# ---- running ---------------------------------------------------------------------------------------
def _drive(args):
    root, payload = args
    return gen.run_driver('harness.drivers.call', root, payload, timeout=1800)


def dep_library_api():
    """the dependency package as a proto-plus library of its own (option proto-plus-deps=other.dep.v1 of the carrier)."""
    dep = dict(carrier_api()['files'][0])
    dep.pop('target', None)
    dep['services'] = [dict(name='Deps', methods=[dict(name='Echo', **{'in': 'Dep', 'out': 'Dep'},
                                                       http=[dict(verb='post', uri='/v1/dep:echo', body='*')])])]
    return dict(files=[dep])


def materialise_carrier(work, ads=False, ppd=False):
    """generate the carrier (and, with ppd, the dependency library it then builds on) into one importable tree."""
    api = carrier_api()
    o = dict(transport=['grpc', 'rest'], snippets=False)
    if ads:
        o.update(templates='ads-templates', old_naming=True)
    if ppd:
        o.update(proto_plus_deps='other.dep.v1')
    req, res = gen.generate_api(api, o, work)
    root = gen.materialise(res, os.path.join(work, 'out'))
    if ppd:
        dwork = os.path.join(work, 'dep-opts'); os.makedirs(dwork, exist_ok=True)
        _, dres = gen.generate_api(dep_library_api(), dict(transport=['grpc'], snippets=False), dwork)
        droot = gen.materialise(dres, os.path.join(work, 'depout'))
        import shutil
        shutil.copytree(os.path.join(droot, 'other'), os.path.join(root, 'other'), dirs_exist_ok=True)
    else:
        for fdp in req.proto_file:
            if fdp.name.startswith('other/'):
                pipeline.write_pb2(fdp, root)
    return api, root


def run(chk, cases, nshards=12, ads=False, ppd=False):
    """cases: Call.tla cases.  Returns list of (case, observation) with observation = dict(events=[...], error).
    ads=True: the alternative template set (python-gapic-templates=ads-templates,old-naming; sync clients only).
    ppd=True: option proto-plus-deps=other.dep.v1 (the dependency-package request is a proto-plus type of a second library)."""
    module = 'acme.call.v1' if ads else MODULE
    with gen.scratch() as work:
        api, root = materialise_carrier(work, ads=ads, ppd=ppd)
        # an emitted library that does not import is a verdict about the generator (no RPC can be issued), not a failure of this harness
        import subprocess
        e = dict(os.environ)
        e['PYTHONPATH'] = os.pathsep.join([root, gen.VERIF] + ([e['PYTHONPATH']] if e.get('PYTHONPATH') else []))
        e.pop(gen.GUARD, None)
        pr = subprocess.run([gen.PY, '-W', 'ignore', '-c', f'import importlib; importlib.import_module({module!r})'], capture_output=True, env=e,
                            cwd=root, timeout=300)
        if pr.returncode != 0:
            k = 'emitted-library-import' + (':ads' if ads else '') + (':proto-plus-deps' if ppd else '')
            last = [l for l in pr.stderr.decode('utf-8', 'replace').strip().splitlines() if l.strip()][-1:] or ['?']
            chk.case(k, nontrivial=True)
            chk.violation(k, f'the emitted library {module} cannot be imported: {last[0][:300]}', dict(module=module, ads=ads, ppd=ppd))
            return []
        idx = list(range(len(cases)))
        jobs = []
        for s in range(nshards):
            sh = idx[s::nshards]
            if sh:
                jobs.append((root, dict(api=api, module=module, ads=ads, ppd=ppd, cases=[dict(i=i, **cases[i]) for i in sh])))
        obs = {}
        with ProcessPoolExecutor(min(nshards, 14)) as ex:
            for ok, out, err in ex.map(_drive, jobs):
                if not ok:
                    raise core.MachineryError('call driver failed:\n' + err)
                for o in out['obs']:
                    obs[o['i']] = o
    return [(cases[i], obs[i]) for i in idx]


def key_of(c):
    def sv(v):
        return ''.join(f'{f[:2]}{x}' for f, x in sorted(v.items()) if x)
    reqs = '+'.join(sv(v) or '-' for v in c['args']['reqs'])
    return f"{c['method']}/{c['transport']}/{c['form']}/req[{reqs}]/kw[{sv(c['args']['kw'])}]/reply{len(c['script'])}"


def compare(c, o):
    """spec -> code: predicted observables vs projection."""
    exp = c['expect']; ev = o['events']; diffs = []
    sent = [e for e in ev if e['ev'] == 'sent']
    ret = [e for e in ev if e['ev'] == 'return']
    rai = [e for e in ev if e['ev'] == 'raise']
    if exp['raised'] != 'none':
        if not rai or rai[0]['type'] != exp['raised']:
            diffs.append(f"predicted {exp['raised']}, observed {(rai or ret or [{'ev': 'nothing'}])[0]}")
        if sent:
            diffs.append(f'{len(sent)} call(s) reached the server although the call must be rejected before sending')
        return diffs
    if rai:
        return [f"raised {rai[0]['type']}: {rai[0].get('msg', '')[:200]}"]
    if len(sent) != exp['nsent']:
        diffs.append(f"{len(sent)} calls on the channel, predicted {exp['nsent']}")
    if sent:
        s = sent[0]
        if c['transport'] != 'rest':
            if s['path'] != exp['sent']['path']:
                diffs.append(f"path {s['path']} != {exp['sent']['path']}")
            if s['kind'] != exp['sent']['kind']:
                diffs.append(f"stub arity {s['kind']} != {exp['sent']['kind']}")
        if not s.get('own', True):
            diffs.append('the call went out on the channel of ANOTHER client instance')
        if s['msgs'] != exp['sent']['msgs']:
            diffs.append(f"payload {s['msgs']} != predicted {exp['sent']['msgs']}")
    if not ret:
        diffs.append('no return observed')
    elif ret[0]['values'] != exp['result']:
        diffs.append(f"returned {ret[0]['values']} != predicted {exp['result']}")
    if ret and c['void'] and not ret[0].get('is_none'):
        diffs.append('void method did not return None')
    return diffs


def trace_of(c, o):
    return dict(method=c['method'], transport=c['transport'], form=c['form'], args=c['args'], script=c['script'], events=o['events'])


def check(chk, cases, label, dep_enum=False):
    """run cases, compare, validate traces; records violations on chk."""
    pairs = run(chk, cases)
    traces = []
    for c, o in pairs:
        k = key_of(c)
        nontriv = c['form'] in ('kwargs', 'both') or any(any(v.values()) for v in c['args']['reqs']) or len(c['script']) != 1
        chk.case(k, nontrivial=nontriv)
        if o.get('error'):
            chk.violation(k, 'driver error: ' + o['error'], dict(case=c, obs=o))
            continue
        d = compare(c, o)
        if d:
            chk.violation('replay:' + k, '; '.join(d[:5]), dict(case=c, obs=o))
        traces.append((k, trace_of(c, o)))
    accepted, rejected, runs = tlc.validate_all('CallTrace', _cfg('CallTrace.cfg', dep_enum), [t for _, t in traces], timeout=1500)
    for r in runs:
        chk.states += r.distinct; chk.transitions += r.generated
    chk.tlc_runs.append(dict(label=f'CallTrace batch ({label})', runs=len(runs), accepted=accepted, rejected=len(rejected)))
    chk.traces += accepted
    for idx, t, info in rejected:
        chk.violation('trace:' + traces[idx][0], f'CallTrace rejected the recorded call: {info}', dict(trace=t, info=info))
    for k, t in traces[:2]:
        chk.sample(dict(case=k, events=t['events']))
    # the alternative (Ads) template set: same cases on its sync gRPC and REST clients (it has no asyncio client)
    rnd = random.Random(chk.seed)
    sub = [c for c in cases if c['transport'] in ('grpc', 'rest')]
    if len(sub) > (500 if chk.tier == 'quick' else 4000):
        # every case with an OMITTED request is kept (few, and the request coercion of the Ads client has its own code path)
        fixed = [c for c in sub if c['form'] == 'none']
        rest_ = [c for c in sub if c['form'] != 'none']
        sub = fixed + rnd.sample(rest_, min(len(rest_), (500 if chk.tier == 'quick' else 4000)))
    apairs = run(chk, sub, nshards=6, ads=True)
    atraces = []
    for c, o in apairs:
        k = 'ads:' + key_of(c)
        chk.case(k, nontrivial=True)
        if o.get('error'):
            chk.violation(k, 'driver error: ' + o['error'], dict(case=c, obs=o)); continue
        d = compare(c, o)
        if d:
            chk.violation('replay:' + k, '; '.join(d[:5]), dict(case=c, obs=o))
        atraces.append((k, trace_of(c, o)))
    accepted, rejected, runs = tlc.validate_all('CallTrace', _cfg('CallTrace.cfg', dep_enum), [t for _, t in atraces], timeout=1500)
    for r in runs:
        chk.states += r.distinct; chk.transitions += r.generated
    chk.tlc_runs.append(dict(label=f'CallTrace batch ({label}, ads templates)', runs=len(runs), accepted=accepted, rejected=len(rejected)))
    chk.traces += accepted
    for idx, t, info in rejected:
        chk.violation('trace:' + atraces[idx][0], f'CallTrace rejected the recorded call (ads templates): {info}', dict(trace=t, info=info))
    return pairs


def _cfg(name, dep_enum):
    """dep_enum: False | True (the enum keyword of the dependency-package request is offered) | a set of offered extras
    ('kind', 'labels') as read off inspect.signature."""
    t = open(os.path.join(tlc.SPEC, name)).read()
    extras = {'kind'} if dep_enum is True else set(dep_enum or ())
    if 'kind' in extras:
        t = t.replace('DepEnumOffered = FALSE', 'DepEnumOffered = TRUE')
    if 'labels' in extras:
        t = t.replace('DepMapOffered = FALSE', 'DepMapOffered = TRUE')
    return t


def get_cases(chk, quick, seed, select=None, n_quick=2500, dep_enum=False):
    r = tlc.run('Call', _cfg('Call.small.cfg' if quick else 'Call.full.cfg', dep_enum), deadlock=False, timeout=1800)
    chk.add_tlc(r, 'Call model check')
    cases, r2 = tlc.emit_cases('Call', _cfg('Call.emit.small.cfg', dep_enum), deadlock=False, timeout=1800)
    chk.add_tlc(r2, 'Call case emission (small scope)')
    if select:
        cases = [c for c in cases if select(c)]
    # proto-plus cannot build a repeated google.protobuf.Value field from a mapping / constructor argument (a list is marshalled
    # into ONE list-valued Value): such a field reaches a request through append/extend (msg form) or a flattened keyword only
    cases = [c for c in cases if not (c['form'] in ('dict', 'both') and any(v.get('vals') for v in c['args']['reqs']))]
    rnd = random.Random(seed)
    if quick and len(cases) > n_quick:
        cases = rnd.sample(cases, n_quick)
        chk.exhaustive = False
    else:
        chk.exhaustive = True
    return cases
