"""Check bookkeeping: evidence file, violations vs known findings, replay files, exit codes (DESIGN 10).

exit 0  property held on everything explored (listed known findings print KNOWN-FINDING lines)
exit 1  at least one violation not listed in known_findings.json  (VIOLATION property=<id> replay=<path>)
exit 2  machinery failure (never a verdict about the property)
"""
import hashlib
import json
import os
import re
import sys
import time
import traceback

HERE = os.path.dirname(os.path.abspath(__file__))
VERIF = os.path.dirname(HERE)
# seeded-change evaluations (tools/seedcheck.py) redirect both, so that /verif/evidence only ever holds runs against /repo itself
EVIDENCE = os.environ.get('VERIF_EVIDENCE_DIR') or os.path.join(VERIF, 'evidence')
REPLAYS = os.environ.get('VERIF_REPLAY_DIR') or os.path.join(VERIF, 'replays')
KNOWN = os.path.join(VERIF, 'known_findings.json')


class MachineryError(Exception):
    pass


def load_known():
    try:
        with open(KNOWN) as f:
            return json.load(f)
    except FileNotFoundError:
        return {'findings': [], 'fixed': []}


class Check:
    def __init__(self, pid, tier='quick', seed=0):
        self.pid = pid; self.tier = tier; self.seed = seed
        self.t0 = time.time()
        self.states = 0; self.transitions = 0; self.traces = 0
        self.evaluations = 0
        self.nontrivial = set()
        self.samples = []
        self.violations = []      # (key, summary, replay path)
        self.known_hits = {}      # finding id -> count
        self.assumptions = []
        self.extra = {}
        self.tlc_runs = []
        self.rule = ''
        self.exhaustive = False
        self._known = [k for k in load_known().get('findings', []) if k.get('property') == pid]
        self.rng_seed = seed

    # ---- accounting -------------------------------------------------------------------------------
    def add_tlc(self, res, label, require_ok=True):
        """account one TLC model-checking run; a failed run of the *specification itself* is machinery
        failure (the oracle must satisfy the property before it is used)."""
        self.states += res.distinct
        self.transitions += res.generated
        self.tlc_runs.append(dict(label=label, **res.summary()))
        if require_ok and not res.ok:
            raise MachineryError(f'TLC run {label} failed: violated={res.violated} rc={res.rc}\n{res.out[-3000:]}')

    def case(self, key=None, nontrivial=True):
        self.evaluations += 1
        if nontrivial and key is not None:
            self.nontrivial.add(key if isinstance(key, str) else json.dumps(key, sort_keys=True, default=str))

    def sample(self, obj, limit=6):
        if len(self.samples) < limit:
            self.samples.append(obj)

    # ---- verdicts ---------------------------------------------------------------------------------
    def violation(self, key, summary, replay=None):
        """key: stable string identifying the failing input / site.  Known findings are matched by regex on
        the key (fullmatch) so that a different failing input of the same property is still reported."""
        for k in self._known:
            if re.fullmatch(k['match'], key):
                n = self.known_hits.get(k['id'], 0)
                self.known_hits[k['id']] = n + 1
                if n == 0:
                    print(f'KNOWN-FINDING: property={self.pid} {k["id"]}: {k["summary"]} (e.g. {key})', flush=True)
                return False
        os.makedirs(os.path.join(REPLAYS, self.pid), exist_ok=True)
        body = dict(property=self.pid, tier=self.tier, seed=self.seed, key=key, summary=summary, case=replay)
        h = hashlib.sha1(json.dumps(body, sort_keys=True, default=str).encode()).hexdigest()[:12]
        path = os.path.join(REPLAYS, self.pid, h + '.json')
        with open(path, 'w') as f:
            json.dump(body, f, indent=1, default=str)
        self.violations.append((key, summary, path))
        if len(self.violations) <= 40:
            print(f'VIOLATION property={self.pid} replay={path}', flush=True)
            print(f'  key={key}\n  {summary[:1500]}', flush=True)
        return True

    # ---- finish -----------------------------------------------------------------------------------
    def finish(self, level='model_checking'):
        os.makedirs(EVIDENCE, exist_ok=True)
        cov = dict(states=self.states, transitions=self.transitions,
                   traces_validated_against_impl=self.traces,
                   evaluations=self.evaluations, distinct_nontrivial=len(self.nontrivial),
                   rule=self.rule, samples=self.samples or ['(none)'], exhaustive=self.exhaustive,
                   tlc_runs=self.tlc_runs, known_findings_hit=self.known_hits,
                   repo_tree=_repo_state())
        cov.update(self.extra)
        ev = dict(property_id=self.pid, tier=self.tier, seed=self.seed, level=level, coverage=cov,
                  assumptions=self.assumptions, wall_s=round(time.time() - self.t0, 2),
                  violations=len(self.violations))
        with open(os.path.join(EVIDENCE, self.pid + '.json'), 'w') as f:
            json.dump(ev, f, indent=1, default=str)
        print(f'[{self.pid}] tier={self.tier} seed={self.seed} states={self.states} transitions={self.transitions} '
              f'traces={self.traces} evaluations={self.evaluations} nontrivial={len(self.nontrivial)} '
              f'violations={len(self.violations)} known={sum(self.known_hits.values())} wall={ev["wall_s"]}s', flush=True)
        return 1 if self.violations else 0


def _repo_state():
    from . import gen
    return gen.repo_state()


def run_check(pid, main, argv=None):
    import argparse
    ap = argparse.ArgumentParser()
    ap.add_argument('--tier', default=os.environ.get('VERIF_TIER', 'quick'), choices=['quick', 'thorough'])
    ap.add_argument('--seed', type=int, default=int(os.environ.get('VERIF_SEED', '0') or 0))
    ap.add_argument('--replay', default=None)
    a = ap.parse_args(argv)
    chk = Check(pid, a.tier, a.seed)
    try:
        from . import gen
        gen.trace_dir()
        main(chk, a)
        rc = chk.finish(getattr(main, 'level', 'model_checking'))
    except MachineryError as e:
        from . import gen as _gen
        if _gen.IMPORT_MARKER in str(e):
            # a driver died because the emitted library does not import: that is the generator's doing (no call can be made
            # through a library that does not import), reported as a violation of the property under check
            line = [l for l in str(e).splitlines() if _gen.IMPORT_MARKER in l][0]
            chk.case('emitted-library-import', nontrivial=True)
            chk.violation('emitted-library-import', 'a driver could not start: ' + line[:400], dict(error=str(e)[-3000:]))
            rc = chk.finish(getattr(main, 'level', 'model_checking'))
        else:
            print(f'MACHINERY-FAILURE property={pid}: {e}', file=sys.stderr, flush=True)
            rc = 2
    except Exception:
        traceback.print_exc()
        print(f'MACHINERY-FAILURE property={pid}: unexpected exception', file=sys.stderr, flush=True)
        rc = 2
    return rc
