"""Thin, deterministic wrapper around TLC (DESIGN 3.3/3.4).

* every run happens in a private scratch copy of /verif/spec (generated MC_*.tla files are written there),
  under `timeout`, with an explicit seed and `-noGenerateSpecTE`;
* `CASE` lines (PrintT(<<"CASE", ToJson(rec)>>)) are parsed into Python objects (spec -> code);
* batched trace validation (code -> spec): traces are written to one JSON file handed to the trace spec
  through the environment (IOEnv.TRACE_FILE); the spec keeps the number of fully accepted traces in
  TLC register 1 and prints it from its POSTCONDITION as  <<"ACCEPTED", n>>.
"""
import json
import os
import re
import shutil
import subprocess
import tempfile
import time

HERE = os.path.dirname(os.path.abspath(__file__))
VERIF = os.path.dirname(HERE)
SPEC = os.path.join(VERIF, 'spec')
JAR = '/opt/veriftools/tla/tla2tools.jar:/opt/veriftools/tla/CommunityModules-deps.jar'

_FINAL = re.compile(r'(\d+) states generated, (\d+) distinct states found, (\d+) states left on queue')
_DEPTH = re.compile(r'The depth of the complete state graph search is (\d+)')
_INV = re.compile(r'Error: Invariant (\S+) is violated')
_CASE = re.compile(r'^<<"CASE", (".*")>>$')
_TAGGED = re.compile(r'^<<"([A-Z_]+)", (.*)>>$')


class TLCResult:
    def __init__(self):
        self.rc = None; self.out = ''; self.generated = 0; self.distinct = 0; self.depth = 0
        self.violated = None      # name of violated invariant / 'postcondition' / 'temporal' / 'deadlock' / 'error'
        self.cases = []; self.tagged = {}; self.wall = 0.0; self.cmd = ''; self.coverage = {}
        self.timed_out = False

    @property
    def ok(self):
        return self.rc == 0 and self.violated is None

    def summary(self):
        return dict(rc=self.rc, generated=self.generated, distinct=self.distinct, depth=self.depth,
                    violated=self.violated, wall_s=round(self.wall, 2), cmd=self.cmd)


def _parse(res, text):
    res.out = text
    for m in _FINAL.finditer(text):
        res.generated, res.distinct = int(m.group(1)), int(m.group(2))
    m = _DEPTH.search(text)
    if m:
        res.depth = int(m.group(1))
    m = _INV.search(text)
    if m:
        res.violated = m.group(1)
    elif 'Postcondition' in text and 'violated' in text or 'The postcondition' in text and 'false' in text.lower():
        res.violated = 'postcondition'
    elif 'Temporal properties were violated' in text:
        res.violated = 'temporal'
    elif 'Deadlock reached' in text:
        res.violated = 'deadlock'
    elif re.search(r'Error: Action property (\S+)', text):
        res.violated = re.search(r'Error: Action property (\S+)', text).group(1)
    elif 'Error:' in text and res.rc not in (0, None):
        res.violated = 'error'
    for line in text.splitlines():
        line = line.strip()
        m = _CASE.match(line)
        if m:
            try:
                res.cases.append(json.loads(json.loads(m.group(1))))
            except Exception:
                pass
            continue
        m = _TAGGED.match(line)
        if m and m.group(1) != 'CASE':
            res.tagged.setdefault(m.group(1), []).append(m.group(2))
    # coverage lines:  <Action line .. of module M>: distinct:generated
    for m in re.finditer(r'<(\w+) line \d+, col \d+ to line \d+, col \d+ of module (\w+)>: (\d+):(\d+)', text):
        res.coverage[m.group(1)] = res.coverage.get(m.group(1), 0) + int(m.group(4))
    return res


def run(module, cfg, workers=16, simulate=None, depth=None, seed=0, env=None, timeout=900, coverage=False,
        extra_files=None, deadlock=True, keep=None, java_opts=None):
    """module: name under /verif/spec (without .tla).  cfg: file name under /verif/spec or literal cfg text
    (if it contains a newline or 'SPECIFICATION').  simulate: number of behaviours for -simulate.
    extra_files: {filename: text} written next to the specs (generated MC modules, trace files).
    deadlock=False passes -deadlock (i.e. do NOT check deadlock)."""
    res = TLCResult()
    work = tempfile.mkdtemp(prefix='tlc-')
    try:
        for fn in os.listdir(SPEC):
            if fn.endswith('.tla') or fn.endswith('.cfg'):
                shutil.copy(os.path.join(SPEC, fn), os.path.join(work, fn))
        for fn, text in (extra_files or {}).items():
            with open(os.path.join(work, fn), 'w') as f:
                f.write(text)
        if '\n' in cfg or 'SPECIFICATION' in cfg or 'INIT' in cfg:
            cfgname = f'_gen_{module}.cfg'
            with open(os.path.join(work, cfgname), 'w') as f:
                f.write(cfg)
        else:
            cfgname = cfg
        cmd = ['timeout', str(int(timeout)), 'java', '-XX:+UseParallelGC', '-Djava.io.tmpdir=' + work] + (java_opts or ['-Xmx6g']) + [
            '-cp', JAR, 'tlc2.TLC', '-workers', str(workers), '-metadir', os.path.join(work, 'states'),
            '-noGenerateSpecTE', '-seed', str(seed), '-config', cfgname]
        if not deadlock:
            cmd.append('-deadlock')
        if coverage:
            cmd += ['-coverage', '1']
        if simulate:
            cmd += ['-simulate', f'num={simulate}']
            if depth:
                cmd += ['-depth', str(depth)]
        cmd.append(module + '.tla')
        e = dict(os.environ); e.update(env or {})
        t0 = time.time()
        p = subprocess.run(cmd, cwd=work, capture_output=True, text=True, env=e)
        res.wall = time.time() - t0
        res.rc = p.returncode
        res.timed_out = p.returncode == 124
        res.cmd = ' '.join(cmd[2:]).replace(work + '/', '')
        _parse(res, p.stdout + p.stderr)
        if res.timed_out:
            res.violated = res.violated or 'timeout'
        if keep:
            shutil.copytree(work, keep, dirs_exist_ok=True)
    finally:
        shutil.rmtree(work, ignore_errors=True)
    return res


def check_model(module, cfg, **kw):
    """exhaustive model check; returns TLCResult (ok iff every invariant/property held)."""
    return run(module, cfg, **kw)


def emit_cases(module, cfg, **kw):
    """single-worker run whose invariant prints CASE lines; returns (cases, TLCResult)."""
    kw.setdefault('workers', 1)
    r = run(module, cfg, **kw)
    return r.cases, r


def validate_traces(module, cfg, traces, workers=1, timeout=900, extra_files=None, env=None):
    """traces: list of JSON-able trace objects.  Returns (n_accepted_prefix, TLCResult): the trace spec
    accepts traces in order; n = number of traces fully accepted before the first rejection
    (== len(traces) when all are accepted)."""
    work = tempfile.mkdtemp(prefix='tlctr-')
    try:
        tf = os.path.join(work, 'traces.json')
        with open(tf, 'w') as f:
            json.dump(traces, f)
        e = dict(env or {}); e['TRACE_FILE'] = tf
        r = run(module, cfg, workers=workers, env=e, timeout=timeout, extra_files=extra_files, deadlock=False)
        n = None
        for v in r.tagged.get('ACCEPTED', []):
            try:
                n = int(v.strip())
            except ValueError:
                pass
        return n, r
    finally:
        shutil.rmtree(work, ignore_errors=True)


def validate_all(module, cfg, traces, max_rejects=10, **kw):
    """Total verdicts: validate a batch; on a rejection record the offending trace, drop it and continue
    with the rest.  Returns (accepted_count, rejected: list of (index, trace, info), runs: [TLCResult]).
    Raises RuntimeError on machinery failure (TLC error that is not a rejection)."""
    rejected, runs = [], []
    base = 0
    rest = list(traces)
    accepted = 0
    while rest:
        n, r = validate_traces(module, cfg, rest, **kw)
        runs.append(r)
        if n is None:
            raise RuntimeError('trace validation machinery failure:\n' + r.out[-3000:])
        if r.violated not in (None, 'postcondition') and not (r.violated or '').startswith('Inv') and n >= len(rest):
            raise RuntimeError('trace validation machinery failure:\n' + r.out[-3000:])
        accepted += min(n, len(rest))
        if n >= len(rest):
            break
        info = dict(violated=r.violated, reached=r.tagged.get('REACHED', [None])[-1])
        m = re.match(r'<<(\d+), (\d+)>>', info['reached'] or '')
        if m and isinstance(rest[n], dict) and isinstance(rest[n].get('events'), list):
            # the batch stopped inside trace n at position l: events[l-1] is the first step that no action
            # of the trace specification could take (or after which an invariant failed)
            l = int(m.group(2)) if int(m.group(1)) == n + 1 else 1
            evs = rest[n]['events']
            info['matched_prefix'] = l - 1
            info['next_event'] = evs[l - 1] if 0 < l <= len(evs) else '(end of trace: final state not accepted)'
        rejected.append((base + n, rest[n], info))
        base += n + 1
        rest = rest[n + 1:]
        if len(rejected) >= max_rejects:
            break
    return accepted, rejected, runs


def sany(module):
    p = subprocess.run(['java', '-cp', JAR, 'tla2sany.SANY', module + '.tla'], cwd=SPEC, capture_output=True, text=True)
    ok = p.returncode == 0 and 'Semantic errors' not in p.stdout and 'Fatal errors' not in p.stdout and '***Parse Error***' not in p.stdout
    return ok, p.stdout[-2000:]
