"""Virtual clock for google.api_core retry / timeout (DESIGN 3.3), used by drivers in a fresh interpreter.

The names `time` and `random` inside google.api_core.retry.retry_base / retry_unary / retry_unary_async, the name
`asyncio` inside retry_unary_async (only `sleep` is replaced) and the default `clock` of
TimeToDeadlineTimeout.__init__ (bound as a default argument, so `__defaults__` is replaced) are redirected to one
VClock.  Nothing sleeps for real; `random.uniform(lo, hi)` returns lo + (hi - lo) * phi and remembers (lo, hi).

The clock starts at 1024.0 so that every sum of dyadic durations (multiples of 1/4096 s) is exact in binary
floating point: the comparisons api-core makes (now + sleep > deadline, remaining < 1) are then decided exactly.

Pairing rule (purely structural): api-core draws the k-th sleep value before the k-th attempt, so the k-th sleep
is paired with the k-th draw and a RetryError raised after k-1 sleeps refused the k-th draw.
"""
import asyncio as _asyncio

BASE = 1024.0


class VClock:
    def __init__(self):
        self.now = BASE
        self.phi = 1.0
        self.draws = []          # [(lo, hi, value)]
        self.slept = []          # [d]
        self.on_sleep = None     # callback(asked_hi, slept)

    def reset(self, phi=1.0):
        self.now = BASE
        self.phi = phi
        self.draws = []
        self.slept = []

    # ---- what the patched names do ----------------------------------------------------------------
    def monotonic(self):
        return self.now

    def uniform(self, lo, hi):
        v = lo + (hi - lo) * self.phi
        self.draws.append((lo, hi, v))
        return v

    def _sleep(self, d):
        k = len(self.slept)
        self.slept.append(d)
        asked = self.draws[k][1] if k < len(self.draws) else None
        self.now += d
        if self.on_sleep is not None:
            self.on_sleep(asked, d)

    def pending_draw(self):
        """the draw that belongs to the attempt in progress (refused when RetryError is raised)."""
        k = len(self.slept)
        return self.draws[k] if k < len(self.draws) else None


class _Time:
    def __init__(self, vc):
        self._vc = vc

    def monotonic(self):
        return self._vc.monotonic()

    def sleep(self, d):
        self._vc._sleep(d)


class _Random:
    def __init__(self, vc):
        self._vc = vc

    def uniform(self, lo, hi):
        return self._vc.uniform(lo, hi)


class _Asyncio:
    """stands for the name `asyncio` inside retry_unary_async: sleep is virtual, the rest is the real module."""

    def __init__(self, vc):
        self._vc = vc

    async def sleep(self, d, *a, **k):
        self._vc._sleep(d)
        await _asyncio.sleep(0)

    def __getattr__(self, n):
        return getattr(_asyncio, n)


class _Stamp:
    __slots__ = ('t',)

    def __init__(self, t):
        self.t = t

    def timestamp(self):
        return self.t


def install(vc):
    """redirect api-core to `vc`.  Raises RuntimeError if api-core does not have the shape this relies on
    (machinery failure, never a verdict)."""
    import google.api_core.retry.retry_base as rb
    import google.api_core.retry.retry_unary as ru
    import google.api_core.retry.retry_unary_async as rua
    import google.api_core.timeout as to
    from google.api_core import datetime_helpers
    import inspect
    for mod, names in ((rb, ('time', 'random')), (ru, ('time',)), (rua, ('time', 'asyncio'))):
        for n in names:
            if not hasattr(mod, n):
                raise RuntimeError(f'vtime: {mod.__name__} has no name {n!r}')
    src = inspect.getsource(rb.exponential_sleep_generator) + inspect.getsource(rb._retry_error_helper)
    if 'random.uniform' not in src or 'time.monotonic' not in src:
        raise RuntimeError('vtime: retry_base no longer uses random.uniform / time.monotonic')
    if 'time.sleep' not in inspect.getsource(ru.retry_target) or 'asyncio.sleep' not in inspect.getsource(rua.retry_target):
        raise RuntimeError('vtime: retry_target no longer sleeps through time.sleep / asyncio.sleep')
    d = to.TimeToDeadlineTimeout.__init__.__defaults__
    if not (isinstance(d, tuple) and len(d) == 2 and d[1] in (datetime_helpers.utcnow,) or getattr(d[1], '_vtime', False)):
        raise RuntimeError('vtime: TimeToDeadlineTimeout.__init__ defaults are not (timeout, clock)')
    rb.time = _Time(vc)
    rb.random = _Random(vc)
    ru.time = _Time(vc)
    rua.time = _Time(vc)
    rua.asyncio = _Asyncio(vc)

    def clock():
        return _Stamp(vc.now)
    clock._vtime = True
    to.TimeToDeadlineTimeout.__init__.__defaults__ = (d[0], clock)
    return vc
