"""EXT_SAMPLECFG (specification growth; not a listed property, registered in no property):
handwritten sample configurations are validated as a small statement language
(gapic/samplegen/samplegen.py, class Validator).

spec      : spec/SampleCfg.tla (request block + one action per statement validator, 13 invariants, liveness, 8 mutants)
spec->code: TLC enumerates sample configurations (request entries, statement lists with loop bodies to depth 2) together
            with the predicted verdict and the variables in scope after every statement; each is concretised into a real
            sample config and a real API (descriptors built from the tables of the specification), the REAL Validator
            validates it, and verdict / exception class / var_defs_ are compared statement by statement.
code->spec: the recorded steps (one event per statement at the return of its validation call, the loop header when its
            body begins) are validated by spec/SampleCfgTrace.tla in batches; every invariant of SampleCfg is evaluated
            after every recorded step.  Seeded random configurations beyond the enumerated vocabulary (longer lists,
            depth 3, every attribute) are judged by the trace specification only.
"""
import hashlib
import json
import os
import random
import time
from concurrent.futures import ProcessPoolExecutor

from .. import absapi, core, tlc

PKG = 'acme.sc.v1'
MUTANTS = ('dynamic_scope', 'body_scope_leak', 'allow_redefine', 'no_reserved', 'map_neither_ok', 'undefined_ok',
           'fmt_unchecked', 'dup_field_ok')
END = dict(k='end', names=[], src=[], nfmt=0, args=[], kw=[])
COLL = {'collection', 'variable', 'body'}
PLAIN = {'x', 'y', 'z', 'w', 'k', 'v'}


# ---------------------------------------------------------------------------------------------------------------------
# concretisation: tables of the specification -> abstract API -> descriptors -> api.API ; token -> sample config
def carrier_api(tables):
    """The API the specification talks about, spelled out from its own tables (Fields, MapEntries, EnumValues,
    RefType, Patterns)."""
    F = tables['fields']
    entries = set(tables['mapEntries'])

    def ftype(f):
        if f['kind'] == 'enum':
            return 'enum:Color'
        if f['kind'] == 'scalar':
            return 'string'
        if f['msg'] in entries:
            return 'map:string,' + ftype(F[f['msg']]['value'])
        return f['msg']

    msgs = []
    for name in sorted(F):
        if name in entries:
            continue
        fields = []
        for fn in sorted(F[name]):
            f = F[name][fn]
            fd = dict(name=fn, type=ftype(f))
            if f['rep'] and f['msg'] not in entries:
                fd['repeated'] = True
            if fn.startswith('alt_'):
                fd['oneof'] = 'alt'
            ref = tables['refs'].get(fn) if name == 'GetReq' else ''
            if ref:
                fd['ref'] = 'acme.com/' + ref
            fields.append(fd)
        msgs.append(dict(name=name, fields=fields))
    for res, pats in sorted(tables['patterns'].items()):
        plural = dict(shelf='shelves')
        msgs.append(dict(name=res, fields=[dict(name='name')], resource=dict(
            type='acme.com/' + res,
            patterns=['/'.join(f'{plural.get(p, p + "s")}/{{{p}}}' for p in pat) for pat in pats])))
    ev = sorted(tables['enumValues'], key=lambda v: (not v.endswith('UNSPECIFIED'), v))
    return dict(files=[dict(name='acme/sc/v1/sc.proto', package=PKG, enums=[dict(name='Color', values=ev)], messages=msgs,
                            services=[dict(name='Sc', methods=[dict(name='Get', **{'in': 'GetReq', 'out': 'Resp'},
                                                                    http=[dict(verb='get', uri='/v1/{name=things/*}')])])])])


def build_schema(tables):
    from gapic.schema import api as gapi
    req = absapi.build_request(carrier_api(tables))
    schema = gapi.API.build(list(req.proto_file), package=PKG)
    return schema, schema.services[PKG + '.Sc'].methods['Get']


def expr_text(e):
    return '.'.join(s['name'] + {'none': '', 'idx': '[0]', 'key': '{"k"}', 'bad': '[x]'}[s['sel']] for s in e)


def fmt_body(nfmt, args, suffix=''):
    return [(' '.join(['%s'] * nfmt) or 'text') + suffix] + [expr_text(a) for a in args]


def entry_dict(e):
    d = {}
    if e['path']:
        d['field'] = '.'.join(e['path']) + ('%' + e['res'] if e['res'] else '')
    if e['val']:
        d['value'] = e['val']
    if e['p']:
        d['input_parameter'] = e['p']
    if e['sp']:
        d['frob'] = 1
    return d


def concretise(prog):
    """token stream -> (nested response block, {id(statement dict): token}).  A stream that ends inside a loop body
    (the validation was rejected there) leaves the loops closed where they are."""
    root = []
    stack = [root]
    toks = {}
    for t in prog:
        k = t['k']
        if k == 'end':
            stack.pop()
            continue
        if k == 'define':
            st = {'define': f"{t['names'][0]}={expr_text(t['src'])}"}
        elif k in ('print', 'comment'):
            st = {k: fmt_body(t['nfmt'], t['args'])}
        elif k == 'write_file':
            body = {}
            if 'filename' in t['kw']:
                body['filename'] = fmt_body(t['nfmt'], t['args'], '.txt')
            if 'contents' in t['kw']:
                body['contents'] = expr_text(t['src'])
            st = {'write_file': body}
        elif k == 'loop':
            loop = {}
            inner = None
            for kw in t['kw']:
                if kw in ('collection', 'map'):
                    loop[kw] = expr_text(t['src'])
                elif kw in ('variable', 'key'):
                    loop[kw] = t['names'][0]
                elif kw == 'value':
                    loop[kw] = t['names'][1]
                elif kw == 'body':
                    inner = loop[kw] = []
                else:
                    loop[kw] = 1
            st = {'loop': loop}
        elif k == 'unknown':
            st = {'frob': 'x'}
        elif k == 'multi':
            st = {'print': ['a'], 'comment': ['b']}
        elif k == 'empty':
            st = {}
        else:
            raise core.MachineryError(f'unknown token kind {k}')
        toks[id(st)] = t
        stack[-1].append(st)
        if k == 'loop':
            stack.append(inner if inner is not None else [])
    return root, toks


# ---------------------------------------------------------------------------------------------------------------------
# observation of the real Validator
def shape_of(f):
    msg = getattr(f, 'message', None)
    kind = 'message' if msg else 'enum' if getattr(f, 'enum', None) else 'scalar'
    return ('rep:' if f.repeated else '') + kind + (':' + msg.name if msg else '')


def defined_of(v):
    return sorted((dict(n=n, s=shape_of(f)) for n, f in v.var_defs_.items()), key=lambda d: d['n'])


_STATE = {}


def _init_worker(tables):
    from gapic.samplegen import samplegen
    from gapic.samplegen_utils import types
    schema, method = build_schema(tables)

    class Recording(samplegen.Validator):
        """The real Validator; validate_response hands the statements of a block to the real validate_response one
        call per statement, so that every statement (at any depth) has a call whose return is its linearisation
        point.  Nothing of the validation itself is re-implemented."""

        def start(self, toks, events):
            self._toks = toks; self._events = events; self._open = []

        def _emit(self, tok, verdict):
            self._events.append(dict(ev='stmt', req=[], tok=tok, verdict=verdict,
                                     defined=defined_of(self) if verdict == 'running' else []))

        def validate_response(self, response):
            if self._open and not self._open[-1]['entered']:
                self._open[-1]['entered'] = True           # the header of the innermost loop was accepted
                self._emit(self._open[-1]['tok'], 'running')
            for st in response:
                tok = self._toks[id(st)]
                frame = dict(tok=tok, entered=False)
                if tok['k'] == 'loop':
                    self._open.append(frame)
                try:
                    super().validate_response([st])
                except Exception as e:
                    if not getattr(e, '_verif_recorded', False):
                        e._verif_recorded = True
                        self._emit(tok, type(e).__name__)
                    raise
                if tok['k'] == 'loop':
                    self._open.pop()
                    self._emit(END, 'running')
                else:
                    self._emit(tok, 'running')

    _STATE.update(samplegen=samplegen, types=types, schema=schema, method=method, Recording=Recording)


def run_case(case):
    """-> dict(events=[...], plain=(verdict, defined))"""
    S = _STATE
    request = [entry_dict(e) for e in case['req']]
    response, toks = concretise(case['prog'])
    form = S['types'].CallingForm.Request
    # (a) the validator exactly as generate_sample drives it: two calls
    v = S['samplegen'].Validator(S['method'], S['schema'])
    try:
        v.validate_and_transform_request(form, [dict(r) for r in request])
        v.validate_response(response)
        plain = 'accepted'
    except Exception as e:
        plain = type(e).__name__
    # (b) the same, observed statement by statement
    events = []
    r = S['Recording'](S['method'], S['schema'])
    r.start(toks, events)
    try:
        r.validate_and_transform_request(form, [dict(x) for x in request])
        events.append(dict(ev='request', req=case['req'], tok=END, verdict='running', defined=defined_of(r)))
    except Exception as e:
        events.append(dict(ev='request', req=case['req'], tok=END, verdict=type(e).__name__, defined=[]))
        return dict(events=events, plain=plain)
    try:
        r.validate_response(response)
        events.append(dict(ev='finish', req=[], tok=END, verdict='accepted', defined=defined_of(r)))
    except Exception:
        pass
    return dict(events=events, plain=plain, config=dict(request=request, response=response))


def _run_chunk(chunk):
    return [run_case(c) for c in chunk]


def run_all(cases, tables, procs):
    if procs <= 1 or len(cases) < 2000:
        if not _STATE:
            _init_worker(tables)
        return _run_chunk(cases)
    n = 400
    chunks = [cases[i:i + n] for i in range(0, len(cases), n)]
    out = []
    with ProcessPoolExecutor(procs, initializer=_init_worker, initargs=(tables,)) as ex:
        for res in ex.map(_run_chunk, chunks):
            out.extend(res)
    return out


# ---------------------------------------------------------------------------------------------------------------------
# naming of input classes
def name_class(n, tables):
    if n in tables['keywords']:
        return f'keyword({n})'
    if n in tables['builtins']:
        return f'builtin({n})'
    if n in tables['templateNames']:
        return f'template-name({n})'
    return 'v' if n in PLAIN else n


NAME_RULES = {'ReservedVariableName', 'RedefinedVariable', 'BadAssignment'}
EXPR_RULES = {'UndefinedVariableReference', 'BadAttributeLookup', 'BadLoop'}


def features(tables, names=(), exprs=(), more=(), about=None, crash=False):
    """the features of a statement that name its input class: special names it binds, selector kinds in its expressions.
    about: the rule the specification applies to the statement; a rule about names says nothing about the expressions
    and vice versa, so only the features the rule looks at are part of the class."""
    f = set()
    if about not in EXPR_RULES:
        f = {'name=' + x for x in {name_class(n, tables) for n in names} - {'v'}}
    if about not in NAME_RULES or crash:        # whatever was raised that is no verdict was raised while evaluating
        for e in exprs:
            for s in e:
                if s['sel'] != 'none':
                    f.add({'key': 'keyed-lookup', 'idx': 'indexed-lookup', 'bad': 'malformed-segment'}[s['sel']])
    return '[' + ','.join(sorted(f | set(more))) + ']'


def tok_class(t, tables, about=None, crash=False):
    k = t['k']
    arity = ['arity-mismatch'] if t['nfmt'] != len(t['args']) else []
    if k == 'define':
        return 'define' + features(tables, t['names'], [t['src']], about=about, crash=crash)
    if k in ('print', 'comment'):
        return k + features(tables, (), t['args'], arity, about=about, crash=crash)
    if k == 'write_file':
        keys = [] if set(t['kw']) == {'filename', 'contents'} else ['keys=' + ('+'.join(sorted(t['kw'])) or 'none')]
        return 'write_file' + features(tables, (), t['args'] + [t['src']], arity + keys, about=about, crash=crash)
    if k == 'loop':
        kw = set(t['kw'])
        if kw == COLL:
            return 'loop-collection' + features(tables, t['names'][:1], [t['src']], about=about, crash=crash)
        if {'map', 'body'} <= kw and kw <= {'map', 'body', 'key', 'value'}:
            form = {(True, True): 'key-and-value', (True, False): 'key', (False, True): 'value',
                    (False, False): 'neither-key-nor-value'}['key' in kw, 'value' in kw]
            names = [t['names'][0]] * ('key' in kw) + [t['names'][1]] * ('value' in kw)
            same = ['key=value'] if len(names) == 2 and names[0] == names[1] and about not in EXPR_RULES else []
            return f'loop-map:{form}' + features(tables, names, [t['src']], same, about=about, crash=crash)
        return 'loop-malformed:keywords=' + '+'.join(sorted(kw))
    return 'statement:' + k


def req_class(req, tables):
    """names what is not plain about a request block (a plain entry sets a valid field once, with a value, with no or an
    ordinary input parameter), e.g. request[top-then-sub], request[p=builtin(print)], request[resource-style]"""
    F = tables['fields']
    feats = set()
    last = {}
    params = []
    for e in req:
        if not e['val']:
            feats.add('no-value')
        if e['sp']:
            feats.add('spurious-keyword')
        if e['val'] == 'GREEN':
            feats.add('enum=GREEN')
        if e['p']:
            pc = name_class(e['p'], tables)
            if pc != 'v':
                feats.add('p=' + pc)
            if e['p'] in params:
                feats.add('p-repeated')
            params.append(e['p'])
        if not e['path']:
            feats.add('no-field')
            continue
        base = e['path'][0]
        if e['res']:
            kind = 'resource'
            feats.add('resource-style' if base in F['GetReq'] else 'resource-style-bad-base')
        else:
            kind = 'top' if len(e['path']) == 1 else 'sub'
            m = 'GetReq'
            for i, a in enumerate(e['path']):
                f = F[m].get(a)
                if not f or (f['kind'] != 'message' and i != len(e['path']) - 1):
                    feats.add('bad-path')
                    break
                m = f['msg']
        if base in last and (last[base], kind) not in (('sub', 'sub'), ('resource', 'resource')):
            feats.add(f'{last[base]}-then-{kind}')
        last[base] = kind
    return 'request[' + ','.join(sorted(feats)) + ']'


def entry_text(e):
    d = entry_dict(e)
    s = d.get('field', '(no field)') + ('=' + d['value'] if d.get('value') in ('RED', 'GREEN') else '')
    s += '' if 'value' in d else '(no value)'
    s += '/p=' + d['input_parameter'] if 'input_parameter' in d else ''
    return s + ('/spurious-keyword' if 'frob' in d else '')


def outcome(v):
    return 'accepted' if v in ('running', 'accepted') else v


def case_text(c):
    depth = 0; parts = []
    for t in c['prog']:
        if t['k'] == 'end':
            depth -= 1; parts.append('}'); continue
        s = t['k']
        if t['k'] == 'define':
            s = f"define {t['names'][0]}={expr_text(t['src'])}"
        elif t['k'] in ('print', 'comment'):
            s = f"{t['k']}({t['nfmt']};{','.join(expr_text(a) for a in t['args'])})"
        elif t['k'] == 'write_file':
            s = f"write_file[{'+'.join(sorted(t['kw']))}]({t['nfmt']};{','.join(expr_text(a) for a in t['args'])};{expr_text(t['src'])})"
        elif t['k'] == 'loop':
            s = f"loop[{'+'.join(sorted(t['kw']))}]({expr_text(t['src'])};{','.join(t['names'])}){{"
        parts.append(s)
    return 'request[' + ','.join(entry_text(e) for e in c['req']) + '] ' + ' ; '.join(parts)


# ---------------------------------------------------------------------------------------------------------------------
# seeded random configurations beyond the enumerated vocabulary (judged by SampleCfgTrace only)
def random_cases(rnd, n, tables):
    F = tables['fields']
    plain_names = ['x', 'y', 'z', 'w', 'k', 'v']
    special = ['class', 'print', 'response', 'items']
    entries = [dict(path=p, res=r, val=v, sp=False, p=ip) for p, r, v, ip in [
        (['name'], '', 'x', ''), (['name'], '', 'x', 'x'), (['count'], '', '3', 'y'), (['view'], '', 'RED', ''),
        (['view'], '', 'GREEN', ''), (['item', 'name'], '', 'x', ''), (['item', 'leaf', 'tag'], '', 'x', 'z'),
        (['parent'], 'project', 'x', ''), (['parent'], 'shelf', 'x', ''), (['parent'], 'folder', 'x', ''),
        (['orphan'], 'x', 'x', ''), (['name', 'x'], '', 'x', ''), (['nope'], '', 'x', '')]]

    def expr(roots):
        e = [dict(name=rnd.choice(roots), sel=rnd.choice(['none'] * 6 + ['idx']))]
        msg = 'Resp' if e[0]['name'] == '$resp' else rnd.choice(['Item', 'Leaf', 'ByNameEntry', 'Resp'])
        for _ in range(rnd.choice([0, 1, 1, 2, 2, 3])):
            an = rnd.choice(sorted(F[msg]) + (['nope'] if rnd.random() < 0.05 else []))
            f = F[msg].get(an)
            sel = 'none'
            if f and f['rep'] and rnd.random() < 0.6:
                sel = 'idx'
            elif rnd.random() < 0.04:
                sel = rnd.choice(['idx', 'bad'])
            e.append(dict(name=an, sel=sel))
            if not f or f['kind'] != 'message':
                break
            msg = f['msg']
        return e

    out = []
    for _ in range(n):
        req = rnd.sample(entries, rnd.choice([0, 0, 1, 1, 2, 3]))
        bound = ['$resp'] + [e['p'] for e in req if e['p']]
        prog = []; depth = 0; scopes = [list(bound)]
        for _ in range(rnd.randint(1, 7)):
            roots = [n_ for s in scopes for n_ in s] + (['q'] if rnd.random() < 0.05 else [])
            r = rnd.random()
            if depth and r < 0.2:
                prog.append(END); depth -= 1; scopes.pop(); continue
            names = plain_names + (special if rnd.random() < 0.08 else [])
            fresh = [n_ for n_ in names if n_ not in roots] or names
            nm = rnd.choice(fresh if rnd.random() < 0.9 else names)
            if r < 0.45:
                prog.append(dict(k='define', names=[nm], src=expr(roots), nfmt=0, args=[], kw=[])); scopes[-1].append(nm)
            elif r < 0.65:
                a = [expr(roots) for _ in range(rnd.choice([0, 1, 1, 2, 3]))]
                prog.append(dict(k=rnd.choice(['print', 'comment']), names=[], src=[], nfmt=len(a) if rnd.random() < 0.9 else 1,
                                 args=a, kw=[]))
            elif r < 0.72:
                a = [expr(roots) for _ in range(rnd.choice([0, 1]))]
                prog.append(dict(k='write_file', names=[], src=expr(roots), nfmt=len(a), args=a,
                                 kw=rnd.choice([['filename', 'contents']] * 5 + [['filename'], ['contents'], []])))
            elif r < 0.97 and depth < 3:
                nm2 = rnd.choice([n_ for n_ in fresh if n_ != nm] or names)
                kw = rnd.choice([['collection', 'variable', 'body']] * 4 + [['map', 'key', 'value', 'body'], ['map', 'key', 'body'],
                                 ['map', 'value', 'body'], ['map', 'body'], ['collection', 'body'], ['map', 'key', 'variable', 'body'],
                                 ['collection', 'variable']])
                src = expr(roots)
                if rnd.random() < 0.7:       # a source of the right kind most of the time
                    src = [dict(name='$resp', sel='none'), dict(name='by_name' if 'map' in kw else rnd.choice(['items', 'tags']), sel='none')]
                prog.append(dict(k='loop', names=[nm, nm2], src=src, nfmt=0, args=[], kw=kw))
                depth += 1; scopes.append([nm, nm2])
            else:
                prog.append(dict(k=rnd.choice(['unknown', 'multi', 'empty']), names=[], src=[], nfmt=0, args=[], kw=[]))
        prog += [END] * depth
        out.append(dict(req=req, prog=prog, obs=None, verdict=None))
    return out


# ---------------------------------------------------------------------------------------------------------------------
def sample_error_classes():
    from gapic.samplegen_utils import types
    return {n for n, v in vars(types).items() if isinstance(v, type) and issubclass(v, types.SampleError)}


SAMPLE_ERRORS = set()


class Findings:
    """violations, one per input class (key): [count, first summary, first replay]"""

    def __init__(self):
        self.found = {}

    def report(self, key, summary, replay):
        if key in self.found:
            self.found[key][0] += 1
        else:
            self.found[key] = [1, summary, replay]


def req_key(req):
    return tuple(json.dumps(e, sort_keys=True) for e in req)


def compare(c, res, tables, fnd, pending):
    """spec -> code, step by step.  Returns True iff every step agrees with the prediction.  A divergence in the request
    block is put on `pending` (see attribute_requests)."""
    ev = res['events']
    pred = [dict(o, k='request' if i == 0 else 'stmt') for i, o in enumerate(c['obs'])]
    if c['verdict'] == 'accepted':
        pred.append(dict(verdict='accepted', defined=c['obs'][-1]['defined'], k='finish'))
    for i, (p, e) in enumerate(zip(pred, ev)):
        pd = sorted(p['defined'], key=lambda d: d['n'])
        if p['verdict'] == e['verdict'] and (p['verdict'] not in ('running', 'accepted') or pd == e['defined']):
            continue
        about = p['verdict']; crash = False
        if p['verdict'] != e['verdict'] and e['verdict'] not in SAMPLE_ERRORS | {'running', 'accepted'}:
            crash = True
            tail = f"raised={e['verdict']}"           # no verdict of the validator at all
            what = f"predicted {p['verdict']}, but {e['verdict']} was raised (no samplegen error)"
        elif p['verdict'] != e['verdict']:
            tail = f"predicted={outcome(p['verdict'])}:observed={outcome(e['verdict'])}"
            what = f"predicted {p['verdict']}, observed {e['verdict']}"
        else:
            tail = 'defined-differs'
            what = f"variables in scope: predicted {pd}, observed {e['defined']}"
        replay = dict(case=c, events=ev, config=res.get('config'))
        if i == 0:
            pending.append((c['req'], tail, f'step 0 of {case_text(c)}: {what}', replay))
        else:
            cls = 'finish' if p['k'] == 'finish' else tok_class(c['prog'][i - 1], tables, about=about, crash=crash)
            fnd.report(f'{cls}:{tail}', f'step {i} of {case_text(c)}: {what}', replay)
        return False
    if len(pred) != len(ev):
        fnd.report('steps:count-differs', f'{case_text(c)}: predicted {len(pred)} steps, observed {len(ev)}',
                   dict(case=c, events=ev, config=res.get('config')))
        return False
    return True


def attribute_requests(pending, known, tables, fnd):
    """A request block that diverges is reported under the smallest sub-list of its entries that diverges as well
    (the enumerated scopes hold every sub-list), so that one defect has one key and not one per unrelated entry."""
    for req, tail, summary, replay in pending:
        known.setdefault(req_key(req), (req, tail))

    def minimal(req):
        for j in range(len(req)):
            sub = req[:j] + req[j + 1:]
            if req_key(sub) in known:
                return minimal(sub)
        return req

    for req, tail, summary, replay in sorted(pending, key=lambda x: len(x[0])):
        m, mtail = known[req_key(minimal(req))]
        fnd.report(f'{req_class(m, tables)}:{mtail}', summary, replay)


ACTION_OF = dict(define='Define', print='Format', comment='Format', write_file='WriteFile', loop='Loop', end='EndLoop',
                 unknown='Invalid', multi='Invalid', empty='Invalid')


def validate(chk, label, traces, owners, tables, fnd):
    """code -> spec: batches through SampleCfgTrace; total verdicts (validate_all re-runs after a rejection)."""
    steps = chk.extra.setdefault('recorded_steps_by_action', {})
    for t in traces:
        for e in t['events']:
            a = 'ValidateRequest' if e['ev'] == 'request' else 'Finish' if e['ev'] == 'finish' else ACTION_OF[e['tok']['k']]
            a += ':accept' if e['verdict'] in ('running', 'accepted') else ':reject'
            steps[a] = steps.get(a, 0) + 1
    pos = 0
    nruns = nacc = nrej = 0
    t0 = time.time()
    while pos < len(traces):
        chunk = traces[pos:pos + 60000]
        accepted, rejected, runs = tlc.validate_all('SampleCfgTrace', 'SampleCfgTrace.cfg', chunk, max_rejects=25, timeout=3000)
        for r3 in runs:
            chk.states += r3.distinct; chk.transitions += r3.generated
        nruns += len(runs); nacc += accepted; nrej += len(rejected)
        for idx, t, info in rejected:
            c = owners[pos + idx]
            ne = info.get('next_event')
            if isinstance(ne, dict):
                cls = (req_class(ne['req'], tables) if ne['ev'] == 'request' else 'finish' if ne['ev'] == 'finish'
                       else tok_class(ne['tok'], tables))
                key = f"trace:{cls}:observed={outcome(ne['verdict'])}"
            else:
                key = 'trace:end-of-trace'
            fnd.report(key, f'SampleCfgTrace rejected the recorded behaviour of {case_text(c)}: {info}', dict(case=c, trace=t, info=info))
        # validate_all stops after max_rejects rejections: go on behind the last one
        pos += (rejected[-1][0] + 1) if len(rejected) >= 25 else len(chunk)
    chk.traces += nacc
    chk.tlc_runs.append(dict(label=f'SampleCfgTrace batch {label}', runs=nruns, accepted=nacc, rejected=nrej, wall_s=round(time.time() - t0, 1)))


def self_test_traces(chk, traces):
    """non-vacuity of the trace specification: a recorded behaviour with one field changed must be rejected."""
    import copy
    picked = {}
    for t in traces:
        ev = t['events']
        loop = [i for i, e in enumerate(ev) if e['ev'] == 'stmt' and e['tok']['k'] == 'loop' and e['verdict'] == 'running']
        if 'shape' not in picked and loop and ev[-1]['verdict'] == 'accepted':
            bad = copy.deepcopy(t)
            d = [x for x in bad['events'][loop[0]]['defined'] if x['n'] == bad['events'][loop[0]]['tok']['names'][0]]
            if d:
                d[0]['s'] = 'rep:' + d[0]['s']           # the iteration variable reported as a collection
                picked['shape'] = bad
        if 'verdict' not in picked and ev[-1]['verdict'] == 'UndefinedVariableReference':
            bad = copy.deepcopy(t)
            bad['events'][-1]['verdict'] = 'BadAttributeLookup'
            picked['verdict'] = bad
        if 'scope' not in picked and any(e['tok']['k'] == 'end' and e['ev'] == 'stmt' for e in ev) and ev[-1]['verdict'] == 'accepted':
            bad = copy.deepcopy(t)
            i = [j for j, e in enumerate(ev) if e['ev'] == 'stmt' and e['tok']['k'] == 'end'][0]
            bad['events'][i]['defined'] = bad['events'][i - 1]['defined']      # the loop variable still in scope after the loop
            if bad['events'][i]['defined'] != ev[i]['defined']:
                picked['scope'] = bad
        if len(picked) == 3:
            break
    if len(picked) < 3:
        raise core.MachineryError(f'no trace to corrupt for {set(("shape", "verdict", "scope")) - set(picked)}')
    for what, bad in sorted(picked.items()):
        n, r = tlc.validate_traces('SampleCfgTrace', 'SampleCfgTrace.cfg', [bad])
        if n != 0:
            raise core.MachineryError(f'SampleCfgTrace accepted a corrupted trace ({what}): {bad}')
    chk.extra['corrupted_traces_rejected'] = sorted(picked)


def main(chk, args):
    quick = chk.tier == 'quick'
    rnd = random.Random(chk.seed)
    procs = 4 if quick else 8
    # 1. the specification satisfies its rules within the bounds (no state but a final one is stuck); it is live on the tiny
    #    scope; every mutant is rejected by an invariant
    r = tlc.run('SampleCfg', 'SampleCfg.small.cfg' if quick else 'SampleCfg.full.cfg', workers=8, deadlock=True, timeout=1500)
    chk.add_tlc(r, 'SampleCfg model check')
    r = tlc.run('SampleCfg', 'SampleCfg.live.cfg', workers=1, deadlock=True, timeout=900, coverage=True)
    chk.add_tlc(r, 'SampleCfg liveness (tiny scope)')
    cov = {a: r.coverage.get(a, 0) for a in ('ValidateRequest', 'TakeDefine', 'TakeFormat', 'TakeWriteFile', 'TakeInvalid', 'TakeLoop',
                                             'EndLoop', 'Finish')}
    if not all(cov.values()):
        raise core.MachineryError(f'an action of SampleCfg is never taken in the tiny scope: {cov}')
    chk.extra['states_generated_by_action_tiny_scope'] = cov
    mcfg = open(os.path.join(tlc.SPEC, 'SampleCfg.mutant.cfg')).read()
    rejected_by = {}
    t0 = time.time()
    for m in MUTANTS:
        rm = tlc.run('SampleCfg', mcfg.replace('Mutant = "none"', f'Mutant = "{m}"'), workers=2, deadlock=True, timeout=600)
        if rm.ok or not (rm.violated or '').startswith('Inv_'):
            raise core.MachineryError(f'SampleCfg mutant {m} not rejected by an invariant: {rm.summary()}')
        rejected_by[m] = rm.violated
    chk.extra['mutants_rejected_by'] = rejected_by
    chk.extra['mutants_wall_s'] = round(time.time() - t0, 1)
    # 2. spec -> code cases, one emission scope at a time
    scopes = ['small', 'nest', 'req'] if quick else ['full', 'nest', 'len3', 'req3', 'names', 'exprs', 'exprs2', 'forms']
    emits = [(f'SampleCfg.emit.{n}.cfg', {}) for n in scopes]
    # the simulated sample: TLC -simulate with the seed of the run (several batches in the thorough tier, to bound memory)
    for i in range(1 if quick else 4):
        emits.append(('SampleCfg.emit.sim.cfg', dict(simulate=2000 if quick else 8000, depth=16, seed=chk.seed * 10 + i)))
    SAMPLE_ERRORS.update(sample_error_classes())
    sample_errors = SAMPLE_ERRORS
    fnd = Findings()
    seen = set()
    diverging_requests = {}
    tables = None
    chk.extra['cases_by_cfg'] = {}; chk.extra['predicted_verdicts'] = {}
    for cfg, kw in emits:
        cs, r2 = tlc.emit_cases('SampleCfg', cfg, deadlock=False, timeout=1500, **kw)
        chk.add_tlc(r2, f'SampleCfg case emission {cfg}')
        if not cs or not r2.tagged.get('TABLES'):
            raise core.MachineryError(f'no cases emitted by {cfg}')
        tables = json.loads(json.loads(r2.tagged['TABLES'][0]))
        del r2
        cases = []
        for c in cs:
            k = hashlib.blake2b(json.dumps([c['req'], c['prog']], sort_keys=True).encode(), digest_size=12).digest()
            if k not in seen:
                seen.add(k); cases.append(c)
        del cs
        chk.extra['cases_by_cfg'][cfg] = chk.extra['cases_by_cfg'].get(cfg, 0) + len(cases)
        t0 = time.time()
        results = run_all(cases, tables, procs)
        chk.extra.setdefault('validator_runs_wall_s', []).append([cfg, round(time.time() - t0, 1)])
        traces, owners, pending = [], [], []
        for c, res in zip(cases, results):
            ev = res['events']
            if outcome(ev[-1]['verdict']) != res['plain'] or ev[-1]['verdict'] == 'running':
                raise core.MachineryError(f"the observed run ({ev[-1]['verdict']}) and the plain run ({res['plain']}) differ: {case_text(c)}")
            chk.case(case_text(c), nontrivial=len(c['prog']) > 0 or len(c['req']) > 0)
            chk.extra['predicted_verdicts'][c['verdict']] = chk.extra['predicted_verdicts'].get(c['verdict'], 0) + 1
            if compare(c, res, tables, fnd, pending):        # a diverging behaviour is reported once, by the comparison
                traces.append(dict(events=ev)); owners.append(c)
        attribute_requests(pending, diverging_requests, tables, fnd)
        if len(chk.samples) < 3 and cases:
            i = len(cases) // 2
            chk.sample(dict(case=case_text(cases[i]), predicted=cases[i]['verdict'], config=results[i].get('config'),
                            steps=[(e['tok']['k'] if e['ev'] == 'stmt' else e['ev'], e['verdict']) for e in results[i]['events']]))
        del results
        if quick and len(traces) > 10000:
            idx = sorted(rnd.sample(range(len(traces)), 10000))
            traces = [traces[i] for i in idx]; owners = [owners[i] for i in idx]
        validate(chk, cfg, traces, owners, tables, fnd)
        if 'corrupted_traces_rejected' not in chk.extra:
            self_test_traces(chk, traces)
        del traces, owners, cases
    chk.exhaustive = True       # every configuration of the enumerated scopes is executed; the simulated and random ones come on top
    # 3. beyond the enumerated vocabulary: seeded random configurations judged by the trace specification only
    extra = random_cases(rnd, 200 if quick else 2500, tables)
    results = run_all(extra, tables, procs)
    traces, owners = [], []
    for c, res in zip(extra, results):
        ev = res['events']
        if outcome(ev[-1]['verdict']) != res['plain'] or ev[-1]['verdict'] == 'running':
            raise core.MachineryError(f"the observed run ({ev[-1]['verdict']}) and the plain run ({res['plain']}) differ: {case_text(c)}")
        chk.case('random:' + case_text(c), nontrivial=True)
        last = ev[-1]
        if last['verdict'] not in sample_errors and last['verdict'] != 'accepted':
            # no action of the specification ends in a verdict outside ErrorClasses (Inv_Verdict): rejected without asking TLC
            cls = req_class(last['req'], tables) if last['ev'] == 'request' else tok_class(last['tok'], tables)
            fnd.report(f"trace:{cls}:raised={last['verdict']}", f"{case_text(c)}: raised {last['verdict']}, which is no samplegen error",
                       dict(case=c, events=ev, config=res.get('config')))
            continue
        traces.append(dict(events=ev)); owners.append(c)
    validate(chk, 'random', traces, owners, tables, fnd)
    chk.extra['random_beyond_vocabulary'] = len(extra)
    for key in sorted(fnd.found):
        n, summary, replay = fnd.found[key]
        chk.violation(key, f'{n} case(s), first: {summary}', replay)
    chk.rule = ('cases = sample configurations enumerated by TLC (SampleCfg.emit.*.cfg: request entries x statement lists of define / '
                'print / comment / write_file / loop (collection, map with key / value / both / neither, malformed keyword sets) / '
                'unknown keyword, loop bodies to depth 2, up to 3 statements) plus a seeded -simulate sample over the wide vocabulary '
                '(up to 5 statements) plus seeded random configurations (up to 7 statements, depth 3) judged by SampleCfgTrace only; '
                'non-trivial = at least one request entry or statement; distinct by (request, statement list)')
    chk.assumptions += ['the API (Resp / Item / Leaf / GetReq, one map with message values, one with scalar values, a oneof, an enum, '
                        'a resource with two patterns) is built from the tables of the specification',
                        'statements of a block are handed to the real validate_response one call per statement (a subclass in the '
                        'harness); the same configuration is also validated by the unmodified class in two calls and the verdicts must agree',
                        'after a rejection var_defs_ is not compared',
                        'named deviations of the specification: D1 (an indexed / keyed terminal keeps the shape of the collection), '
                        'D2 (a map is a collection of entries)']


main.level = 'model_checking'
