"""C15 - gapic_metadata.json and the fix-up script describe the generated surface exactly.

spec      : spec/Pipeline.tla operators Metadata (service -> client kind -> client class -> rpc -> method),
            Fixup (rpc key -> required fields first, then declaration order), invariants Inv_MetadataOnce,
            Inv_ClientNamesDistinct; request dimension `extra` adds a keyword-named RPC, internal methods
            (selective generation with generate_omitted_as_internal) and a reserved-word request field.
spec->code: the emitted gapic_metadata.json and METHOD_TO_PARAMS (read from the script's AST) are compared with
            the prediction, and every (client class, method) named by the JSON must exist in the imported package.
code->spec: hook traces of the same runs are validated by PipelineTrace.tla (shared with C11).
"""
import json
import random

from .. import core, tlc, pipeline
from . import c11


def metadata_projection(doc):
    """gapic_metadata.json -> the shape of Pipeline.Metadata (pure restructuring)."""
    out = dict(protoPackage=doc.get('protoPackage', '').split('.'), libraryPackage=doc.get('libraryPackage', '').split('.'),
               services=[])
    for sname, s in sorted(doc.get('services', {}).items()):
        clients = []
        for kind, c in sorted(s.get('clients', {}).items()):
            rpcs = []
            for rpc, m in sorted(c.get('rpcs', {}).items()):
                rpcs.append(dict(rpc=rpc, methods=m.get('methods', [])))
            clients.append(dict(kind=kind, client=c.get('libraryClient'), rpcs=rpcs))
        out['services'].append(dict(service=sname, clients=clients))
    return out


def compare(case, obs):
    exp = case['expect']; diffs = []
    if obs.get('error'):
        return [f"generation failed: {obs['error']}"]
    em = exp['metadata']
    docs = list(obs['jsons'].values())
    if exp['metadataJson']:
        if len(docs) != 1:
            return [f'expected exactly one gapic_metadata.json, got {len(docs)}']
        got = metadata_projection(docs[0])
        if got['protoPackage'] != em['protoPackage']:
            diffs.append(f"protoPackage {got['protoPackage']} != {em['protoPackage']}")
        if got['libraryPackage'] != em['libraryPackage']:
            diffs.append(f"libraryPackage {got['libraryPackage']} != {em['libraryPackage']}")
        es = {s['service']: s for s in em['services']}
        gs = {s['service']: s for s in got['services']}
        if sorted(es) != sorted(gs):
            diffs.append(f'services {sorted(gs)} != predicted {sorted(es)}')
        for name in set(es) & set(gs):
            ec = {c['kind']: c for c in es[name]['clients']}
            gc = {c['kind']: c for c in gs[name]['clients']}
            if sorted(ec) != sorted(gc):
                diffs.append(f'{name}: client kinds {sorted(gc)} != predicted {sorted(ec)}')
            for k in set(ec) & set(gc):
                if ec[k]['client'] != gc[k]['client']:
                    diffs.append(f"{name}/{k}: client {gc[k]['client']} != predicted {ec[k]['client']}")
                er = sorted((r['rpc'], [r['method']]) for r in ec[k]['rpcs'])
                gr = sorted((r['rpc'], r['methods']) for r in gc[k]['rpcs'])
                if er != gr:
                    diffs.append(f'{name}/{k}: rpcs {gr} != predicted {er}')
        # the names must exist in the imported package
        imp = obs.get('import')
        if imp is None:
            pass
        elif not imp.get('ok'):
            diffs.append(f"package does not import: {imp.get('errors')}")
        else:
            for s in got['services']:
                for c in s['clients']:
                    info = imp['clients'].get(c['client'])
                    if info is None:
                        diffs.append(f"client class {c['client']} named by gapic_metadata.json does not exist")
                        continue
                    for r in c['rpcs']:
                        for m in r['methods']:
                            if m not in info['methods']:
                                diffs.append(f"{c['client']}.{m} named by gapic_metadata.json does not exist")
    elif docs:
        diffs.append('gapic_metadata.json emitted without the metadata option')
    # fix-up table
    fx = obs.get('fixup')
    efx = {e['key']: e['params'] for e in exp['fixup']}
    if fx is None:
        diffs.append('no fix-up script emitted')
    elif fx != efx:
        diffs.append(f'fix-up table {fx} != predicted {efx}')
    return diffs


def main(chk, args):
    rnd = random.Random(chk.seed)
    cases = pipeline.get_cases(chk, chk.tier, chk.seed, sim_quick=120, extra_scopes=('ads', 'names'))
    # C15 is about metadata: make sure the option is on for the shape cases (the option alphabet still covers off)
    if chk.tier == 'thorough' and len(cases) > 2500:
        special = [c for c in cases if c['req']['extra'] != 'none' and c['expect']['metadataJson']]
        cases = special[:800] + rnd.sample(cases, 1700)
    if chk.tier == 'quick':
        # C15 is about the metadata file and the fix-up table: every case with the metadata option on or a special `extra`
        # is a candidate, of the others (metadata off: only the fix-up table is compared) a seeded sixth; of the Ads scope (no
        # metadata file there) the reserved-word cases and a seeded tenth
        def keep(c):
            ads = 'python-gapic-templates=ads-templates' in c['req']['items']
            if ads:
                return c['req']['extra'] != 'none' or rnd.random() < 0.1
            return bool(c['expect']['metadataJson']) or c['req']['extra'] != 'none' or rnd.random() < 0.16
        cases = [c for c in cases if keep(c)]
        # stratified: at most three requests per (template set, extra, option list, number of services, method kinds, versioned?)
        groups = {}
        for c in cases:
            r = c['req']
            groups.setdefault((('python-gapic-templates=ads-templates' in r['items']), r['extra'], tuple(r['items']), len(r['svcs']),
                               tuple(r['kinds']), bool(r['pkg'][2])), []).append(c)
        cases = [c for g in groups.values() for c in (g if len(g) <= 3 else rnd.sample(g, 3))]
        # importing is the expensive step: do it for every special case and a seeded third of the others
        for c in cases:
            c['_import'] = c['req']['extra'] != 'none' or rnd.random() < 0.3
    obs = pipeline.run_cases(cases, want_import=True)
    traces = []
    for c, o in zip(cases, obs):
        k = c11.key_of(c['req'])
        chk.case(k, nontrivial=bool(c['expect']['metadataJson']) or c['req']['extra'] != 'none')
        diffs = compare(c, o)
        if diffs:
            chk.violation(k, '; '.join(diffs[:6]), dict(case=c, obs={x: o.get(x) for x in ('error', 'jsons', 'fixup', 'import')}))
        if not o.get('error'):
            traces.append((k, o['trace']))
    accepted, rejected, runs = tlc.validate_all('PipelineTrace', 'PipelineTrace.cfg', [t for _, t in traces], timeout=1500)
    for r in runs:
        chk.states += r.distinct; chk.transitions += r.generated
    chk.tlc_runs.append(dict(label='PipelineTrace batch', runs=len(runs), accepted=accepted, rejected=len(rejected)))
    chk.traces += accepted
    for idx, t, info in rejected:
        chk.violation('trace:' + traces[idx][0], f'PipelineTrace rejected the recorded run: {info}', dict(trace=t, info=info))
    chk.rule = ('cases = final states of Pipeline.tla (see C11) incl. the `extra` dimension {none, keyword RPC, internal methods, '
                'reserved-word field} x transports; non-trivial = metadata option on or extra != none; distinct by request')
    for c, o in list(zip(cases, obs))[:2]:
        chk.sample(dict(req=c['req'], predicted_metadata=c['expect']['metadata'], fixup=c['expect']['fixup']))
    chk.assumptions += ['fix-up table is read from the emitted script by AST literal evaluation',
                        'existence of classes/methods is checked by importing the emitted package in a fresh interpreter']


main.level = 'model_checking'
