"""C07 - paginated methods yield every item of every page exactly once, in order.

spec      : spec/Pager.tla (runtime protocol) ; spec/Schema.tla IsPaged/ItemField (classification, see c07 part a)
spec->code: TLC enumerates every server history (Pager.emit.*.cfg) with the predicted yielded sequence,
            request tokens and exposed attribute; each is replayed through the emitted sync and asyncio
            pagers for three item kinds and compared.
code->spec: the recorded event traces (invoke/first/yield/fetch/stop with the logged request, call options,
            item and exposed attribute) are validated by spec/PagerTrace.tla in batches; every invariant of
            Pager is evaluated after every recorded step.
"""
import json
import os
import random
from concurrent.futures import ProcessPoolExecutor

from .. import core, gen, tlc, absapi

PKG = 'acme.pg.v1'
MODULE = 'acme.pg_v1'
KINDS = {
    'msg': dict(name='ListItems', snake='list_items', req=f'{PKG}.ListItemsRequest', resp=f'{PKG}.ListItemsResponse'),
    'scalar': dict(name='ListNames', snake='list_names', req=f'{PKG}.ListNamesRequest', resp=f'{PKG}.ListNamesResponse'),
    'map': dict(name='ListBy', snake='list_by', req=f'{PKG}.ListByRequest', resp=f'{PKG}.ListByResponse'),
}


def carrier_api():
    reqf = [dict(name='parent'), dict(name='filter'), dict(name='page_size', type='int32'),
            dict(name='page_token'), dict(name='show_deleted', type='bool'),
            dict(name='view', type='enum:View'), dict(name='labels', type='map:string,string')]
    msgs = [dict(name='Item', fields=[dict(name='id', type='int32'), dict(name='name')])]
    for k, (field, typ, rep) in dict(msg=('items', 'Item', True), scalar=('names', 'string', True),
                                     map=('by', 'map:string,Item', False)).items():
        m = KINDS[k]
        msgs.append(dict(name=m['name'] + 'Request', fields=reqf))
        msgs.append(dict(name=m['name'] + 'Response', fields=[
            dict(name='total', type='int32'), dict(name=field, type=typ, repeated=rep),
            dict(name='next_page_token'), dict(name='unreachable', repeated=True)]))
    methods = [dict(name=m['name'], **{'in': m['name'] + 'Request', 'out': m['name'] + 'Response'},
                    http=[dict(verb='get', uri='/v1/{parent=shelves/*}/' + m['snake'])], sigs=['parent'])
               for m in KINDS.values()]
    return dict(files=[dict(name='acme/pg/v1/pg.proto', package=PKG,
                            enums=[dict(name='View', values=['VIEW_UNSPECIFIED', 'BASIC', 'FULL'])],
                            messages=msgs, services=[dict(name='Pg', methods=methods)])])


BASES = [
    dict(parent='shelves/1', filter='a=b', page_size=7, show_deleted=True, view='FULL', labels={'k': 'v'}),
    dict(parent='shelves/2'),
]


def _drive(args):
    root, payload = args
    return gen.run_driver('harness.drivers.pager', root, payload, timeout=900)


def predicted_ok(case, tr):
    """spec -> code comparison: observables predicted by the spec vs projection of the trace."""
    ev = tr['events']
    yielded = [e['item'] for e in ev if e['ev'] == 'yield']
    tokens = [e['token'] for e in ev if e['ev'] in ('first', 'fetch')]
    stop = [e for e in ev if e['ev'] == 'stop']
    diffs = []
    if tr['ordered']:
        if yielded != case['yielded']:
            diffs.append(f"yielded {yielded} != predicted {case['yielded']}")
    elif sorted(yielded) != sorted(case['yielded']):
        diffs.append(f"yielded(set) {sorted(yielded)} != predicted {sorted(case['yielded'])}")
    if tokens != case['tokens']:
        diffs.append(f"request tokens {tokens} != predicted {case['tokens']}")
    if not stop or stop[-1]['attr'] != case['exposed']:
        diffs.append(f"exposed attr at end {stop[-1]['attr'] if stop else None} != predicted {case['exposed']}")
    return diffs


def main(chk, args):
    quick = chk.tier == 'quick'
    rnd = random.Random(chk.seed)
    # 1. the specification satisfies the property (and is live) within the bounds
    r = tlc.run('Pager', 'Pager.small.cfg' if quick else 'Pager.full.cfg', deadlock=False, timeout=1500)
    chk.add_tlc(r, 'Pager model check')
    # 2. spec -> code cases
    cases, r2 = tlc.emit_cases('Pager', 'Pager.emit.small.cfg' if quick else 'Pager.emit.full.cfg', deadlock=False,
                               timeout=1500)
    chk.add_tlc(r2, 'Pager case emission')
    if not cases:
        raise core.MachineryError('no cases emitted')
    chk.exhaustive = True
    if quick and len(cases) > 400:
        # fixed corners + a seeded sample
        corners = [c for c in cases if len(c['history']) == 4 and all(p['n'] == 0 for p in c['history'][:3])][:20]
        cases = corners + rnd.sample(cases, 380)
        chk.exhaustive = False
    # beyond the model-checked bound: seeded random histories (up to 9 pages x 9 items) judged by PagerTrace only
    extra = []
    if not quick:
        for j in range(400):
            k = rnd.randint(1, 9)
            hist = [dict(n=rnd.choice([0, 0, 1, 2, 3, 5, 9]), more=(rnd.random() < 0.85)) for _ in range(k)]
            hist[-1]['more'] = False
            extra.append(hist)
    api = carrier_api()
    with gen.scratch() as work:
        req, res = gen.generate_api(api, dict(transport=['grpc'], snippets=False), work)
        root = gen.materialise(res, os.path.join(work, 'out'))
        jobs = []
        nshards = 12
        allc = []
        for i, c in enumerate(cases):
            for kind in KINDS:
                b = (i + len(kind)) % 2
                # token texts distinct per page or (cursor style) the same on every page; the caller's retry argument absent, an
                # explicit None or a Retry object
                allc.append(dict(id=f'{i}:{kind}', idx=i, kind=kind, pages=c['history'], base=BASES[b], reuse=(i % 3 == 0),
                                 md=[['x-verif-a', 'v1']] if b == 0 else [], timeout=30 if b == 0 else None,
                                 tokmode='same' if i % 4 == 1 else 'distinct', retry=('default', 'none', 'default', 'object')[(i + len(kind)) % 4]))
        for j, hist in enumerate(extra):
            for kind in KINDS:
                allc.append(dict(id=f'x{j}:{kind}', idx=-1, kind=kind, pages=hist, base=BASES[j % 2], md=[['x-verif-a', 'v1']] if j % 2 == 0 else [],
                                 timeout=30 if j % 2 == 0 else None))
        for s in range(nshards):
            shard = allc[s::nshards]
            if shard:
                jobs.append((root, dict(api=api, module=MODULE, service='Pg', service_snake='pg', pkg=PKG,
                                        methods=KINDS, cases=shard, modes=['sync', 'async'])))
        # the alternative (Ads) template set has its own pager template (sync client only): a share of the histories, each with
        # and without explicit call options, goes through it as well
        awork = os.path.join(work, 'ads-opts')
        os.makedirs(awork, exist_ok=True)
        areq, ares = gen.generate_api(api, dict(transport=['grpc'], snippets=False, templates='ads-templates', old_naming=True), awork)
        aroot = gen.materialise(ares, os.path.join(work, 'out-ads'))
        share = [c for c in allc if c['idx'] >= 0][::(7 if quick else 2)]
        ashards = 4
        for s_ in range(ashards):
            shard = [dict(c, id='ads:' + c['id']) for c in share[s_::ashards]]
            if shard:
                jobs.append((aroot, dict(api=api, module=PKG, service='Pg', service_snake='pg', pkg=PKG,
                                         methods=KINDS, cases=shard, modes=['sync'])))
        traces = []
        with ProcessPoolExecutor(min(nshards, 14)) as ex:
            for ok, out, err in ex.map(_drive, jobs):
                if not ok:
                    raise core.MachineryError('pager driver failed:\n' + err)
                traces.extend(out['traces'])
        chk.extra['ads_histories'] = len(share)
    # 3. spec -> code comparison
    for tr in traces:
        if tr['id'].startswith('x'):        # random history beyond the bound: no TLC prediction, judged by the trace spec below
            chk.case('random:' + tr['id'] + '/' + tr['mode'], nontrivial=True)
            if tr.get('error'):
                chk.violation('random:' + tr['kind'] + '/' + tr['mode'], f"raised {tr['error']}", dict(trace=tr))
            continue
        ads = tr['id'].startswith('ads:')
        c = cases[int(tr['id'][4 if ads else 0:].split(':')[0])]
        again = '/again' if tr['id'].endswith(':again') else ''
        key = ('ads:' if ads else '') + f"{tr['kind']}/{tr['mode']}{again}/" + ''.join(f"{p['n']}{'+' if p['more'] else '.'}" for p in tr['history'])
        chk.case(key, nontrivial=len(c['tokens']) > 1 or len(c['yielded']) > 0)
        diffs = ([f"raised {tr['error']}"] if tr.get('error') else []) + predicted_ok(c, tr)
        if diffs:
            chk.violation(f'replay:{key}', '; '.join(diffs), dict(case=c, trace=tr))
    # 4. code -> spec: batched trace validation
    batch = [dict(history=t['history'], ordered=t['ordered'], events=t['events']) for t in traces]
    accepted, rejected, runs = tlc.validate_all('PagerTrace', 'PagerTrace.cfg', batch, timeout=1500)
    for r3 in runs:
        chk.states += r3.distinct; chk.transitions += r3.generated
    chk.tlc_runs.append(dict(label='PagerTrace batch', runs=len(runs), accepted=accepted, rejected=len(rejected)))
    chk.traces += accepted
    for idx, t, info in rejected:
        tr = traces[idx]
        key = ('ads:' if tr['id'].startswith('ads:') else '') + f"{tr['kind']}/{tr['mode']}/" + ''.join(f"{p['n']}{'+' if p['more'] else '.'}" for p in tr['history'])
        chk.violation(f'trace:{key}', f'PagerTrace rejected the recorded behaviour: {info}', dict(trace=tr, info=info))
    chk.rule = ('cases = server page histories enumerated by TLC (Pager.emit.*.cfg: pages 1..N, sizes 0..M, token flags; '
                'history may continue after an empty token) x item kind {msg, scalar, map} x {sync, asyncio}; '
                'non-trivial = more than one fetch or at least one item; distinct by (kind, mode, history)')
    for t in traces[:2] + traces[-2:]:
        chk.sample(dict(id=t['id'], mode=t['mode'], history=t['history'], events=t['events'][:12]))
    chk.assumptions += ['loopback grpc server, requests decoded with input descriptors',
                        'map items are unordered inside a page (protobuf map iteration order is unspecified)',
                        'timeouts observed at the channel are rounded to whole seconds']
    chk.extra['histories'] = len(cases)
    from . import c07_classify
    c07_classify.run(chk, rnd)


main.level = 'model_checking'
