"""EXT_ENDPOINT (specification growth, DESIGN 5.1; not a listed property, not in MANIFEST.checks):
endpoint / universe-domain / client-certificate selection of the emitted client constructors.

spec      : spec/Endpoint.tla (ReadEnv -> PickCert -> PickUniverse -> PickEndpoint, 7 invariants, liveness, 3 mutants)
spec->code: all 4 800 input combinations executed on the emitted sync and asyncio client constructors with a recording
            transport factory; endpoint / universe / cert source / error type compared.
"""
import os
from concurrent.futures import ProcessPoolExecutor

from .. import core, gen, tlc
from . import c07


def _drive(args):
    root, payload = args
    return gen.run_driver('harness.drivers.endpoint', root, payload, timeout=900)


def main(chk, args):
    r = tlc.run('Endpoint', 'Endpoint.cfg', deadlock=False)
    chk.add_tlc(r, 'Endpoint model check')
    for m in ('cert_without_flag', 'env_beats_option', 'mtls_any_universe'):
        rm = tlc.run('Endpoint', open(os.path.join(tlc.SPEC, 'Endpoint.cfg')).read().replace('"none"', f'"{m}"'), deadlock=False)
        if rm.ok:
            raise core.MachineryError(f'Endpoint mutant {m} not rejected')
    cases, r2 = tlc.emit_cases('Endpoint', 'Endpoint.emit.cfg', deadlock=False)
    chk.add_tlc(r2, 'Endpoint case emission')
    chk.exhaustive = True
    api = c07.carrier_api()
    # a *.googleapis.com host, so that the mTLS endpoint and the universe template differ from the plain host
    api['files'][0]['services'][0]['host'] = 'pg.googleapis.com'
    with gen.scratch() as work:
        req, res = gen.generate_api(api, dict(transport=['grpc', 'rest'], snippets=False), work)
        root = gen.materialise(res, os.path.join(work, 'out'))
        idx = list(range(len(cases)))
        jobs = [(root, dict(module=c07.MODULE, service='Pg', service_snake='pg', cases=[dict(i=i, input=cases[i]['input']) for i in idx[s::14]])) for s in range(14)]
        obs = {}
        with ProcessPoolExecutor(14) as ex:
            for ok, out, err in ex.map(_drive, jobs):
                if not ok:
                    raise core.MachineryError('endpoint driver failed:\n' + err)
                for o in out['obs']:
                    obs[o['i']] = o['obs']
    for i, c in enumerate(cases):
        inp = c['input']; exp = c['expect']
        k = ','.join(f'{a}={inp[a]}' for a in sorted(inp))
        for kind, o in obs[i].items():
            chk.case(f'{kind}:{k}', nontrivial=True)
            diffs = []
            if o['error'] != exp['error']:
                diffs.append(f"error {o['error']} != predicted {exp['error']}")
            elif exp['error'] == 'none':
                for f in (('endpoint', 'universe') if inp['transport'] == 'instance' else ('endpoint', 'universe', 'cert')):
                    if o[f] != exp[f]:
                        diffs.append(f'{f} {o[f]!r} != predicted {exp[f]!r}')
                if not o['host']:
                    diffs.append('transport host differs from client.api_endpoint')
            if diffs:
                chk.violation(f'{kind}:{k}', '; '.join(diffs), dict(case=c, obs=o))
    chk.rule = 'all combinations of 3 environment variables x 3 client options x default-cert availability (4 800), sync and asyncio constructors'
    chk.sample(dict(input=cases[0]['input'], expect=cases[0]['expect']))
    chk.assumptions += ['google.auth.transport.mtls default-cert functions are stubbed per case', 'a recording transport factory replaces the real transport']


main.level = 'model_checking'
