"""C01, second input family: feature combinations of spec/Features.tla (field kinds, method kinds, http, resources,
surface annotations, option sets)."""
from .. import featrun


def compare(case, obs):
    diffs = []
    if obs.get('error'):
        return [f"generation failed: {obs['error']}"]
    if obs['syntax_errors']:
        diffs.append(f"syntax/JSON errors: {obs['syntax_errors'][:3]}")
    # "imports ... against the DECLARED runtime dependencies": every module the package imports unconditionally is provided
    # by a distribution listed in setup.py (the harness' own dependency package other.dep.v1 has no distribution)
    und = featrun.undeclared_imports(obs.get('setup'), ('acme', 'other'))
    if und:
        diffs.append(f'undeclared runtime dependencies: {und[:4]}')
    declared = set((obs.get('setup') or {}).get('dependencies') or [])
    if not set(case.get('dists', [])) <= declared:
        diffs.append(f"setup.py declares {sorted(declared)}; predicted at least {sorted(case.get('dists', []))}")
    imp = obs.get('import')
    if imp is None:
        return diffs
    if not imp['ok']:
        return diffs + [f"import failed: {imp['errors'][:3]}"]
    if sorted(imp['clients']) != sorted(case['clients']):
        diffs.append(f"clients {sorted(imp['clients'])} != predicted {sorted(case['clients'])}")
    for name, info in imp['clients'].items():
        if info['asyncio']:
            continue
        if info['registry'] != case['registry']:
            diffs.append(f"{name}: transport registry {info['registry']} != predicted {case['registry']}")
        want = {'grpc': 'GrpcTransport', 'rest': 'RestTransport'}[case['default']]
        if not info['default'].endswith(want) or 'AsyncIO' in info['default'] or 'AsyncRest' in info['default']:
            diffs.append(f"{name}: default transport {info['default']} but predicted {case['default']}")
        if name == 'LibraryClient':
            import re
            snake = lambda s: re.sub(r'(?<!^)(?=[A-Z])', '_', s).lower()
            for rpc in case['rpcs']:
                m = snake(rpc) + ('_' if rpc == 'Import' else '')
                if m not in info['methods']:
                    diffs.append(f'{name} lacks method {m} for RPC {rpc}')
            for m in case['mixins']:
                if m not in info['methods']:
                    diffs.append(f'{name} lacks mixin method {m}')
    return diffs


def run(chk, rnd):
    cases = featrun.get_cases(chk, chk.tier == 'quick', chk.seed)
    obs = featrun.run_cases(cases)
    for c, o in zip(cases, obs):
        k = featrun.key_of(c)
        chk.case(k, nontrivial=len(c['features']) > 0)
        diffs = compare(c, o)
        if diffs:
            chk.violation(k, '; '.join(diffs[:6]), dict(case=c, obs={x: o.get(x) for x in ('error', 'syntax_errors', 'import')}))
    chk.extra['feature_cases'] = len(cases)
    chk.extra['py_files_compiled'] = chk.extra.get('py_files_compiled', 0) + sum(o.get('n_py', 0) for o in obs)
    chk.extra['modules_imported'] = chk.extra.get('modules_imported', 0) + sum((o.get('import') or {}).get('modules', 0) for o in obs)
    for c in cases[-2:]:
        chk.sample(dict(features=c['features'], predicted=dict(clients=c['clients'], registry=c['registry'])))
